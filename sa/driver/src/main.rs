//! E0 — fact exporter. A deliberately dumb `rustc_private` driver: for crate `grevm` it writes the
//! MIR of every body (plus selected dependency bodies made available by `-Zalways-encode-mir`) as
//! one JSON file. No rule lives here; all rules are in /verif/sa/py.
//!
//! Environment:
//!   DRV_OUT   path of the JSON fact file (written to <path>.tmp then renamed — one write per process)
//!   DRV_EXT   optional path of a file listing dependency functions to export, one per line:
//!             `<crate_name> <def-path suffix>`
//!   DRV_CRATE crate name to export (default `grevm`)
#![feature(rustc_private)]
extern crate rustc_abi;
extern crate rustc_driver;
extern crate rustc_hir;
extern crate rustc_interface;
extern crate rustc_middle;
extern crate rustc_span;

use rustc_driver::{Callbacks, Compilation};
use rustc_hir::def::DefKind;
use rustc_hir::def_id::DefId;
use rustc_interface::interface::Compiler;
use rustc_middle::mir::*;
use rustc_middle::ty::print::with_no_trimmed_paths;
use rustc_middle::ty::{self, Instance, Ty, TyCtxt, TypingEnv};
use rustc_span::{ExpnKind, Span};
use std::collections::{BTreeMap, HashSet};
use std::fmt::Write;

fn js(s: &str) -> String {
    let mut o = String::with_capacity(s.len() + 2);
    o.push('"');
    for c in s.chars() {
        match c {
            '"' => o.push_str("\\\""),
            '\\' => o.push_str("\\\\"),
            '\n' => o.push_str("\\n"),
            '\t' => o.push_str("\\t"),
            c if (c as u32) < 0x20 => {
                let _ = write!(o, "\\u{:04x}", c as u32);
            }
            c => o.push(c),
        }
    }
    o.push('"');
    o
}

struct Ex<'tcx> {
    tcx: TyCtxt<'tcx>,
    enums: BTreeMap<String, Vec<(u128, String)>>,
}

impl<'tcx> Ex<'tcx> {
    fn tystr(&self, t: Ty<'tcx>) -> String {
        with_no_trimmed_paths!(t.to_string())
    }

    fn note_enum(&mut self, t: Ty<'tcx>) -> Option<String> {
        let tcx = self.tcx;
        if let ty::Adt(def, _) = t.kind() {
            if def.is_enum() {
                let path = with_no_trimmed_paths!(tcx.def_path_str(def.did()));
                if !self.enums.contains_key(&path) {
                    let mut vs = vec![];
                    for (vi, d) in def.discriminants(tcx) {
                        vs.push((d.val, def.variant(vi).name.to_string()));
                    }
                    self.enums.insert(path.clone(), vs);
                }
                return Some(path);
            }
        }
        None
    }

    fn macro_of(&self, sp: Span) -> Option<String> {
        if !sp.from_expansion() {
            return None;
        }
        // outermost user-visible macro name chain (innermost first)
        let mut names = vec![];
        let mut s = sp;
        let mut guard = 0;
        while s.from_expansion() && guard < 8 {
            let ed = s.ctxt().outer_expn_data();
            match ed.kind {
                ExpnKind::Macro(_, name) => names.push(name.to_string()),
                ExpnKind::Desugaring(k) => names.push(format!("desugar:{:?}", k)),
                _ => names.push("other".to_string()),
            }
            s = ed.call_site;
            guard += 1;
        }
        Some(names.join("<"))
    }

    fn line(&self, sp: Span) -> usize {
        // line of the outermost call site so macro-expanded code points into the crate
        let mut s = sp;
        let mut guard = 0;
        while s.from_expansion() && guard < 16 {
            s = s.ctxt().outer_expn_data().call_site;
            guard += 1;
        }
        self.tcx.sess.source_map().lookup_char_pos(s.lo()).line
    }

    fn place(&mut self, body: &Body<'tcx>, p: &Place<'tcx>) -> String {
        let tcx = self.tcx;
        let mut out = format!("{{\"local\":{},\"proj\":[", p.local.as_usize());
        let mut pty = PlaceTy::from_ty(body.local_decls[p.local].ty);
        let mut first = true;
        for elem in p.projection.iter() {
            if !first {
                out.push(',');
            }
            first = false;
            match elem {
                ProjectionElem::Deref => out.push_str("\"*\""),
                ProjectionElem::Field(f, _) => {
                    let name = match pty.ty.kind() {
                        ty::Adt(def, _) => {
                            let v = pty.variant_index.unwrap_or(rustc_abi::FIRST_VARIANT);
                            let vd = def.variant(v);
                            let adt = with_no_trimmed_paths!(tcx.def_path_str(def.did()));
                            if def.is_enum() {
                                format!("{}::{}.{}", adt, vd.name, vd.fields[f].name)
                            } else {
                                format!("{}.{}", adt, vd.fields[f].name)
                            }
                        }
                        ty::Closure(did, _) => {
                            let caps: Vec<_> = match did.as_local() {
                                Some(l) => tcx
                                    .closure_captures(l)
                                    .iter()
                                    .map(|c| c.to_string(tcx))
                                    .collect(),
                                None => vec![],
                            };
                            format!(
                                "upvar:{}",
                                caps.get(f.as_usize())
                                    .cloned()
                                    .unwrap_or_else(|| format!("{}", f.as_usize()))
                            )
                        }
                        ty::Tuple(_) => format!("tuple.{}", f.as_usize()),
                        _ => format!("{}", f.as_usize()),
                    };
                    out.push_str(&js(&name));
                }
                ProjectionElem::Downcast(name, _) => out.push_str(&js(&format!(
                    "as:{}",
                    name.map(|n| n.to_string()).unwrap_or_default()
                ))),
                ProjectionElem::Index(l) => out.push_str(&js(&format!("[_{}]", l.as_usize()))),
                ProjectionElem::ConstantIndex { offset, from_end, .. } => {
                    out.push_str(&js(&format!("[const {}{}]", if from_end { "-" } else { "" }, offset)))
                }
                other => out.push_str(&js(&format!("{:?}", other))),
            }
            pty = pty.projection_ty(tcx, elem);
        }
        out.push_str("]}");
        out
    }

    fn operand(&mut self, body: &Body<'tcx>, o: &Operand<'tcx>) -> String {
        match o {
            Operand::Copy(p) => format!("{{\"k\":\"copy\",\"p\":{}}}", self.place(body, p)),
            Operand::Move(p) => format!("{{\"k\":\"move\",\"p\":{}}}", self.place(body, p)),
            Operand::Constant(c) => {
                let s = with_no_trimmed_paths!(format!("{}", c.const_));
                let t = self.tystr(c.const_.ty());
                // function items used as values (fn pointers / generic fn args): give def path
                let mut extra = String::new();
                if let Const::Unevaluated(uv, _) = c.const_ {
                    if let Some(p) = uv.promoted {
                        let n = with_no_trimmed_paths!(self.tcx.def_path_str(uv.def));
                        extra = format!(",\"promoted\":{}", js(&format!("{}::promoted[{}]", n, p.as_usize())));
                    }
                }
                if let ty::FnDef(did, _) = *c.const_.ty().kind() {
                    let n = with_no_trimmed_paths!(self.tcx.def_path_str(did));
                    extra = format!(",\"fndef\":{}", js(&n));
                    // tuple-struct / tuple-variant constructors used as functions
                    if let DefKind::Ctor(of, _) = self.tcx.def_kind(did) {
                        let vdid = self.tcx.parent(did);
                        let (adt, variant) = match of {
                            rustc_hir::def::CtorOf::Variant => {
                                (self.tcx.parent(vdid), self.tcx.item_name(vdid).to_string())
                            }
                            rustc_hir::def::CtorOf::Struct => (vdid, String::new()),
                        };
                        let a = with_no_trimmed_paths!(self.tcx.def_path_str(adt));
                        extra.push_str(&format!(",\"ctor_adt\":{},\"ctor_variant\":{}", js(&a), js(&variant)));
                    }
                }
                format!("{{\"k\":\"const\",\"v\":{},\"ty\":{}{}}}", js(&s), js(&t), extra)
            }
            #[allow(unreachable_patterns)]
            _ => format!("{{\"k\":\"other\",\"v\":{}}}", js(&format!("{:?}", o))),
        }
    }

    fn rvalue(&mut self, body: &Body<'tcx>, r: &Rvalue<'tcx>) -> String {
        let tcx = self.tcx;
        match r {
            Rvalue::Use(o, _) => format!("{{\"k\":\"use\",\"o\":{}}}", self.operand(body, o)),
            Rvalue::Ref(_, bk, p) => format!(
                "{{\"k\":\"ref\",\"mut\":{},\"p\":{}}}",
                matches!(bk, BorrowKind::Mut { .. }),
                self.place(body, p)
            ),
            Rvalue::RawPtr(_, p) => format!("{{\"k\":\"rawptr\",\"p\":{}}}", self.place(body, p)),
            Rvalue::BinaryOp(op, ops) => format!(
                "{{\"k\":\"bin\",\"op\":{},\"l\":{},\"r\":{}}}",
                js(&format!("{:?}", op)),
                self.operand(body, &ops.0),
                self.operand(body, &ops.1)
            ),
            Rvalue::UnaryOp(op, o) => format!(
                "{{\"k\":\"un\",\"op\":{},\"o\":{}}}",
                js(&format!("{:?}", op)),
                self.operand(body, o)
            ),
            Rvalue::Cast(kind, o, t) => format!(
                "{{\"k\":\"cast\",\"ck\":{},\"o\":{},\"ty\":{}}}",
                js(&format!("{:?}", kind)),
                self.operand(body, o),
                js(&self.tystr(*t))
            ),
            Rvalue::Discriminant(p) => {
                let pt = p.ty(body, tcx).ty;
                let adt = self.note_enum(pt).unwrap_or_default();
                format!(
                    "{{\"k\":\"discr\",\"p\":{},\"ty\":{},\"adt\":{}}}",
                    self.place(body, p),
                    js(&self.tystr(pt)),
                    js(&adt)
                )
            }
            Rvalue::Aggregate(kind, ops) => {
                let (kname, variant, fields): (String, String, Vec<String>) = match &**kind {
                    AggregateKind::Adt(did, v, _, _, _) => {
                        let def = tcx.adt_def(*did);
                        let vd = def.variant(*v);
                        let adt = with_no_trimmed_paths!(tcx.def_path_str(*did));
                        let vn = if def.is_enum() { vd.name.to_string() } else { String::new() };
                        (adt, vn, vd.fields.iter().map(|f| f.name.to_string()).collect())
                    }
                    AggregateKind::Tuple => ("tuple".into(), String::new(), vec![]),
                    AggregateKind::Closure(did, _) => (
                        format!("closure:{}", with_no_trimmed_paths!(tcx.def_path_str(*did))),
                        String::new(),
                        vec![],
                    ),
                    AggregateKind::Array(_) => ("array".into(), String::new(), vec![]),
                    other => (format!("{:?}", other), String::new(), vec![]),
                };
                let os: Vec<String> = ops.iter().map(|o| self.operand(body, o)).collect();
                let fs: Vec<String> = fields.iter().map(|f| js(f)).collect();
                format!(
                    "{{\"k\":\"agg\",\"adt\":{},\"variant\":{},\"fields\":[{}],\"ops\":[{}]}}",
                    js(&kname),
                    js(&variant),
                    fs.join(","),
                    os.join(",")
                )
            }
            Rvalue::CopyForDeref(p) => {
                format!("{{\"k\":\"use\",\"o\":{{\"k\":\"copy\",\"p\":{}}}}}", self.place(body, p))
            }
            other => format!("{{\"k\":\"other\",\"v\":{}}}", js(&format!("{:?}", other))),
        }
    }

    fn body(&mut self, did: DefId, name: &str, kind: &str, body: &Body<'tcx>, out: &mut String) {
        let tcx = self.tcx;
        let sm = tcx.sess.source_map();
        let lo = sm.lookup_char_pos(body.span.lo());
        let hi = sm.lookup_char_pos(body.span.hi());
        let file = format!("{}", lo.file.name.prefer_local_unconditionally());
        let mut parent = String::new();
        let mut self_ty = String::new();
        let mut vis = String::new();
        let mut reachable = false;
        let dk = tcx.def_kind(did);
        if matches!(dk, DefKind::Closure) {
            parent = with_no_trimmed_paths!(tcx.def_path_str(tcx.parent(did)));
        }
        if matches!(dk, DefKind::AssocFn) {
            let p = tcx.parent(did);
            if matches!(tcx.def_kind(p), DefKind::Impl { .. }) {
                self_ty = self.tystr(tcx.type_of(p).instantiate_identity().skip_norm_wip());
            }
        }
        if matches!(dk, DefKind::Fn | DefKind::AssocFn) {
            vis = format!("{:?}", tcx.visibility(did));
            if let Some(l) = did.as_local() {
                reachable = tcx.effective_visibilities(()).is_reachable(l);
            }
        }
        // captured places of a closure, in the order of the closure aggregate's operands
        let mut caps: Vec<String> = vec![];
        if matches!(dk, DefKind::Closure) {
            if let Some(l) = did.as_local() {
                caps = tcx.closure_captures(l).iter().map(|c| js(&c.to_string(tcx))).collect();
            }
        }
        let _ = write!(out, "{{\"caps\":[{}],", caps.join(","));
        let _ = write!(
            out,
            "\"fn\":{},\"kind\":{},\"parent\":{},\"self_ty\":{},\"vis\":{},\"reachable\":{},\"file\":{},\"lo\":{},\"hi\":{},\"argc\":{},\"locals\":[",
            js(name),
            js(kind),
            js(&parent),
            js(&self_ty),
            js(&vis),
            reachable,
            js(&file),
            lo.line,
            hi.line,
            body.arg_count
        );
        let mut names = vec![String::new(); body.local_decls.len()];
        let mut upvars: Vec<(String, String)> = vec![];
        for vdi in &body.var_debug_info {
            if let VarDebugInfoContents::Place(p) = &vdi.value {
                if p.projection.is_empty() {
                    names[p.local.as_usize()] = vdi.name.to_string();
                } else {
                    let ps = self.place(body, p);
                    upvars.push((vdi.name.to_string(), ps));
                }
            }
        }
        for (i, (l, d)) in body.local_decls.iter_enumerated().enumerate() {
            if i > 0 {
                out.push(',');
            }
            let _ = write!(
                out,
                "{{\"i\":{},\"ty\":{},\"name\":{}}}",
                l.as_usize(),
                js(&self.tystr(d.ty)),
                js(&names[l.as_usize()])
            );
        }
        out.push_str("],\"dbg\":[");
        for (i, (n, p)) in upvars.iter().enumerate() {
            if i > 0 {
                out.push(',');
            }
            let _ = write!(out, "{{\"name\":{},\"p\":{}}}", js(n), p);
        }
        out.push_str("],\"blocks\":[");
        let tenv = TypingEnv::post_analysis(tcx, did);
        for (bi, (bb, data)) in body.basic_blocks.iter_enumerated().enumerate() {
            if bi > 0 {
                out.push(',');
            }
            let _ = write!(out, "{{\"bb\":{},\"cleanup\":{},\"stmts\":[", bb.as_usize(), data.is_cleanup);
            let mut first = true;
            for st in &data.statements {
                let line = self.line(st.source_info.span);
                let mac = self.macro_of(st.source_info.span);
                let macs = mac.map(|m| format!(",\"mac\":{}", js(&m))).unwrap_or_default();
                match &st.kind {
                    StatementKind::Assign(b) => {
                        if !first {
                            out.push(',');
                        }
                        first = false;
                        let l = self.place(body, &b.0);
                        let r = self.rvalue(body, &b.1);
                        let _ = write!(out, "{{\"lhs\":{},\"rv\":{},\"line\":{}{}}}", l, r, line, macs);
                    }
                    StatementKind::SetDiscriminant { place, variant_index } => {
                        if !first {
                            out.push(',');
                        }
                        first = false;
                        let pt = place.ty(body, tcx).ty;
                        let vn = match pt.kind() {
                            ty::Adt(def, _) => def.variant(*variant_index).name.to_string(),
                            _ => format!("{}", variant_index.as_usize()),
                        };
                        let l = self.place(body, place);
                        let _ = write!(
                            out,
                            "{{\"lhs\":{},\"rv\":{{\"k\":\"setdiscr\",\"variant\":{},\"ty\":{}}},\"line\":{}{}}}",
                            l,
                            js(&vn),
                            js(&self.tystr(pt)),
                            line,
                            macs
                        );
                    }
                    _ => {}
                }
            }
            out.push_str("],\"term\":");
            let term = data.terminator();
            let line = self.line(term.source_info.span);
            let mac = self.macro_of(term.source_info.span);
            match &term.kind {
                TerminatorKind::Goto { target } => {
                    let _ = write!(out, "{{\"k\":\"goto\",\"t\":{}", target.as_usize());
                }
                TerminatorKind::SwitchInt { discr, targets } => {
                    let dty = self.tystr(discr.ty(body, tcx));
                    let ts: Vec<String> =
                        targets.iter().map(|(v, t)| format!("[{},{}]", v, t.as_usize())).collect();
                    let d = self.operand(body, discr);
                    let _ = write!(
                        out,
                        "{{\"k\":\"switch\",\"d\":{},\"dty\":{},\"targets\":[{}],\"otherwise\":{}",
                        d,
                        js(&dty),
                        ts.join(","),
                        targets.otherwise().as_usize()
                    );
                }
                TerminatorKind::Return => out.push_str("{\"k\":\"return\""),
                TerminatorKind::Unreachable => out.push_str("{\"k\":\"unreachable\""),
                TerminatorKind::Drop { place, target, .. } => {
                    let p = self.place(body, place);
                    let _ = write!(out, "{{\"k\":\"drop\",\"p\":{},\"t\":{}", p, target.as_usize());
                }
                TerminatorKind::Assert { cond, expected, target, msg, .. } => {
                    let c = self.operand(body, cond);
                    let _ = write!(
                        out,
                        "{{\"k\":\"assert\",\"c\":{},\"exp\":{},\"t\":{},\"msg\":{}",
                        c,
                        expected,
                        target.as_usize(),
                        js(&format!("{:?}", msg).chars().take(60).collect::<String>())
                    );
                }
                TerminatorKind::Call { func, args, destination, target, .. } => {
                    let fty = func.ty(body, tcx);
                    let (callee, decl, generic, local) = if let ty::FnDef(cdid, cargs) = *fty.kind() {
                        let resolved = Instance::try_resolve(tcx, tenv, cdid, cargs).ok().flatten();
                        let decl = with_no_trimmed_paths!(tcx.def_path_str(cdid));
                        let (n, loc) = match resolved {
                            Some(i) => (
                                with_no_trimmed_paths!(tcx.def_path_str(i.def_id())),
                                i.def_id().is_local(),
                            ),
                            None => (decl.clone(), cdid.is_local()),
                        };
                        (n, decl, with_no_trimmed_paths!(format!("[{}]", cargs.iter().map(|a| a.to_string()).collect::<Vec<_>>().join(", "))), loc)
                    } else {
                        (format!("indirect:{}", self.tystr(fty)), String::new(), String::new(), false)
                    };
                    let os: Vec<String> = args.iter().map(|a| self.operand(body, &a.node)).collect();
                    let d = self.place(body, destination);
                    let _ = write!(
                        out,
                        "{{\"k\":\"call\",\"callee\":{},\"decl\":{},\"generic\":{},\"local\":{},\"args\":[{}],\"dest\":{},\"t\":{}",
                        js(&callee),
                        js(&decl),
                        js(&generic),
                        local,
                        os.join(","),
                        d,
                        target.map(|t| t.as_usize() as i64).unwrap_or(-1)
                    );
                }
                TerminatorKind::UnwindResume => out.push_str("{\"k\":\"resume\""),
                other => {
                    let _ = write!(
                        out,
                        "{{\"k\":\"other\",\"v\":{}",
                        js(&format!("{:?}", other).chars().take(60).collect::<String>())
                    );
                }
            }
            if let Some(m) = mac {
                let _ = write!(out, ",\"mac\":{}", js(&m));
            }
            let _ = write!(out, ",\"line\":{}}}}}", line);
        }
        out.push_str("]}");
    }
}

struct Cb;
impl Callbacks for Cb {
    fn after_analysis<'tcx>(&mut self, _c: &Compiler, tcx: TyCtxt<'tcx>) -> Compilation {
        let want = std::env::var("DRV_CRATE").unwrap_or_else(|_| "grevm".to_string());
        let krate = tcx.crate_name(rustc_span::def_id::LOCAL_CRATE);
        if krate.as_str() != want {
            return Compilation::Continue;
        }
        // only the library target (bins share the crate name only if named so; guard on crate type)
        let Ok(path) = std::env::var("DRV_OUT") else { return Compilation::Continue };
        let mut ex = Ex { tcx, enums: BTreeMap::new() };
        let mut out = String::from("{\"bodies\":[\n");
        let mut first = true;
        let mut nbodies = 0usize;
        for def in tcx.hir_body_owners() {
            let did = def.to_def_id();
            let kind = tcx.def_kind(did);
            if matches!(kind, DefKind::Const { .. } | DefKind::AssocConst { .. }) {
                // named constants (`CommittedPrefixEnd::ZERO`): their value is part of the protocol
                let name = with_no_trimmed_paths!(tcx.def_path_str(did));
                let body = tcx.mir_for_ctfe(def);
                if !first {
                    out.push_str(",\n");
                }
                first = false;
                ex.body(did, &name, "const", body, &mut out);
                nbodies += 1;
                continue;
            }
            if !matches!(kind, DefKind::Fn | DefKind::AssocFn | DefKind::Closure) {
                continue;
            }
            let name = with_no_trimmed_paths!(tcx.def_path_str(did));
            let body = tcx.optimized_mir(did);
            if !first {
                out.push_str(",\n");
            }
            first = false;
            let k = match kind {
                DefKind::Fn => "fn",
                DefKind::AssocFn => "assoc",
                _ => "closure",
            };
            ex.body(did, &name, k, body, &mut out);
            nbodies += 1;
            for (pi, pb) in tcx.promoted_mir(did).iter_enumerated() {
                out.push_str(",\n");
                ex.body(did, &format!("{}::promoted[{}]", name, pi.as_usize()), "promoted", pb, &mut out);
            }
        }
        // dependency bodies
        let mut wanted: Vec<(String, String)> = vec![];
        if let Ok(p) = std::env::var("DRV_EXT") {
            if let Ok(txt) = std::fs::read_to_string(&p) {
                for l in txt.lines() {
                    let l = l.trim();
                    if l.is_empty() || l.starts_with('#') {
                        continue;
                    }
                    let mut it = l.splitn(2, ' ');
                    if let (Some(c), Some(s)) = (it.next(), it.next()) {
                        wanted.push((c.to_string(), s.trim().to_string()));
                    }
                }
            }
        }
        let mut found: Vec<String> = vec![];
        if !wanted.is_empty() {
            let crates: HashSet<String> = wanted.iter().map(|w| w.0.clone()).collect();
            for cnum in tcx.crates(()) {
                let cname = tcx.crate_name(*cnum).to_string();
                if !crates.contains(&cname) {
                    continue;
                }
                let mut stack = vec![cnum.as_def_id()];
                let mut seen = HashSet::new();
                let mut done = HashSet::new();
                while let Some(m) = stack.pop() {
                    if !seen.insert(m) {
                        continue;
                    }
                    for child in tcx.module_children(m) {
                        let Some(did) = child.res.opt_def_id() else { continue };
                        if did.krate != *cnum {
                            continue;
                        }
                        let mut cands: Vec<DefId> = vec![];
                        match tcx.def_kind(did) {
                            DefKind::Mod => stack.push(did),
                            DefKind::Struct | DefKind::Enum => {
                                for imp in tcx.inherent_impls(did).iter() {
                                    cands.extend(tcx.associated_item_def_ids(*imp).iter().copied());
                                }
                            }
                            DefKind::Trait => {
                                cands.extend(tcx.associated_item_def_ids(did).iter().copied())
                            }
                            DefKind::Fn => cands.push(did),
                            _ => {}
                        }
                        for it in cands {
                            if !matches!(tcx.def_kind(it), DefKind::Fn | DefKind::AssocFn) {
                                continue;
                            }
                            let name = with_no_trimmed_paths!(tcx.def_path_str(it));
                            let hit = wanted.iter().any(|(c, s)| {
                                *c == cname
                                    && (name == *s || name.ends_with(&format!("::{}", s)))
                            });
                            if hit && tcx.is_mir_available(it) && done.insert(it) {
                                out.push_str(",\n");
                                let b = tcx.optimized_mir(it);
                                ex.body(it, &format!("ext::{}", name), "ext", b, &mut out);
                                for (pi, pb) in tcx.promoted_mir(it).iter_enumerated() {
                                    out.push_str(",\n");
                                    ex.body(it, &format!("{}::promoted[{}]", name, pi.as_usize()), "promoted", pb, &mut out);
                                }
                                found.push(name);
                            }
                        }
                    }
                }
            }
        }
        out.push_str("\n],\n\"enums\":{");
        let mut firste = true;
        for (k, vs) in &ex.enums {
            if !firste {
                out.push(',');
            }
            firste = false;
            let items: Vec<String> = vs.iter().map(|(d, n)| format!("[{},{}]", d, js(n))).collect();
            let _ = write!(out, "{}:[{}]", js(k), items.join(","));
        }
        out.push_str("},\n\"structs\":{");
        // local ADT field tables
        let mut firsts = true;
        for id in tcx.hir_crate_items(()).definitions() {
            let did = id.to_def_id();
            if !matches!(tcx.def_kind(did), DefKind::Struct) {
                continue;
            }
            let def = tcx.adt_def(did);
            let path = with_no_trimmed_paths!(tcx.def_path_str(did));
            if !firsts {
                out.push(',');
            }
            firsts = false;
            let fields: Vec<String> = def
                .non_enum_variant()
                .fields
                .iter()
                .map(|f| {
                    let t = with_no_trimmed_paths!(tcx.type_of(f.did).instantiate_identity().skip_norm_wip().to_string());
                    format!(
                        "{{\"name\":{},\"ty\":{},\"vis\":{}}}",
                        js(&f.name.to_string()),
                        js(&t),
                        js(&format!("{:?}", f.vis))
                    )
                })
                .collect();
            let _ = write!(out, "{}:[{}]", js(&path), fields.join(","));
        }
        let _ = write!(
            out,
            "}},\n\"meta\":{{\"crate\":{},\"bodies\":{},\"ext_found\":[{}],\"src_hash\":{}}}}}",
            js(krate.as_str()),
            nbodies,
            found.iter().map(|f| js(f)).collect::<Vec<_>>().join(","),
            js(&std::env::var("DRV_SRC_HASH").unwrap_or_default())
        );
        std::fs::write(format!("{}.tmp", path), out).unwrap();
        std::fs::rename(format!("{}.tmp", path), path).unwrap();
        Compilation::Continue
    }
}

fn main() {
    let mut args: Vec<String> = std::env::args().collect();
    // RUSTC_WORKSPACE_WRAPPER passes the real rustc path as argv[1]
    args.remove(1);
    rustc_driver::run_compiler(&args, &mut Cb);
}

"""Loop-control exactness (LC rules).  The order/presence rules say what happens inside one iteration; these
say that the coordinator loops visit exactly the indices 0..block_size, carry their cursor forward, wait on
the right polarity, that a worker never loses a claimed follow-up task, that a stale claim is told from a
valid one the right way round, and that a role's panic payload survives the joins.  Every one of them was an
unreported survivor of the mechanical mutation sweep (sa/py/mutsweep.py) before it became a rule."""
from ru import *
from rules_sched import sched
import core


def _rel_between(e, is_idx, is_bound):
    """the relation that HOLDS on this path between an index term and a bound term: op with idx on the left, or None"""
    n = norm_cmp(e)
    if not n:
        return None
    op, l, r = n
    if is_idx(l) and is_bound(r):
        return op, l
    if is_idx(r) and is_bound(l):
        return CMP_FLIP[op], r
    return None


def _is_block_size(t):
    return is_field(strip(t), 'Scheduler.block_size')


def _not_block_size(t):
    return not _is_block_size(t)


def _aborted_true_after(p, i):
    return any(a.kind == 'atom' and a.d['term'][0] == 'call' and callee_matches(a.d['term'][1], 'is_aborted') and a.d['outcome'] == 'true' for a in p.events[i:])


def _is_abort_atom(e):
    if e.kind != 'atom':
        return None
    t, o = e.d['term'], e.d['outcome']
    neg = False
    while t[0] == 'un' and t[1] == 'Not':
        t, neg = t[2], not neg
    if t[0] == 'call' and callee_matches(t[1], 'is_aborted') and o in ('true', 'false'):
        return (o == 'true') != neg
    return None


def _loop_bounds(ctx, f, rid, is_publish, what):
    """every evaluation of the loop head (the run of decisions on the abort flag and on cursor vs block_size):
    (a) looks at the CURRENT cursor (0 at first, then whatever was last published); (b) goes on into the body
    only when the flag was read clear AND `cursor < block_size`; (c) leaves only when the flag was read set OR
    `cursor >= block_size` (`!=`/`==` accepted: the cursor moves by single steps from 0)"""
    bad = []
    n_cont = n_exit = 0
    for p in [q for q in f.paths(max_visits=3) if q.end in ('return', 'cut')]:
        last_pub = ('const', '0_usize')
        ev = p.events
        known = {}
        # head evaluations: maximal runs of events without a non-noise call other than is_aborted()
        groups, cur = [], []
        for i, e in enumerate(ev):
            if is_publish(e):
                last_pub = strip(e.d['args'][1])
            brk = (e.kind == 'call' and not callee_matches(e.d['callee'], 'is_aborted') and not is_noise_call(e.d['callee'])
                   and not ctx.facts.is_new_fn(e.d['callee'])) or e.kind == 'ret'
            if brk:
                if cur:
                    groups.append((cur, e))
                cur = []
                continue
            if e.kind == 'atom' and getattr(e, 'mac', None) and 'assert' in str(e.mac):
                continue     # (a debug assertion is not a loop test)
            ab = _is_abort_atom(e)
            if ab is not None and last_pub in known and not any(k == 'bound' for k, _, _ in cur):
                # the engine reports a decision once per value: an unchanged cursor keeps its decided relation
                cur.append(('bound', known[last_pub], e))
            r = _rel_between(e, _not_block_size, _is_block_size) if e.kind == 'atom' else None
            if ab is not None:
                cur.append(('abort', ab, e))
            elif r:
                op, it = r
                # `cursor + 1 <= n` is `cursor < n` (an assertion on the next index restates the loop bound)
                if op in ('Le', 'Gt'):
                    b_, k_ = lin(strip(it))
                    if k_ >= 1:
                        op = 'Lt' if op == 'Le' else 'Ge'
                        it = ('const', f'{k_ - 1}_usize') if b_ is None else (b_ if k_ == 1 else it)
                cur.append(('bound', op, e))
                known[strip(it)] = op
                la, lb = lin(strip(it)), lin(last_pub)
                same_cursor = strip(it) == last_pub or (la[1] == lb[1] and (la[0] == lb[0] or (la[0] is not None and lb[0] is not None and strip(la[0]) == strip(lb[0]))))
                if not same_cursor:
                    bad.append((p, e, f'the loop bound is tested for {show(strip(it))[:32]} while the cursor stands at {show(last_pub)[:32]}'))
        if cur:
            groups.append((cur, None))
        for items, nxt in groups:
            if nxt is None:
                continue
            clear = any(k == 'abort' and v is False for k, v, _ in items)
            set_ = any(k == 'abort' and v is True for k, v, _ in items)
            below = any(k == 'bound' and v in ('Lt', 'Ne') for k, v, _ in items)
            atend = any(k == 'bound' and v in ('Ge', 'Eq') for k, v, _ in items)
            other = [v for k, v, _ in items if k == 'bound' and v not in ('Lt', 'Ne', 'Ge', 'Eq')]
            e0 = items[0][2]
            if other:
                bad.append((p, e0, f'the loop bound is decided as `cursor {other[0]} block_size`'))
                continue
            if nxt.kind == 'ret':
                if calls(p, 'Scheduler<DB>>::abort'):
                    continue
                n_exit += 1
                if not (set_ or atend):
                    bad.append((p, e0, 'the loop is left although the abort flag was not read set and the cursor was not found at block_size'))
            else:
                if not clear and not set_ and not other:
                    continue     # (a comparison with block_size away from the loop head, e.g. an assertion on the next index)
                n_cont += 1
                if not (clear and below):
                    bad.append((p, e0, 'the loop goes on without having read the abort flag clear and the cursor below block_size'))
    ctx.ob(rid, f, 'loop-visits-exactly-0..block_size', n_cont >= 1 and n_exit >= 1 and not bad,
           f'continue-tests={n_cont} exit-tests={n_exit}; ' + '; '.join(sorted({f'{site(f, e)} {w}' for _, e, w in bad})[:3]), site=f.loc(f.b['lo']), what=what)


def LC1_finality_loop(ctx):
    f = sched(ctx, 'run_finality_loop')
    is_pub = lambda e: is_call(e, 'SchedulerContext::publish_finality')
    _loop_bounds(ctx, f, 'LC1', is_pub,
                 'the finality coordinator must consider exactly the indices 0..block_size: starting later finalises an unvalidated transaction, stopping early or testing `<=` leaves it waiting for a candidate that cannot exist (the scope never joins)')
    # progress: after publishing idx+1 the next candidate asked for is that very idx+1; first candidate is (0, 0)
    bad = []
    n_adv = 0
    first_ok = True
    for p in [q for q in f.paths(max_visits=3) if q.end in ('return', 'cut')]:
        cands = [(i, e) for i, e in enumerate(p.events) if is_call(e, 'Scheduler::lock_finality_candidate')]
        if cands:
            a = cands[0][1].d['args']
            if strip(a[1]) != ('const', '0_usize') or strip(a[2]) != ('const', '0_usize'):
                first_ok = False
        pubs = [(i, e) for i, e in enumerate(p.events) if is_pub(e)]
        for i, e in pubs:
            nxt = [c for j, c in cands if j > i]
            if not nxt:
                continue
            n_adv += 1
            if strip(nxt[0].d['args'][1]) != strip(e.d['args'][1]):
                bad.append((p, e, f'after publishing {show(strip(e.d["args"][1]))[:30]} the next candidate is {show(strip(nxt[0].d["args"][1]))[:30]}'))
    ctx.ob('LC1', f, 'finality-cursor-carried-forward', n_adv >= 1 and first_ok and not bad,
           f'advances={n_adv} first-candidate-(0,0)={first_ok}; ' + '; '.join(sorted({f'{site(f, e)} {w}' for _, e, w in bad})[:2]), site=f.loc(f.b['lo']),
           what='the local cursor must follow the published finality end; a cursor that is not advanced re-examines a Finality transaction for ever, one that starts at 1 or with a non-zero lower timestamp skips or strands the first transaction')


def LC2_commit_loop(ctx):
    f = sched(ctx, 'run_commit_loop')
    def take_idx(e):
        for s in subterms(e.d['args'][0]):
            if s[0] == 'call' and s[1].endswith('::index') and mentions_field(s[2][0], 'Scheduler.tx_results'):
                return s[2][1]
        return ('unk', 'no-index')
    _loop_bounds(ctx, f, 'LC2', lambda e: is_call(e, 'SchedulerContext::publish_commit'),
                 'the commit loop must commit exactly the indices 0..block_size in order; `<=` waits for a finality that never comes, a later start skips a transaction')
    bad = []
    n_adv = 0
    for p in [q for q in f.paths(max_visits=3) if q.end in ('return', 'cut')]:
        pubs = [(i, e) for i, e in enumerate(p.events) if is_call(e, 'SchedulerContext::publish_commit')]
        for i, e in pubs:
            nxt = [x for x in p.events[i + 1:] if x.kind == 'atom' and norm_cmp(x) and has_call(x.d['term'], 'SchedulerContext::finality_idx')]
            if not nxt:
                continue
            n_adv += 1
            op, l, r = norm_cmp(nxt[0])
            other = r if has_call(l, 'SchedulerContext::finality_idx') else l
            if strip(other) != strip(e.d['args'][1]):
                bad.append((p, e, f'after publishing {show(strip(e.d["args"][1]))[:30]} the loop compares {show(strip(other))[:30]} with the finality cursor'))
    ctx.ob('LC2', f, 'commit-cursor-carried-forward', n_adv >= 1 and not bad,
           f'advances={n_adv}; ' + '; '.join(sorted({f'{site(f, e)} {w}' for _, e, w in bad})[:2]), site=f.loc(f.b['lo']),
           what='the local commit index must follow the published committed end, otherwise the same transaction is taken again (its result is gone: spurious abort) or one is skipped')


def LC3_wait_predicates(ctx):
    """a coordinator may sleep only while there is provably nothing for it to do"""
    for parent, slot in (('run_finality_loop', 'Scheduler.finality_wait'), ('run_commit_loop', 'Scheduler.commit_wait')):
        pf = sched(ctx, parent)
        used = {}
        for p in [q for q in pf.paths(max_visits=3) if q.end in ('return', 'cut')]:
            for e in calls(p, 'WaitSlot::wait_while'):
                for s in subterms(e.d['args'][2]):
                    if s[0] == 'closure':
                        used.setdefault(s[1], []).append((p, e, s))
        if not used:
            raise AnchorLost(f'wait_while predicate closure in {parent}')
        for cname, uses in sorted(used.items()):
            cf = ctx.fn(cname)
            bad = []
            n_block = 0
            for p in feasible(cf.paths()):
                ret = fold_bool([e for e in p.events if e.kind == 'ret'][0].d['value'])
                if ret[0] == 'const' and ret[1] == 'false':
                    continue
                n_block += 1
                if parent == 'run_finality_loop':
                    none = [a for a in p.events if option_fact(a) and has_call(option_fact(a)[0], 'Scheduler::lock_finality_candidate')]
                    if ret[0] == 'const' and ret[1] == 'true':
                        ok = any(option_fact(a)[1] == 'None' for a in none) and not any(option_fact(a)[1] == 'Some' for a in none)
                    else:
                        # returns the test itself: true exactly when there is no candidate
                        ot = opt_truth(ret)
                        ok = ot is not None and ot[1] == 'None' and has_call(ot[0], 'Scheduler::lock_finality_candidate')
                    if not ok:
                        bad.append((p, 'the finality coordinator can sleep while a finality candidate exists'))
                else:
                    rels = [norm_cmp(a) for a in p.events if a.kind == 'atom' and norm_cmp(a) and has_call(a.d['term'], 'SchedulerContext::finality_idx')]
                    okc = False
                    for op, l, r in rels:
                        if has_call(r, 'SchedulerContext::finality_idx'):
                            okc = okc or op in ('Ge', 'Gt', 'Eq')
                        else:
                            okc = okc or op in ('Le', 'Lt', 'Eq')
                    neg = False
                    rt = ret
                    while rt[0] == 'un' and rt[1] == 'Not':
                        rt, neg = rt[2], not neg
                    if not rels and rt[0] == 'bin' and rt[1] in CMP_NEG:
                        op, l, r = rt[1], rt[2], rt[3]
                        if neg:
                            op = CMP_NEG[op]
                        if has_call(l, 'SchedulerContext::finality_idx'):
                            op = CMP_FLIP.get(op, op)
                        okc = op in ('Ge', 'Gt', 'Eq')
                    if not okc:
                        bad.append((p, 'the commit loop can sleep while a finalised transaction is waiting to be committed'))
            ctx.ob('LC3', cf, 'sleeps-only-when-idle', n_block >= 1 and not bad, '; '.join(sorted({w for _, w in bad})), site=cf.loc(cf.b['lo']),
                   what='the wait predicate must be true only when there is nothing to do; inverted, the coordinator parks on pending work and only the stall timer (or nothing) wakes it')
            # the predicate looks at the loop's CURRENT cursor values
            badc = []
            for p, e, s in uses:
                if parent == 'run_finality_loop':
                    cands = [x for x in p.events[:idx_of(p, e)] if is_call(x, 'Scheduler::lock_finality_candidate')]
                    if cands:
                        last = cands[-1].d['args']
                        caps = [strip(c) for c in s[2]]
                        if strip(last[1]) not in caps:
                            badc.append((p, e))
                        # and asks the SAME question as the loop's own probe: (cursor, carried lower bound), in that order
                        cb = ctx.facts.by[cname]
                        names = [cf.upvar_names.get('upvar:' + c, c) for c in cb.get('caps', [])]
                        amap = {('upvar', n_): strip(s[2][i_]) for i_, n_ in enumerate(names) if i_ < len(s[2])}
                        for q in feasible(cf.paths()):
                            for x in q.events:
                                if is_call(x, 'Scheduler::lock_finality_candidate'):
                                    got = [amap.get(strip(a_), strip(a_)) for a_ in x.d['args'][1:3]]
                                    want = [strip(a_) for a_ in last[1:3]]
                                    if got != want and (p, e) not in badc:
                                        badc.append((p, e))
            ctx.ob('LC3', cf, 'predicate-uses-current-cursor', not badc, f'{len(badc)} use(s) capture a stale cursor value or probe with other arguments than the loop itself', site=cf.loc(cf.b['lo']),
                   what='the predicate asks exactly what the loop just asked — lock_finality_candidate(current finality index, carried lower bound) — so "still blocked" means the loop would find nothing')


_TRY = re.compile(r'::(try_lock|try_lock_for|try_lock_until|try_read|try_write|try_read_for|try_write_for|is_locked|try_get|try_get_mut|try_entry|try_recv)$')


def LC9_predicates_ignore_contention(ctx):
    """what a coordinator decides to sleep on is a function of the shared STATE, never of who happens to hold a lock"""
    facts = ctx.facts
    n = 0
    for parent, slot in (('run_finality_loop', 'finality_wait'), ('run_commit_loop', 'commit_wait')):
        pf = sched(ctx, parent)
        closure_names = set()
        for b in [pf.b] + [c for c in facts.bodies if c['fn'].startswith(pf.name + '::{closure')]:
            for bl in b['blocks']:
                t = bl['term']
                if bl['cleanup'] or t['k'] != 'call' or not norm_callee(t['callee']).endswith('WaitSlot::wait_while'):
                    continue
                n += 1
        # everything the loop (its predicate closures included) can call inside the crate
        reach = facts.reach(pf.name) | {pf.name}
        reach |= {c['fn'] for c in facts.bodies if any(c['fn'].startswith(r + '::{closure') for r in list(reach) if r.startswith(('scheduler', 'tx_dependency', 'beneficiary', '<scheduler')))}
        bad = []
        for b in facts.production():
            if b['fn'] not in reach:
                continue
            for bl in b['blocks']:
                t = bl['term']
                if not bl['cleanup'] and t['k'] == 'call' and _TRY.search(norm_callee(t['callee'])):
                    bad.append(f"{core.short_fn(b['fn'])}:{t['line']} {norm_callee(t['callee']).split('::')[-1]}")
        ctx.ob('LC9', pf, 'decisions-do-not-depend-on-lock-contention', not bad, '; '.join(sorted(set(bad))[:4]), site=pf.loc(pf.b['lo']),
               what=f'no non-blocking acquisition (try_lock & co.) in anything {parent} or its wait predicate calls: "the lock is busy" would be read as "nothing to do", '
                    'and holders that release without notifying (stale claims, duplicate validations) leave the coordinator parked until the stall timer')
    ctx.count('LC9.wait-sites', n)
    if n < 2:
        raise AnchorLost(f'wait_while call sites in the coordinator loops: {n}')


def LC4_worker_keeps_followup(ctx):
    f = sched(ctx, 'run_worker')
    bad = []
    n_some = n_none = 0
    # (a worker written as an explicit state machine needs one loop visit per state: Fetch -> Run -> Fetch -> ...)
    for p in [q for q in f.paths(max_visits=5) if q.end in ('return', 'cut')]:
        ev = p.events
        for i, e in enumerate(ev):
            if not (e.kind == 'call' and (is_call(e, 'Scheduler::execute_task') or is_call(e, 'Scheduler::validate'))):
                continue
            res = strip(e.d['result'])
            dec = [(j, option_fact(a)) for j, a in enumerate(ev) if j > i and option_fact(a) and strip(option_fact(a)[0]) == res]
            if not dec:
                bad.append((p, e, 'the follow-up task of an attempt is never inspected'))
                continue
            j, (_, v) = dec[0]
            rest = ev[j:]
            nxt_disp = [k for k, x in enumerate(rest) if x.kind == 'call' and (is_call(x, 'Scheduler::execute_task') or is_call(x, 'Scheduler::validate'))]
            upto = nxt_disp[0] if nxt_disp else len(rest)
            nx = [x for x in rest[:upto] if is_call(x, 'Scheduler::next')]
            if v == 'Some':
                n_some += 1
                if nx:
                    bad.append((p, e, 'a claimed follow-up task is overwritten by next()'))
                if p.end == 'return' and not nxt_disp:
                    bad.append((p, e, 'the worker returns while holding a claimed follow-up task'))
            else:
                n_none += 1
                ab_true = _aborted_true_after(p, j)
                if not nx and not ab_true and p.end == 'return':
                    # (a path cut at the loop bound before the next state is reached proves nothing either way)
                    bad.append((p, e, 'no follow-up, not aborted, and next() is not consulted'))
    ctx.ob('LC4', f, 'follow-up-task-is-run-not-replaced', n_some >= 2 and n_none >= 2 and not bad,
           f'some={n_some} none={n_none}; ' + '; '.join(sorted({w for _, _, w in bad})[:3]), site=f.loc(f.b['lo']),
           what='execute_task/validate hand back a task whose status transition is already made (Validating, or a claimed execution); dropping or replacing it leaves that transaction in a state nobody will pick up')


def LC5_stale_claim_polarity(ctx):
    for m, status, anchor in (('execute_task', 'Executing', '::execute_incarnation'), ('validate', 'Validating', 'SchedulerContext::logical_timestamp')):
        f = sched(ctx, m)
        bad = []
        n = 0
        for p in [q for q in f.paths() if q.end in ('return', 'cut')]:
            a = [i for i, e in enumerate(p.events) if e.kind == 'call' and (callee_matches(e.d['callee'], anchor) or e.d['callee'].endswith(anchor))]
            if not a:
                continue
            n += 1
            i = a[0]
            eq, ne = status_facts(p, i, lambda pl: is_field(strip(pl), 'TxState.status'))
            if eq != {status}:
                bad.append((p, f'attempt proceeds with status known as {eq or ("not " + "|".join(sorted(ne)))} (needs {status})'))
            okv = holds_rel(p, i, lambda op, l, r: op == 'Eq' and is_field(strip(l), 'TxState.incarnation') and (mentions_field(r, 'TxVersion.incarnation') or mentions(r, ('arg', 4)) or mentions(r, ('arg', 3))))
            if not okv:
                bad.append((p, 'attempt proceeds without the locked incarnation being equal to the claimed one'))
        ctx.ob('LC5', f, 'only-a-matching-claim-proceeds', n >= 1 and not bad, '; '.join(sorted({w for _, w in bad})[:2]), site=f.loc(f.b['lo']),
               what='claims can be stale or duplicated; the attempt may run only when the locked status and incarnation are exactly the claimed ones (inverted, every valid claim is dropped and the transaction is stranded in Executing/Validating)')


def LC6_panic_payload(ctx):
    """scope body: the payload re-raised is a join payload, and every join's Err is kept when it is the first"""
    pe = ctx.method('scheduler::Scheduler<DB>', 'parallel_execute_inner')
    body = None
    for c in ctx.facts.closures_under(pe.name):
        cf = ctx.fn(c)
        if any(norm_callee(e.d['callee']).endswith('ScopedJoinHandle::join') for p in cf.paths(max_visits=2) for e in p.events if e.kind == 'call'):
            body = cf
            break
    if body is None:
        raise AnchorLost('thread::scope body with explicit joins')
    bad = []
    n_err = 0
    for p in [q for q in body.paths(max_visits=2) if q.end in ('return', 'diverge', 'cut')]:
        joins = [(i, e) for i, e in enumerate(p.events) if e.kind == 'call' and norm_callee(e.d['callee']).endswith('ScopedJoinHandle::join')]
        errs = []
        for i, e in joins:
            d = [option_fact(a) for a in p.events[i:] if option_fact(a) and strip(option_fact(a)[0]) == strip(e.d['result'])]
            if d and d[0][1] == 'Err':
                errs.append(e)
        if not errs:
            continue
        n_err += 1
        ru_ = [e for e in p.events if e.kind == 'call' and e.d['callee'].endswith('resume_unwind')]
        if p.end == 'cut':
            continue
        if not ru_:
            bad.append((p, errs[0], 'a role panicked but the scope body does not re-raise'))
            continue
        first = errs[0]
        if not mentions(ru_[0].d['args'][0], strip(first.d['result'])) and not mentions(strip(ru_[0].d['args'][0]), strip(first.d['result'])):
            bad.append((p, first, 'the payload re-raised is not the first role panic observed by the joins'))
    ctx.ob('LC6', body, 'first-join-payload-is-re-raised', n_err >= 3 and not bad, f'paths with a failed join={n_err}; ' + '; '.join(sorted({f'{site(body, e)} {w}' for _, e, w in bad})[:2]),
           site=body.loc(body.b['lo']),
           what='a panic of a user database or precompile inside any role must reach the caller as that panic; swallowing the payload turns it into a missing commit result or a silent success')


def LC7_anchor_error_index(ctx):
    pe = ctx.method('scheduler::Scheduler<DB>', 'parallel_execute_inner')
    bodies = [pe] + [ctx.fn(c) for c in ctx.facts.closures_under(pe.name)]
    ok = False
    bad = []
    for b in bodies:
        for p in feasible(b.paths()):
            for e in p.events:
                t = e.d.get('value') if e.kind in ('ret', 'assign') else None
                if t is None:
                    continue
                for s in subterms(t):
                    if s[0] == 'agg' and s[1].endswith('GrevmError') and len(s[3]) == 2:
                        flds = s[4].split(',') if isinstance(s[4], str) and s[4] else []
                        ti = flds.index('txid') if 'txid' in flds else 0
                        if b is not pe and has_call(s[3][1 - ti] if len(s[3]) == 2 else s, '~Database') or 'Database' in show(s):
                            if strip(s[3][ti]) == ('const', '0_usize'):
                                ok = True
                            else:
                                bad.append(show(s)[:80])
    ctx.ob('LC7', pe, 'anchor-load-fault-is-reported-at-index-0', ok and not bad, '; '.join(bad[:2]), site=pe.loc(pe.b['lo']),
           what='the fee recipient is loaded before any transaction runs; a database fault there is the in-order failure of transaction 0 with an empty committed prefix')


def LC8_reonboard_and_release_sites(ctx):
    """validate(): a failed validation re-onboards the transaction; execution_task(): a claim of a transaction that is already past
    execution releases its dependants WITHOUT taking a hand-off (nobody would run it); next(): once finished or aborted is observed
    the worker stops claiming"""
    f = sched(ctx, 'validate')
    bad = []
    n = 0
    for p in feasible(f.paths()):
        st = [e for e in assigns(p, 'TxState.status') if variant_of(e.d['value']) == 'Conflict']
        if not st:
            continue
        n += 1
        adds = calls(p, ('TxDependency::add', 'TxDependency::key_tx'))
        if not adds:
            bad.append('a failed validation leaves the transaction in Conflict without tx_dependency.add(txid, ..)')
        for e in adds:
            if not is_field(strip(e.d['args'][1]), 'TxVersion.txid'):
                bad.append('the transaction re-onboarded is not the one that failed validation')
    ctx.ob('LC8', f, 'failed-validation-reonboards', n >= 1 and not bad, '; '.join(sorted(set(bad))), site=f.loc(f.b['lo']),
           what='a Conflict transaction is executed again only after the dependency table makes it claimable; validate() is one of the two ways into Conflict')
    g = sched(ctx, 'execution_task')
    bad = []
    n = 0
    for p in feasible(g.paths()):
        for e in calls(p, 'TxDependency::remove'):
            n += 1
            if e.d['args'][2] != ('const', 'false'):
                bad.append(f'remove(.., {show(e.d["args"][2])}) — a hand-off taken here is dropped')
            if e.d['args'][1] != ('arg', 2):
                bad.append('the dependants released are not those of the claimed transaction')
    ctx.ob('LC8', g, 'past-execution-claim-releases-without-handoff', n >= 1 and not bad, '; '.join(sorted(set(bad))), site=g.loc(g.b['lo']),
           what='remove(x, true) may pop the successor out of the table (onboard cleared) and return it; execution_task ignores the return value, so the popped transaction would never run')
    h = sched(ctx, 'next')
    bad = []
    n_stop = 0
    for p in [q for q in h.paths() if q.end in ('return', 'cut')]:
        for i, a in enumerate(p.events):
            if a.kind != 'atom':
                continue
            t, o = a.d['term'], a.d['outcome']
            neg = False
            while t[0] == 'un' and t[1] == 'Not':
                t, neg = t[2], not neg
            if t[0] == 'call' and (callee_matches(t[1], 'SchedulerContext::finished') or callee_matches(t[1], 'is_aborted')) and o in ('true', 'false') and ((o == 'true') != neg):
                n_stop += 1
                later = [x for x in p.events[i + 1:] if x.kind == 'call' and (is_call(x, 'SchedulerContext::next_validation_idx') or is_call(x, 'TxDependency::next') or is_call(x, 'Scheduler::execution_task'))]
                if later:
                    bad.append('next() goes on claiming after it observed the block finished or aborted')
    ctx.ob('LC8', h, 'stops-claiming-once-finished-or-aborted', n_stop >= 2 and not bad, '; '.join(sorted(set(bad))), site=h.loc(h.b['lo']),
           what='after the last transaction is final nobody produces work; a worker that keeps looping never lets thread::scope join')
    # the scope body hands back the commit thread's own result
    pe = ctx.method('scheduler::Scheduler<DB>', 'parallel_execute_inner')
    body = None
    for c in ctx.facts.closures_under(pe.name):
        cf = ctx.fn(c)
        if any(norm_callee(e.d['callee']).endswith('ScopedJoinHandle::join') for p in cf.paths(max_visits=2) for e in p.events if e.kind == 'call'):
            body = cf
            break
    if body is None:
        raise AnchorLost('thread::scope body with explicit joins')
    ok = False
    badr = []
    for p in [q for q in body.paths(max_visits=2) if q.end == 'return']:
        ret = [e for e in p.events if e.kind == 'ret'][0].d['value']
        joins = [e for e in p.events if e.kind == 'call' and norm_callee(e.d['callee']).endswith('ScopedJoinHandle::join')]
        cj = [j for j in joins if any(s[0] == 'closure' and any(has_call(('call', c_, (), ()), 'x') or True for c_ in [s[1]]) for s in subterms(j.d['args'][0]))]
        commit_join = None
        for j in joins:
            for s in subterms(j.d['args'][0]):
                if s[0] == 'closure':
                    cb = ctx.facts.by.get(s[1])
                    if cb and any(bl['term']['k'] == 'call' and norm_callee(bl['term']['callee']).endswith('Scheduler::run_commit_loop') for bl in cb['blocks']):
                        commit_join = j
        if commit_join is None:
            continue
        if mentions(ret, strip(commit_join.d['result'])) or mentions(strip(ret), strip(commit_join.d['result'])):
            ok = True
        else:
            badr.append(show(ret)[:80])
    ctx.ob('LC8', body, 'scope-returns-the-commit-threads-result', ok and not badr, '; '.join(badr[:2]), site=body.loc(body.b['lo']),
           what='the committed prefix and a commit error reach install_commit_loop_result only through the commit thread\'s join value')

"""Rules over scheduler.rs (execute_task / validate / finality / commit loop / next / execution_task).

Every rule states the necessary condition it decides (`what=`) so a report can be read on its own.
Anchors are type/field/callee identities; nothing is keyed on a line number.
"""
from ru import *

TS = 'Scheduler.tx_states'
TR = 'Scheduler.tx_results'
REWIND = 'SchedulerContext::rewind_validation_to'
MV_FIELD = 'Scheduler.mv_memory'


def membership_closure_kind(ctx, cname):
    """'contains' when the closure returns prev.write_set.contains(item) on every path, 'not-contains'
    when it returns the negation, else None"""
    cf = ctx.fn(ctx.facts.by[cname])
    kinds = set()
    for q in feasible(cf.paths()):
        r = [e for e in q.events if e.kind == 'ret'][0].d['value']
        neg = False
        while r[0] == 'un' and r[1] == 'Not':
            r, neg = r[2], not neg
        if r[0] == 'call' and callee_matches(r[1], '::contains') and len(r[2]) == 2 and mentions_field(r[2][0], 'TransactionResult.write_set') and r[2][1] == ('arg', 2):
            kinds.add('not-contains' if neg else 'contains')
        elif r[0] == 'const' and r[1] in ('true', 'false'):
            # if contains(..) { false } else { true } spelled with branches
            at = [bool_fact(a) for a in q.events if a.kind == 'atom']
            at = [b for b in at if b and b[0][0] == 'call' and callee_matches(b[0][1], '::contains') and mentions_field(b[0][2][0], 'TransactionResult.write_set') and b[0][2][1] == ('arg', 2)]
            if len(at) != 1:
                return None
            kinds.add('contains' if (r[1] == 'true') == at[0][1] else 'not-contains')
        else:
            return None
    return kinds.pop() if len(kinds) == 1 else None



def sched(ctx, m):
    return ctx.method('scheduler::Scheduler<DB>', m)


def mv_read_event(e, may):
    """an event that reads multi-version memory or beneficiary history (validation inputs)"""
    if e.kind != 'call':
        return False
    c = e.d['callee']
    if ('DashMap' in c or 'dashmap' in c) and re.search(r'::(get|get_mut|entry|iter|contains_key)$', c) \
            and e.d['args'] and mentions_field(e.d['args'][0], 'mv_memory'):
        return True
    if callee_matches(c, ('Beneficiary::validate', 'Beneficiary::resolve_before')):
        return True
    if e.d.get('local') and may.may(e, ('Beneficiary::validate', 'Beneficiary::resolve_before')):
        return True
    return False


def publication_event(e, may):
    """an event that changes what a later reader/validator of a higher txid observes"""
    if e.kind != 'call':
        return False
    c = e.d['callee']
    if callee_matches(c, ('::execute_incarnation', 'Scheduler::<DB>::mark_mv_estimate', 'Beneficiary::record_execution',
                          'Beneficiary::record_estimate', 'Beneficiary::invalidate')):
        return True
    if ('BTreeMap' in c and re.search(r'::(remove|insert)$', c)) and e.d['args'] and has_call(e.d['args'][0], ('::get_mut', '::entry')):
        return True
    if e.d.get('local') and may.may(e, ('::execute_incarnation', 'Scheduler::<DB>::mark_mv_estimate',
                                          'Beneficiary::record_execution', 'Beneficiary::record_estimate',
                                          'Beneficiary::invalidate')):
        return True
    return False


def ts_guard_index(e):
    """index terms X for which a guard on tx_states[X] is held at event e"""
    out = []
    for g in e.held:
        on = g[1]
        if g[0] == 'mutex' and on is not None and on[0] == 'call' and on[1].endswith('::index') \
                and mentions_field(on[2][0], 'tx_states'):
            out.append(strip(on[2][1]))
    return out


# ------------------------------------------------------------------------------------------------


def N1_timestamp_before_scan(ctx):
    """validate: tick before scan, and the stored timestamp is that tick"""
    f = sched(ctx, 'validate')
    may = MayCalls(ctx.facts)
    ps = feasible(f.paths())
    n_reads = 0
    bad_order, bad_arg, n_unconf = [], [], 0
    for p in ps:
        ticks = [i for i, e in enumerate(p.events) if is_call(e, 'SchedulerContext::logical_timestamp')]
        for i, e in enumerate(p.events):
            if mv_read_event(e, may):
                n_reads += 1
                if not ticks or ticks[0] > i:
                    bad_order.append((p, e))
            if is_call(e, 'SchedulerContext::unconfirmed'):
                n_unconf += 1
                a = e.d['args']
                ok = len(a) == 3 and a[2][0] == 'call' and callee_matches(a[2][1], 'SchedulerContext::logical_timestamp') \
                    and ticks and ticks[0] < i
                # must be the FIRST tick of the path (the one before the scan)
                if ok:
                    first_tick = p.events[ticks[0]].d['result']
                    ok = strip(a[2]) == strip(first_tick) and a[2] == first_tick
                if not ok:
                    bad_arg.append((p, e))
    ctx.count('N1.read-events', n_reads)
    ctx.ob('N1', f, 'anchor:read-set-scan', n_reads >= 2 and n_unconf >= 1,
           f'expected MV/beneficiary read events and an unconfirmed() call in validate; found reads={n_reads} unconfirmed={n_unconf}',
           site=f.loc(f.b['lo']))
    ctx.ob('N1', f, 'tick-before-scan', not bad_order,
           '; '.join(f'{site(f, e)} read `{short(e.d["callee"])}` not preceded by logical_timestamp()' for _, e in bad_order[:3]),
           site=site(f, bad_order[0][1]) if bad_order else f.loc(f.b['lo']),
           what='a validation whose timestamp is taken after (part of) the scan can carry a tick newer than a rewind whose writes it did not see; finality then accepts a stale validation')
    # the tick is taken while TS[txid] is held (liveness: a claimer that finds the tx Validating drops its
    # claim; that is only sound if the validator's tick is ordered after the claim, i.e. taken under the lock)
    bad_lock = []
    for p in ps:
        for e in calls(p, 'SchedulerContext::logical_timestamp'):
            held = ts_guard_index(e)
            if not any(is_field(h, 'TxVersion.txid') for h in held):
                bad_lock.append(e)
    ctx.ob('N1', f, 'tick-under-transaction-lock', not bad_lock, '; '.join(site(f, e) for e in bad_lock[:3]),
           site=site(f, bad_lock[0]) if bad_lock else f.loc(f.b['lo']),
           what='next() drops a re-issued validation claim when it finds the transaction Validating; if the owner took its timestamp before locking TS[txid], a rewind in between leaves the transaction Unconfirmed with a timestamp older than the rewind and nobody validates it again (stall)')
    ctx.ob('N1', f, 'stored-timestamp-is-the-tick', not bad_arg,
           '; '.join(f'{site(f, e)} unconfirmed(…, {show(e.d["args"][2]) if len(e.d["args"])>2 else "?"})' for _, e in bad_arg[:3]),
           site=site(f, bad_arg[0][1]) if bad_arg else f.loc(f.b['lo']),
           what='the timestamp compared by finality must be the one taken before the scan')


def N2_mark_before_rewind(ctx):
    """validate: conflict path marks estimates + invalidates history before the rewind"""
    f = sched(ctx, 'validate')
    ps = feasible(f.paths())
    n_rw = 0
    missing, order = [], []
    for p in ps:
        for i, e in enumerate(p.events):
            if not is_call(e, REWIND):
                continue
            n_rw += 1
            before = p.events[:i]
            marks = [x for x in estimate_mark_calls(ctx.facts, p) if idx_of(p, x) < i
                     and any(mentions_field(a_, 'TransactionResult.write_set') for a_ in x.d['args'])]
            inv = [x for x in before if is_call(x, 'Beneficiary::invalidate')]
            if not marks:
                missing.append((e, 'mark_mv_estimate(own write set)'))
            if not inv:
                missing.append((e, 'Beneficiary::invalidate(own version)'))
            after = p.events[i + 1:]
            late_marks = [x for x in estimate_mark_calls(ctx.facts, p) if idx_of(p, x) > i]
            for x in after:
                if is_call(x, 'Beneficiary::invalidate') or any(x is m_ for m_ in late_marks):
                    order.append((e, x))
    ctx.count('N2.rewind-sites', n_rw)
    ctx.ob('N2', f, 'anchor:rewind-in-validate', n_rw >= 1, 'no rewind_validation_to call on any path of validate', site=f.loc(f.b['lo']))
    ctx.ob('N2', f, 'marks-present-before-rewind', not missing,
           '; '.join(f'{site(f, e)} rewind without earlier {w}' for e, w in missing[:3]),
           site=site(f, missing[0][0]) if missing else f.loc(f.b['lo']),
           what='a reader validating after the rewind tick must see the failed incarnation\'s writes as estimates, otherwise it validates against an invalid incarnation and may finalise')
    # a validation that SUCCEEDS leaves its incarnation's writes and history entry alone
    spurious = []
    for p in ps:
        st = [e for e in assigns(p, 'TxState.status')]
        if st and variant_of(st[-1].d['value']) == 'Unconfirmed':
            for x in estimate_mark_calls(ctx.facts, p) + [x for x in p.events if is_call(x, 'Beneficiary::invalidate')]:
                spurious.append((p, x))
    ctx.ob('N2', f, 'no-mark-on-success', not spurious, '; '.join(f'{site(f, x)} {short(x.d["callee"])} on a path that ends Unconfirmed' for _, x in spurious[:3]),
           site=site(f, spurious[0][1]) if spurious else f.loc(f.b['lo']),
           what='estimate marks / history invalidation on a valid incarnation are never cleared again (only a re-execution overwrites them): every reader then blocks on a transaction that will not run again')
    ctx.ob('N2', f, 'no-mark-after-rewind', not order,
           '; '.join(f'{site(f, x)} {short(x.d["callee"])} after rewind at {site(f, e)}' for e, x in order[:3]),
           site=site(f, order[0][1]) if order else f.loc(f.b['lo']),
           what='marks sequenced after the rewind tick are not ordered before a validation with a newer tick')
    # status Conflict <=> rewind on the path
    bad = []
    for p in ps:
        st = [e for e in assigns(p, 'TxState.status')]
        conf = [e for e in st if variant_of(e.d['value']) == 'Conflict']
        rws = calls(p, REWIND)
        if conf and not rws:
            bad.append((p, conf[0]))
    ctx.ob('N5', f, 'conflict-implies-rewind', not bad,
           '; '.join(f'{site(f, e)} status:=Conflict without rewind_validation_to on the path' for _, e in bad[:3]),
           site=site(f, bad[0][1]) if bad else f.loc(f.b['lo']),
           what='a failed validation invalidates what higher transactions may have read; without the rewind they are never re-validated')
    # rewind argument
    badarg = []
    for p in ps:
        for e in calls(p, REWIND):
            a = e.d['args'][1]
            held = ts_guard_index(e)
            if not any(strip(a) == h or is_add1(a, h) for h in held):
                badarg.append(e)
    ctx.ob('N5', f, 'rewind-target-at-most-txid+1', not badarg,
           '; '.join(f'{site(f, e)} rewind_validation_to({show(e.d["args"][1])})' for e in badarg[:3]),
           site=site(f, badarg[0]) if badarg else f.loc(f.b['lo']),
           what='the rewind must cover every transaction above the invalidated one (index txid or txid+1)')


def N3_publish_before_rewind(ctx):
    f = sched(ctx, 'execute_task')
    may = MayCalls(ctx.facts)
    ps = feasible(f.paths())
    n_rw, n_pub = 0, 0
    order = []
    for p in ps:
        rws = [i for i, e in enumerate(p.events) if is_call(e, REWIND)]
        n_rw += len(rws)
        if not rws:
            continue
        for x in p.events[rws[0] + 1:]:
            if publication_event(x, may):
                order.append((p.events[rws[0]], x))
        n_pub += sum(1 for x in p.events[:rws[0]] if publication_event(x, may))
    sites = set(e.bb for p in ps for e in calls(p, REWIND))
    ctx.count('N3.rewind-sites', len(sites))
    ctx.ob('N3', f, 'anchor:rewind-sites', len(sites) >= 3, f'expected >=3 rewind call sites in execute_task, found {len(sites)}', site=f.loc(f.b['lo']))
    ctx.ob('N3', f, 'no-publication-after-rewind', not order,
           '; '.join(f'{site(f, x)} {short(x.d["callee"])} after rewind at {site(f, e)}' for e, x in order[:3]),
           site=site(f, order[0][1]) if order else f.loc(f.b['lo']),
           what='MV writes, stale-entry removal, history records and estimate marks must be sequenced before the rewind tick (DESIGN 2.2 step 1)')
    # execute_incarnation precedes everything else that publishes and every rewind
    bad = []
    for p in ps:
        ex = [i for i, e in enumerate(p.events) if is_call(e, '::execute_incarnation')]
        for i, e in enumerate(p.events):
            if is_call(e, REWIND) and (not ex or ex[0] > i):
                bad.append(e)
    ctx.ob('N3', f, 'attempt-precedes-rewind', not bad, '; '.join(site(f, e) for e in bad[:3]),
           site=site(f, bad[0]) if bad else f.loc(f.b['lo']),
           what='a rewind issued before the attempt published its writes lets validators pass with a newer tick without seeing them')


def exec_after_attempt(p):
    for i, e in enumerate(p.events):
        if is_call(e, '::execute_incarnation'):
            return i
    return None


def X_execute_task_tail(ctx):
    """N4/N5/L7/X1 in execute_task"""
    f = sched(ctx, 'execute_task')
    ps = feasible(f.paths())
    att = [p for p in ps if exec_after_attempt(p) is not None]
    ctx.ob('X', f, 'anchor:attempt-paths', len(att) >= 10, f'{len(att)} paths pass execute_incarnation', site=f.loc(f.b['lo']))
    # the attempt runs THIS task's version on THIS transaction
    bad_att = []
    for p in att:
        e = p.events[exec_after_attempt(p)]
        a = e.d['args']
        if not (a[1] == ('arg', 4) and a[2][0] == 'call' and a[2][1].endswith('::index') and mentions_field(a[2][2][0], 'Scheduler.txs') and is_field(strip(a[2][2][1]), 'TxVersion.txid')):
            bad_att.append(e)
    ctx.ob('X', f, 'attempt-runs-own-version-on-own-transaction', not bad_att, '; '.join(site(f, e) for e in bad_att[:2]), site=f.loc(f.b['lo']),
           what='execute_incarnation(tx_version, txs[txid])')
    # L7/X4: executed(txid) on every non-abort completion
    bad = []
    for p in att:
        i = exec_after_attempt(p)
        rest = p.events[i:]
        ab = [e for e in rest if is_call(e, 'Scheduler<DB>>::abort')]
        exd = [e for e in rest if is_call(e, 'SchedulerContext::executed')]
        st = [e for e in assigns(p, 'TxState.status')]
        if not exd and not (ab and not st):
            bad.append(p)
        for e in exd:
            held = ts_guard_index(e)
            if not any(strip(e.d['args'][1]) == h for h in held):
                bad.append(p)
    ctx.ob('L7', f, 'executed-on-every-completion', not bad,
           f'{len(bad)} path(s) complete an attempt without SchedulerContext::executed(txid): ' + (describe(bad[0]) if bad else ''),
           site=f.loc(f.b['lo']),
           what='the execution frontier gates validation claims; a completed attempt that is not published leaves every later index unvalidatable (stall)')
    # every post-attempt return without status write is an abort path (L3)
    bad = []
    for p in att:
        st = assigns(p, 'TxState.status')
        i = exec_after_attempt(p)
        ab = [e for e in p.events[i:] if is_call(e, 'Scheduler<DB>>::abort')]
        if not st and not ab:
            bad.append(p)
    ctx.ob('L3', f, 'post-attempt-exit-requires-abort', not bad,
           f'{len(bad)} path(s) return after the attempt with the status left Executing and no abort: ' + (describe(bad[0]) if bad else ''),
           site=f.loc(f.b['lo']),
           what='a transaction left in Executing is never claimed again; without abort every coordinator waits forever')
    # status after attempt is Conflict or Executed (then possibly Validating); N5 conflict => rewind
    bad5, bad4, badret = [], [], []
    n_valid_ret = 0
    for p in att:
        st = assigns(p, 'TxState.status')
        if not st:
            continue
        vals = [variant_of(e.d['value']) for e in st]
        rws = calls(p, REWIND)
        ret = [e for e in p.events if e.kind == 'ret'][0].d['value']
        returns_validation = ret[0] == 'agg' and ret[2] == 'Some' and ret[3] and ret[3][0][0] == 'agg' and ret[3][0][2] == 'Validation'
        handoff = ret[0] == 'call' and callee_matches(ret[1], 'Scheduler::<DB>::execution_task')
        if vals[0] == 'Conflict':
            ok = False
            for e in rws:
                a = e.d['args'][1]
                if any(strip(a) == h or is_add1(a, h) for h in ts_guard_index(e)):
                    ok = True
            if not ok:
                bad5.append(p)
            if returns_validation or len(vals) > 1:
                badret.append(p)
        elif vals[0] == 'Executed':
            # either rewind(txid) exactly, or direct validation task
            rw_txid = [e for e in rws if any(strip(e.d['args'][1]) == h for h in ts_guard_index(e))]
            if returns_validation:
                n_valid_ret += 1
                if vals[-1] != 'Validating':
                    badret.append(p)
                # the returned version must be (txid, incarnation) of this task
                tv = ret[3][0][3][0]
                okv = tv[0] == 'call' and callee_matches(tv[1], 'TxVersion::new') and \
                    is_field(tv[2][0], 'TxVersion.txid') and is_field(tv[2][1], 'TxVersion.incarnation')
                if tv[0] == 'agg':
                    okv = is_field(tv[3][0], 'TxVersion.txid') and is_field(tv[3][1], 'TxVersion.incarnation')
                if not okv:
                    badret.append(p)
            elif not rw_txid:
                bad4.append(p)
            if 'Validating' in vals[1:] and not returns_validation:
                badret.append(p)
        else:
            badret.append(p)
    ctx.ob('N5', f, 'conflict-implies-rewind', not bad5,
           f'{len(bad5)} path(s) set status Conflict without a rewind to txid or txid+1 under the TS guard: ' + (describe(bad5[0]) if bad5 else ''),
           site=f.loc(f.b['lo']),
           what='an execution that read an estimate (or failed) leaves estimate marks behind; higher transactions that validated earlier must be re-validated')
    ctx.ob('N4', f, 'executed-implies-rewind-or-direct-validation', not bad4,
           f'{len(bad4)} path(s) set status Executed and neither rewind to txid nor return the validation task: ' + (describe(bad4[0]) if bad4 else ''),
           site=f.loc(f.b['lo']),
           what='an executed incarnation that is never validated can never become final')
    ctx.ob('N8', f, 'status-written-after-attempt', not badret,
           f'{len(badret)} path(s) with an unexpected status sequence or returned task: ' + (describe(badret[0]) if badret else ''),
           site=f.loc(f.b['lo']),
           what='after an attempt the status is Conflict, or Executed (optionally → Validating together with the returned validation task of this very version)')
    # N4: direct validation only when no new location was written
    bad = []
    good_witness = 0
    for p in att:
        ret = [e for e in p.events if e.kind == 'ret'][0].d['value']
        returns_validation = ret[0] == 'agg' and ret[2] == 'Some' and ret[3] and ret[3][0][0] == 'agg' and ret[3][0][2] == 'Validation'
        if not returns_validation:
            continue
        if calls(p, REWIND):
            continue
        # previous result must exist
        prev = [e for e in p.events if e.kind == 'atom' and e.d['term'][0] == 'discr'
                and has_call(e.d['term'][1], '~Mutex') and mentions_field(e.d['term'][1], 'tx_results')]
        has_prev = any(e.d['outcome'] == 'Some' for e in prev)
        # contains(prev.write_set, loc-of-new-write-set) atoms
        # membership of a newly written location in the previous write set, whichever way the boolean is consumed
        class _A:
            def __init__(self, t, v):
                self.d = {'term': t, 'outcome': 'true' if v else 'false'}
        cont = []
        for e in p.events:
            bf_ = bool_fact(e)
            if bf_ and bf_[0][0] == 'call' and callee_matches(bf_[0][1], '::contains') and len(bf_[0][2]) == 2 \
                    and mentions_field(bf_[0][2][0], 'TransactionResult.write_set') and mentions_field(bf_[0][2][1], 'IncarnationAccesses.write_set'):
                cont.append(_A(bf_[0], bf_[1]))
        it_new = [e for e in p.events if e.kind == 'atom' and e.d['term'][0] == 'discr' and e.d['term'][1][0] == 'call' and e.d['term'][1][1].endswith('::next')
                  and mentions_field(e.d['term'][1], 'IncarnationAccesses.write_set') and not mentions_field(e.d['term'][1], 'TransactionResult.write_set')]
        empty_new = bool(it_new) and it_new[0].d['outcome'] == 'None'
        subset_shown = empty_new or (any(e.d['outcome'] == 'true' for e in cont) and not any(e.d['outcome'] == 'false' for e in cont))
        # the same test written with an iterator adaptor: !new.iter().any(|l| !prev.contains(l)) / new.iter().all(|l| prev.contains(l))
        for a in p.events:
            bf = bool_fact(a)
            if not bf or bf[0][0] != 'call' or len(bf[0][2]) != 2:
                continue
            nm = norm_callee(bf[0][1])
            which = 'any' if nm.endswith('Iterator::any') else 'all' if nm.endswith('Iterator::all') else None
            recv, clo = bf[0][2]
            if which is None or clo[0] != 'closure' or not mentions_field(recv, 'IncarnationAccesses.write_set') or mentions_field(recv, 'TransactionResult.write_set'):
                continue
            if not any(mentions_field(c, 'tx_results') for c in clo[2]):
                continue
            kind = membership_closure_kind(ctx, clo[1])
            if (which == 'any' and kind == 'not-contains' and bf[1] is False) or (which == 'all' and kind == 'contains' and bf[1] is True):
                subset_shown = True
                if has_prev:
                    good_witness += 1
        # the same test on whole sets: new.is_subset(&prev) / prev.is_superset(&new)
        for a in p.events:
            bf = bool_fact(a)
            if not bf or bf[0][0] != 'call' or len(bf[0][2]) != 2:
                continue
            nm = norm_callee(bf[0][1])
            x, y = bf[0][2]
            newset = lambda t: mentions_field(t, 'IncarnationAccesses.write_set') and not mentions_field(t, 'TransactionResult.write_set')
            prevset = lambda t: mentions_field(t, 'TransactionResult.write_set') and not mentions_field(t, 'IncarnationAccesses.write_set')
            if ((nm.endswith('::is_subset') and newset(x) and prevset(y)) or (nm.endswith('::is_superset') and prevset(x) and newset(y))) and bf[1] is True:
                subset_shown = True
                if has_prev:
                    good_witness += 1
        if not has_prev or not subset_shown:
            bad.append(p)
        if has_prev and any(e.d['outcome'] == 'true' for e in cont):
            good_witness += 1
    ctx.ob('N4', f, 'direct-validation-only-without-new-location', not bad,
           f'{len(bad)} path(s) return the validation task although no previous result exists or membership of every written location in the previous write set was not established (HashSet::contains per location): ' + (describe(bad[0], 20) if bad else ''),
           site=f.loc(f.b['lo']),
           what='a new write location may invalidate higher transactions that already validated (they missed a predecessor); validation must rewind to txid')
    ctx.ob('N4', f, 'anchor:new-location-test', good_witness >= 1,
           'no path returns the validation task after testing new write set ⊆ previous write set (HashSet::contains on the previous result\'s write_set)',
           site=f.loc(f.b['lo']))
    # X1 stale-write removal: for each location of the previous write set not in the new one, own entry removed.
    # "location is stale" is established either per location (`!new.contains(loc)` for a loc of the previous set) or
    # by iterating `prev.difference(&new)` (a for loop or for_each — the engine gives both the same shape)
    def stale_points(p):
        out = []
        for i, a in enumerate(p.events):
            if a.kind != 'atom':
                continue
            t = a.d['term']
            bf = bool_fact(a)
            if bf and bf[0][0] == 'call' and callee_matches(bf[0][1], '::contains') and len(bf[0][2]) == 2 \
                    and mentions_field(bf[0][2][0], 'IncarnationAccesses.write_set') and mentions_field(bf[0][2][1], 'TransactionResult.write_set') and bf[1] is False:
                out.append((i, strip(bf[0][2][1])))
            if t[0] == 'discr' and t[1][0] == 'call' and t[1][1].endswith('::next') and a.d['outcome'] == 'Some':
                d = [c for c in calls_in(t[1]) if norm_callee(c[1]).endswith('::difference') and len(c[2]) == 2
                     and mentions_field(c[2][0], 'TransactionResult.write_set') and mentions_field(c[2][1], 'IncarnationAccesses.write_set')
                     and not mentions_field(c[2][0], 'IncarnationAccesses.write_set')]
                if d:
                    out.append((i, strip(('field', ('down', t[1], 'Some'), 'std::option::Option::Some.0'))))
        return out
    rem_paths = 0
    bad_rem, bad = [], []
    for p in att:
        pts = stale_points(p)
        rem = [e for e in p.events if e.kind == 'call' and 'BTreeMap' in e.d['callee'] and e.d['callee'].endswith('::remove') and has_call(e.d['args'][0], '~DashMap')]
        for e in rem:
            i = idx_of(p, e)
            key_ok = len(e.d['args']) >= 2 and is_field(strip(e.d['args'][1]), 'TxVersion.txid')
            est = [loc for j, loc in pts if j < i and (mentions(strip(e.d['args'][0]), loc) or any(mentions(strip(e.d['args'][0]), s_) for s_ in [loc]))]
            if not est or not key_ok:
                bad_rem.append(e)
            else:
                rem_paths += 1
        for j, loc in pts:
            nxt = p.events[j + 1:j + 14]
            getm = [x for x in nxt if is_call(x, '::get_mut') and mentions_field(x.d['args'][0], 'mv_memory') and mentions(strip(x.d['args'][1]), loc)]
            if not getm:
                bad.append(p)
                continue
            k = idx_of(p, getm[0])
            somes = [x for x in p.events[k:k + 4] if option_fact(x) and option_fact(x)[1] == 'Some' and strip(option_fact(x)[0]) == strip(getm[0].d['result'])]
            if somes and not [x for x in p.events[k:k + 10] if x.kind == 'call' and x.d['callee'].endswith('::remove')]:
                bad.append(p)
    # ... and the scan happens whenever there IS a previous result: no other condition may stand between "a previous incarnation
    # published something" and "what it published is compared with the new write set"
    unscanned = []
    n_prev = 0
    for p in att:
        ok_arm = [a for a in p.events if a.kind == 'atom' and a.d['term'][0] == 'discr' and mentions_field(a.d['term'][1], 'IncarnationExecution.result') and a.d['outcome'] == 'Ok']
        if not ok_arm or p.end != 'return':
            continue
        prev = [of for of in (option_fact(a) for a in p.events if a.kind == 'atom') if of and of[1] in ('Some', 'None') and mentions_field(of[0], 'Scheduler.tx_results')]
        if not prev or prev[0][1] != 'Some':
            continue
        n_prev += 1
        scans = [e for e in p.events if e.kind == 'call' and ((e.d['callee'].endswith('::next') and e.d['args'] and mentions_field(e.d['args'][0], 'TransactionResult.write_set'))
                                                             or (norm_callee(e.d['callee']).endswith('::difference') and mentions_field(e.d['args'][0], 'TransactionResult.write_set')))]
        if not scans:
            unscanned.append(p)
    ctx.ob('X1', f, 'previous-write-set-scanned-whenever-there-is-one', n_prev >= 1 and not unscanned,
           f'success paths with a previous result={n_prev}, of which {len(unscanned)} never iterate its write set', site=f.loc(f.b['lo']),
           what='every successful re-execution walks the previous incarnation\'s write set (to retire the entries it no longer writes); skipping the walk under any further condition leaves values in MV memory that in-order execution never produced')
    ctx.count('X1.stale-removal-paths', rem_paths)
    ctx.ob('X1', f, 'stale-write-removal-present', rem_paths >= 1 and not bad_rem,
           f'removal paths={rem_paths}; ' + '; '.join(f'{site(f, e)} removal of an entry whose location was not shown to be in previous∖new write set, or key is not own txid' for e in bad_rem[:3]),
           site=f.loc(f.b['lo']),
           what='an entry of a location the new incarnation no longer writes must leave MV memory, otherwise later readers resolve to a value in-order execution never produced')
    ctx.ob('X1', f, 'stale-location-always-removed', not bad,
           f'{len(bad)} path(s) see a previously written location missing from the new write set without removing the own MV entry',
           site=f.loc(f.b['lo']), what='see stale-write-removal-present')


def X_result_storage(ctx):
    """tx_results[txid] stores; error arm carries the previous write set; re-onboarding"""
    f = sched(ctx, 'execute_task')
    ps = feasible(f.paths())
    att = [p for p in ps if exec_after_attempt(p) is not None]
    bad_store, bad_err_ws, bad_onboard, bad_release = [], [], [], []
    n_ok_store = n_err_store = 0
    for p in att:
        st = assigns(p, 'TxState.status')
        if not st:
            continue
        stores = [e for e in p.events if e.kind == 'assign' and e.d['place'][0] == 'call' and 'Mutex' in e.d['place'][1]
                  and mentions_field(e.d['place'], 'tx_results') and e.d['value'][0] == 'agg' and e.d['value'][2] == 'Some']
        if len(stores) != 1:
            bad_store.append(p)
            continue
        tr = stores[0].d['value'][3][0]
        if tr[0] != 'agg' or not tr[1].endswith('TransactionResult'):
            bad_store.append(p)
            continue
        fields = dict(zip(tr[4].split(','), tr[3]))
        er = fields.get('execute_result')
        first = variant_of(st[0].d['value'])
        if er[0] == 'agg' and er[2] == 'Ok':
            n_ok_store += 1
            if not (mentions_field(fields['read_set'], 'IncarnationAccesses.read_set') and
                    mentions_field(fields['write_set'], 'IncarnationAccesses.write_set')):
                bad_store.append(p)
        elif er[0] == 'agg' and er[2] == 'Err':
            n_err_store += 1
            # previous write set carried when a previous result exists
            prev_some = [e for e in p.events if e.kind == 'atom' and e.d['term'][0] == 'discr'
                         and mentions_field(e.d['term'][1], 'tx_results') and e.d['outcome'] == 'Some']
            ws = fields['write_set']
            if prev_some and not (has_call(ws, 'mem::take') and mentions_field(ws, 'TransactionResult.write_set')):
                bad_err_ws.append(p)
            if first != 'Conflict':
                bad_store.append(p)
        else:
            bad_store.append(p)
        # re-onboarding
        adds = calls(p, ('TxDependency::add', 'TxDependency::key_tx'))
        rems = [e for e in calls(p, 'TxDependency::remove') if e.d['args'][2] == ('const', 'true')]
        if first == 'Conflict' and not adds:
            bad_onboard.append(p)
        if first == 'Executed' and not rems:
            bad_release.append(p)
        for e in adds + rems:
            if not is_field(strip(e.d['args'][1]), 'TxVersion.txid'):
                bad_onboard.append(p)
    ctx.count('X.result-stores', n_ok_store + n_err_store)
    ctx.ob('X3', f, 'result-stored-once-with-own-access-sets', not bad_store and n_ok_store >= 1 and n_err_store >= 1,
           f'ok-stores={n_ok_store} err-stores={n_err_store} bad={len(bad_store)} ' + (describe(bad_store[0]) if bad_store else ''),
           site=f.loc(f.b['lo']),
           what='validation scans the stored read set and commit takes the stored result; both must be those of the attempt just made')
    ctx.ob('X3', f, 'error-arm-carries-previous-write-set', not bad_err_ws,
           f'{len(bad_err_ws)} error path(s) store a result whose write_set is not the previous result\'s write set',
           site=f.loc(f.b['lo']),
           what='the next successful incarnation removes stale MV entries by diffing against the stored write set; dropping it leaves entries of the failed incarnation\'s predecessor in MV memory forever')
    ctx.ob('X5', f, 'conflict-reonboards', not bad_onboard,
           f'{len(bad_onboard)} path(s) leave status Conflict without tx_dependency.add/key_tx(txid): ' + (describe(bad_onboard[0]) if bad_onboard else ''),
           site=f.loc(f.b['lo']),
           what='a Conflict transaction is only re-executed after the dependency table makes it claimable again')
    ctx.ob('X5', f, 'executed-releases-dependants', not bad_release,
           f'{len(bad_release)} path(s) leave status Executed without tx_dependency.remove(txid, true)',
           site=f.loc(f.b['lo']),
           what='transactions parked behind this one are released only by remove(); without it they are never claimed again')


def X5_claims_are_consumed(ctx):
    """an index claimed from the dependency table (onboard cleared) must reach execution_task"""
    for m, src in (('execute_task', 'TxDependency::remove'), ('next', 'TxDependency::next')):
        f = sched(ctx, m)
        bad = []
        n = 0
        for p in feasible(f.paths()):
            for a in p.events:
                if a.kind == 'atom' and a.d['term'][0] == 'discr' and a.d['term'][1][0] == 'call' \
                        and callee_matches(a.d['term'][1][1], src) and a.d['outcome'] == 'Some':
                    n += 1
                    res = a.d['term'][1]
                    i = idx_of(p, a)
                    et = [e for e in p.events[i:] if is_call(e, 'Scheduler::execution_task') and mentions(e.d['args'][1], res)]
                    if not et:
                        bad.append((p, a))
                        continue
                    ret = [e for e in p.events if e.kind == 'ret'][0].d['value']
                    # the produced task must not be dropped: returned as is, or re-wrapped after a Some test
                    if m == 'execute_task' and not mentions(ret, et[0].d['result']):
                        bad.append((p, a))
                    if m == 'next':
                        some = [x for x in p.events if x.kind == 'atom' and x.d['term'][0] == 'discr' and x.d['term'][1] == et[0].d['result'] and x.d['outcome'] == 'Some']
                        if some and not mentions(ret, et[0].d['result']):
                            bad.append((p, a))
        ctx.ob('X5', f, f'claimed-index-reaches-execution_task', n >= 1 and not bad,
               f'claims={n}; {len(bad)} path(s) drop a claimed index: ' + (describe(bad[0][0]) if bad else ''), site=f.loc(f.b['lo']),
               what='the dependency table hands an index to exactly one claimer and clears onboard; if that claimer does not turn it into an execution task nobody ever will')


def N7_rewind_under_guard(ctx):
    facts = ctx.facts
    sites = facts.callers_of(lambda c: callee_matches(c, REWIND))
    prod = [(b, bl, t) for b, bl, t in sites if not facts.is_test(b['fn'], b)]
    by_fn = collections.Counter(o for b, _, _ in prod for o in facts.owners(b['fn']))
    ctx.count('N7.rewind-call-sites', len(prod))
    ctx.ob('N7', 'scheduler', 'anchor:rewind-call-sites', len(prod) >= 4,
           f'expected >= 4 production call sites of rewind_validation_to, found {dict(by_fn)}')
    for b in {b['fn']: b for b, _, _ in prod}.values():
        if facts.is_new_fn(b['fn']):
            continue  # analysed through its callers (inlined), where the guard is visible
        f = ctx.fn(b)
        bad = []
        n = 0
        for p in live(f.paths()):
            for e in calls(p, REWIND):
                n += 1
                a = e.d['args'][1]
                held = ts_guard_index(e)
                if not any(strip(a) == h or is_add1(a, h) for h in held):
                    bad.append(e)
        ctx.ob('N7', f, 'rewind-under-issuer-TS-guard', n > 0 and not bad,
               '; '.join(f'{site(f, e)} rewind_validation_to({show(e.d["args"][1])}) with TS guards held on {[show(h) for h in ts_guard_index(e)]}' for e in bad[:3]),
               site=site(f, bad[0]) if bad else f.loc(f.b['lo']),
               what='finality reads lower[m]/lower[m+1] after locking TS[m]; a rewind by m issued outside TS[m] can be missed by a finality pass that already holds the lock (DESIGN 2.2 step 4)')


def short_name(n):
    from core import short_fn
    return short_fn(n)


def N6_finality(ctx):
    f = sched(ctx, 'lock_finality_candidate')
    ps = feasible(f.paths())
    some_paths = []
    for p in ps:
        ret = [e for e in p.events if e.kind == 'ret'][0].d['value']
        if ret[0] == 'agg' and ret[2] == 'None':
            continue
        some_paths.append((p, ret))
    ctx.ob('N6', f, 'anchor:some-path', len(some_paths) >= 1, 'lock_finality_candidate has no path that can return Some', site=f.loc(f.b['lo']))
    bad = []
    for p, ret in some_paths:
        idx = ('arg', 2)
        lower = ('arg', 3)
        n = len(p.events)
        # (a) idx < validation cursor
        a_ok = holds_rel(p, n, lambda op, l, r: op == 'Lt' and l == idx and r[0] == 'call' and callee_matches(r[1], 'SchedulerContext::validation_idx'))
        # (b) status == Unconfirmed read through a guard on tx_states[idx]
        def status_place(t):
            return t[0] == 'field' and t[2].endswith('TxState.status') and has_call(t[1], '~Mutex') and mentions_field(t[1], 'tx_states') and mentions(strip(t[1]), idx)
        eq, ne = status_facts(p, n, lambda t: status_place(strip(t)))
        b_ok = eq == {'Unconfirmed'}
        # (c) timestamp comparison and returned pair
        cond = None
        payload = None
        if ret[0] == 'call' and callee_matches(ret[1], ('::then_some', '::then')):
            c = ret[2][0]
            if c[0] == 'bin' and c[1] in ('Gt', 'Ge', 'Lt', 'Le'):
                cond = (c[1], strip(c[2]), strip(c[3]))
            payload = ret[2][1]
        elif ret[0] == 'agg' and ret[2] == 'Some':
            payload = ret[3][0]
            for e in p.events:
                if e.kind == 'atom':
                    nc = norm_cmp(e)
                    if nc and (has_call(nc[1], 'SchedulerContext::unconfirmed_timestamp') or has_call(nc[2], 'SchedulerContext::unconfirmed_timestamp')):
                        cond = nc
        c_ok = False
        m_term = None
        if cond:
            op, l, r = cond
            if op in ('Lt', 'Le'):
                op, l, r = CMP_FLIP[op], r, l
            # unconfirmed_timestamp(ctx, idx) >(=) max(lower, lower_timestamp(ctx, idx))
            if op in ('Gt', 'Ge') and l[0] == 'call' and callee_matches(l[1], 'SchedulerContext::unconfirmed_timestamp') and l[2][1] == idx \
                    and r[0] == 'call' and callee_matches(r[1], ('cmp::max', 'Ord::max')):
                margs = [strip(x) for x in r[2]]
                has_lower = lower in margs
                has_lt = any(x[0] == 'call' and callee_matches(x[1], 'SchedulerContext::lower_timestamp') and x[2][1] == idx for x in margs)
                c_ok = has_lower and has_lt
                m_term = r
        p_ok = False
        if payload is not None and payload[0] == 'agg' and len(payload[3]) == 2:
            # (a pair or a small named struct: the locked guard and the carried maximum, in either field order)
            for g, m in (payload[3], payload[3][::-1]):
                if has_call(g, '~Mutex') and mentions_field(g, 'tx_states') and m_term is not None and strip(m) == m_term:
                    p_ok = True
        if not (a_ok and b_ok and c_ok and p_ok):
            bad.append((p, dict(behind_validation_cursor=a_ok, status_unconfirmed_under_guard=b_ok,
                                timestamp_newer_than_carried_max=c_ok, returns_guard_and_max=p_ok)))
    ctx.ob('N6', f, 'finality-candidate-table', not bad,
           '; '.join(str(d) for _, d in bad[:2]), site=f.loc(f.b['lo']),
           what='Some ⇔ idx < validation cursor ∧ status = Unconfirmed (under TS[idx]) ∧ unconfirmed[idx] >(=) max(carried lower, lower[idx]); the max is returned so the caller can carry it')
    # the finality loop: carry, status write through the returned guard, publish after it
    g = sched(ctx, 'run_finality_loop')
    gps = live(g.paths())
    n_final = 0
    bad_carry, bad_pub, bad_write = [], [], []
    carry_seen = 0
    gps3 = [p for p in g.paths(max_visits=3) if p.end in ('return', 'cut')]
    for p in gps3:
        cands = [e for e in p.events if is_call(e, 'Scheduler::<DB>::lock_finality_candidate')]
        last_some = None
        last_idx = None
        for e in cands:
            if last_some is not None:
                a2 = e.d['args'][2]
                if mentions(a2, last_some.d['result']) or any(mentions(a2, s.d['result']) for s in somes_before):
                    carry_seen += 1
                    # must carry the NEWEST accepted candidate's bound (it already includes the older ones)
                    if not mentions(a2, last_some.d['result']):
                        bad_carry.append((e, a2))
                else:
                    bad_carry.append((e, a2))
                exp_idx = last_some.d['args'][1]
                if not is_add1(e.d['args'][1], exp_idx) and strip(e.d['args'][1]) != strip(last_idx if last_idx is not None else exp_idx):
                    bad_carry.append((e, e.d['args'][1]))
            some = [a for a in p.events if a.kind == 'atom' and a.d['term'][0] == 'discr' and a.d['term'][1] == e.d['result'] and a.d['outcome'] == 'Some']
            if some:
                somes_before = [last_some] if last_some is not None else []
                last_some = e
                last_idx = None
            else:
                last_idx = e.d['args'][1]
                if last_some is None:
                    somes_before = []
    for p in gps:
        for e in assigns(p, 'TxState.status'):
            if variant_of(e.d['value']) == 'Finality':
                n_final += 1
                base = e.d['place'][1]
                if not has_call(base, 'Scheduler::<DB>::lock_finality_candidate'):
                    bad_write.append(e)
                i = idx_of(p, e)
                pubs_before = [x for x in p.events[:i] if is_call(x, 'SchedulerContext::publish_finality')
                               and mentions(x.d['args'][1], [c for c in calls_in(base) if callee_matches(c[1], 'lock_finality_candidate')][0][2][1]) ] if has_call(base, 'lock_finality_candidate') else []
                pubs_after = [x for x in p.events[i:] if is_call(x, 'SchedulerContext::publish_finality')]
                if not pubs_after:
                    bad_pub.append(e)
                else:
                    cand_idx = [c for c in calls_in(base) if callee_matches(c[1], 'lock_finality_candidate')]
                    if cand_idx and not is_add1(pubs_after[0].d['args'][1], cand_idx[0][2][1]):
                        bad_pub.append(pubs_after[0])
    # publish_finality only after a Finality write on the path
    for p in gps:
        for i, x in enumerate(p.events):
            if is_call(x, 'SchedulerContext::publish_finality'):
                if not [e for e in p.events[:i] if e.kind == 'assign' and e.d['place'][0] == 'field' and e.d['place'][2].endswith('TxState.status') and variant_of(e.d['value']) == 'Finality']:
                    bad_pub.append(x)
    ctx.count('N6.finality-writes', n_final)
    ctx.ob('N6', g, 'anchor:finality-write', n_final >= 1 and carry_seen >= 1, f'finality writes={n_final} carried candidates={carry_seen}', site=g.loc(g.b['lo']))
    ctx.ob('N6', g, 'carry-lower-timestamp', not bad_carry,
           '; '.join(f'{site(g, e)} next candidate called with {show(a)}' for e, a in bad_carry[:3]),
           site=site(g, bad_carry[0][0]) if bad_carry else g.loc(g.b['lo']),
           what='a rewind by transaction i binds every k > i; if the max is not carried a later candidate is compared only with its own lower[k] and a validation older than the rewind finalises')
    ctx.ob('N6', g, 'finality-through-candidate-guard', not bad_write,
           '; '.join(site(g, e) for e in bad_write[:3]), site=site(g, bad_write[0]) if bad_write else g.loc(g.b['lo']),
           what='status := Finality must be written through the guard under which Unconfirmed + timestamps were checked')
    ctx.ob('N6', g, 'publish-after-finality-write', not bad_pub,
           '; '.join(site(g, e) for e in bad_pub[:3]), site=site(g, bad_pub[0]) if bad_pub else g.loc(g.b['lo']),
           what='the commit thread consumes i < finality cursor; the cursor may only cover transactions already marked Finality, and advances by exactly one')


def N8_status_relation(ctx):
    """all writers of TxState.status and the transition relation they implement"""
    facts = ctx.facts
    allowed = {
        ('Initial', 'Executing'), ('Conflict', 'Executing'), ('Executing', 'Conflict'), ('Executing', 'Executed'),
        ('Executed', 'Validating'), ('Unconfirmed', 'Validating'), ('Unconfirmed', 'Finality'),
        ('Validating', 'Conflict'), ('Validating', 'Unconfirmed'),
    }
    writers = set()
    for b in facts.production():
        for bl in b['blocks']:
            if bl['cleanup']:
                continue
            for st in bl['stmts']:
                pr = [x for x in st['lhs']['proj'] if x != '*']
                if pr and pr[-1].endswith('TxState.status'):
                    writers.add(b['fn'])
    expected = {'run_finality_loop', 'execute_task', 'validate', 'execution_task', 'next'}
    got = set().union(*[facts.owners(w) for w in writers] or [set()])
    ctx.count('N8.status-writers', len(writers))
    ctx.ob('N8', 'model::TxState.status', 'who-writes-status', got == expected,
           f'writers of TxState.status: {sorted(got)}; expected {sorted(expected)}',
           what='every status writer is part of the transition relation; a new writer is new behaviour and must be triaged')
    rel = set()
    rel_by = {}
    unknown = []
    for w in sorted(set().union(*[facts.owner_bodies(w0) for w0 in writers] or [set()])):
        f = ctx.fn(facts.by[w])
        for p in live(f.paths()):
            for e in assigns(p, 'TxState.status'):
                post = variant_of(e.d['value'])
                i = idx_of(p, e)
                place = strip(e.d['place'])
                eq, ne = status_facts(p, i, lambda t: strip(t) == place)
                if eq is None and has_call(place, 'lock_finality_candidate'):
                    eq = {'Unconfirmed'}  # established by the callee (N6 table)
                if eq is None:
                    unknown.append((f, e))
                    continue
                for pre in eq:
                    rel.add((pre, post))
                    for o in facts.owners(w):
                        rel_by.setdefault(o, set()).add((pre, post))
    ctx.ob('N8', 'model::TxState.status', 'pre-state-known-at-every-write', not unknown,
           '; '.join(f'{site(f, e)} status:={variant_of(e.d["value"])} with no decided pre-state' for f, e in unknown[:4]),
           what='each status write must be control-dependent on the status it replaces (read under the same guard)')
    extra = rel - allowed
    missing = allowed - rel
    ctx.ob('N8', 'model::TxState.status', 'transition-relation', not extra and not missing,
           f'extra transitions {sorted(extra)}; missing transitions {sorted(missing)}',
           what='Finality has no successor and no state is skipped: e.g. Finality→Validating would let a committed transaction be re-validated and re-executed; Executed→Finality would skip validation')


    # the same relation, function by function: each step of the protocol is taken by the function that owns it
    by_fn = {
        'execution_task': {('Initial', 'Executing'), ('Conflict', 'Executing')},
        'next': {('Executed', 'Validating'), ('Unconfirmed', 'Validating')},
        'execute_task': {('Executing', 'Conflict'), ('Executing', 'Executed'), ('Executed', 'Validating')},
        'validate': {('Validating', 'Conflict'), ('Validating', 'Unconfirmed')},
        'run_finality_loop': {('Unconfirmed', 'Finality')},
    }
    diffs = []
    for fn_, want in sorted(by_fn.items()):
        got_ = rel_by.get(fn_, set())
        if got_ != want:
            diffs.append(f'{fn_}: extra {sorted(got_ - want)} missing {sorted(want - got_)}')
    if not unknown and got == expected:
        ctx.ob('N8', 'model::TxState.status', 'transition-relation-per-function', not diffs, '; '.join(diffs),
               what='next() turns both Executed and Unconfirmed claims into validation tasks (an Executed transaction that is never validated stops finality for good), '
                    'execution_task starts only Initial/Conflict, execute_task and validate leave Executing / Validating, only the finality loop writes Finality')


def N9_incarnation(ctx):
    facts = ctx.facts
    writers = set()
    for b in facts.production():
        for bl in b['blocks']:
            if bl['cleanup']:
                continue
            for st in bl['stmts']:
                pr = [x for x in st['lhs']['proj'] if x != '*']
                if pr and pr[-1].endswith('TxState.incarnation'):
                    writers.add(b['fn'])
    got = set().union(*[facts.owners(w) for w in writers] or [set()])
    ctx.ob('N9', 'model::TxState.incarnation', 'who-writes-incarnation', got == {'execution_task'},
           f'writers: {sorted(got)}', what='the incarnation number is the version validation compares; only a new execution may change it')
    f = sched(ctx, 'execution_task')
    ps = feasible(f.paths())
    bad = []
    n_exec = 0
    for p in ps:
        ret = [e for e in p.events if e.kind == 'ret'][0].d['value']
        st = assigns(p, 'TxState.status')
        inc = assigns(p, 'TxState.incarnation')
        eq, ne = status_facts(p, len(p.events) if not st else idx_of(p, st[0]),
                              lambda t: t[0] == 'field' and t[2].endswith('TxState.status'))
        is_exec = ret[0] == 'agg' and ret[2] == 'Some' and ret[3][0][0] == 'agg' and ret[3][0][2] == 'Execution'
        if eq and eq <= {'Initial', 'Conflict'}:
            n_exec += 1
            ok = len(st) == 1 and variant_of(st[0].d['value']) == 'Executing' and len(inc) == 1 and is_exec
            if ok:
                v = inc[0].d['value']
                old = strip(inc[0].d['place'])
                ok = is_add1(v, old)
            if ok:
                tv = ret[3][0][3][0]
                # TxVersion::new(execute_id, tx.incarnation) read after the increment
                args = tv[2] if tv[0] == 'call' else tv[3]
                # the version carries the NEW incarnation (the value just written)
                ok = strip(args[0]) == ('arg', 2) and strip(args[1]) == strip(inc[0].d['value'])
            if not ok:
                bad.append(p)
        else:
            if st or inc or is_exec:
                bad.append(p)
            if eq and eq != {'Executing'} or (eq is None):
                # neither claimable nor in flight: release dependants of an already executed blocker
                if not calls(p, 'TxDependency::remove'):
                    bad.append(p)
            if eq == {'Executing'} and calls(p, 'TxDependency::remove'):
                bad.append(p)
    ctx.ob('N9', f, 'execution-claim-table', n_exec >= 2 and not bad,
           f'{len(bad)} path(s) deviate: ' + (describe(bad[0]) if bad else ''), site=f.loc(f.b['lo']),
           what='Initial|Conflict → Executing with incarnation+1 and Task::Execution(id, new incarnation); Executing → nothing (duplicate claim must not release dependants early); otherwise → tx_dependency.remove(id,false)')


def N10_commit_loop(ctx):
    f = sched(ctx, 'run_commit_loop')
    ps = feasible(f.paths())
    bad_take, bad_order, bad_pub, bad_exit, bad_ret = [], [], [], [], []
    n_take = n_commit = 0
    for p in ps:
        for i, e in enumerate(p.events):
            if is_call(e, 'Option::<T>::take') and mentions_field(e.d['args'][0], 'tx_results'):
                n_take += 1
                idxs = [c for c in calls_in(e.d['args'][0]) if c[1].endswith('::index')]
                ix = strip(idxs[0][2][1]) if idxs else None
                ok = ix is not None and holds_rel(p, i, lambda op, l, r: op == 'Lt' and l == ix and r[0] == 'call' and callee_matches(r[1], 'SchedulerContext::finality_idx'))
                # the deciding comparison must be the latest finality comparison before the take
                if not ok:
                    bad_take.append(e)
            if is_call(e, 'SchedulerContext::publish_commit'):
                n_commit += 1
                before = p.events[:i]
                cm = [x for x in before if is_call(x, 'OrderedCommitter::<\'a, DB>::commit')]
                ok = bool(cm)
                if ok:
                    res = cm[-1].d['result']
                    okd = [a for a in before if a.kind == 'atom' and a.d['term'][0] == 'discr' and mentions(a.d['term'][1], res)]
                    outs = [a.d['outcome'] for a in okd]
                    ok = 'Ok' in outs and 'Committed' in outs
                    arg = e.d['args'][1]
                    cidx = strip(cm[-1].d['args'][1])
                    ok = ok and ((has_call(arg, 'CommittedPrefixEnd::index') and mentions(arg, res)) or is_add1(arg, cidx))
                if not ok:
                    bad_pub.append(e)
                after = p.events[i + 1:]
                dc = [x for x in after if is_call(x, 'TxDependency::commit')]
                dc_before = [x for x in before if is_call(x, 'TxDependency::commit') and cm and idx_of(p, x) > idx_of(p, cm[-1])]
                if not dc or dc_before:
                    bad_order.append(e)
                elif cm and strip(dc[0].d['args'][1]) != strip(cm[-1].d['args'][1]):
                    bad_order.append(dc[0])
        # TxDependency::commit never without a publish before it (same iteration)
        for i, e in enumerate(p.events):
            if is_call(e, 'TxDependency::commit'):
                cm = [j for j, x in enumerate(p.events[:i]) if is_call(x, 'OrderedCommitter::<\'a, DB>::commit')]
                pubs = [j for j, x in enumerate(p.events[:i]) if is_call(x, 'SchedulerContext::publish_commit')]
                if not cm or not pubs or pubs[-1] < cm[-1]:
                    bad_order.append(e)
        # exits
        ret = [e for e in p.events if e.kind == 'ret'][0]
        rv = ret.d['value']
        first_out = [e for e in p.events if is_call(e, 'OrderedCommitOutput::with_capacity')]
        if not (rv[0] == 'agg' and rv[1].endswith('CommitLoopResult') and first_out and rv[3][0] == first_out[0].d['result']):
            bad_ret.append(ret)
        for e in calls(p, "OrderedCommitter::<'a, DB>::commit"):
            if not (first_out and e.d['args'][4] == first_out[0].d['result']):
                bad_ret.append(e)
            # commit(i, &txs[i], result taken from tx_results[i])
            a = e.d['args']
            ix = strip(a[1])
            ok_ix = a[2][0] == 'call' and a[2][1].endswith('::index') and mentions_field(a[2][2][0], 'Scheduler.txs') and strip(a[2][2][1]) == ix \
                and mentions_field(a[3], 'Scheduler.tx_results') and any(c[1].endswith('::index') and mentions_field(c[2][0], 'Scheduler.tx_results') and strip(c[2][1]) == ix for c in calls_in(a[3]))
            if not ok_ix:
                bad_take.append(e)
        ab = calls(p, 'Scheduler<DB>>::abort')
        if not ab:
            # must be a loop-condition exit: last decided loop condition is aborted==true or idx<block_size false
            last = [e for e in p.events if e.kind == 'atom'][-1:]
            ok = False
            if last:
                t = last[0].d['term']
                if t[0] == 'call' and callee_matches(t[1], 'is_aborted') and last[0].d['outcome'] == 'true':
                    ok = True
                n = norm_cmp(last[0])
                if n and n[0] in ('Ge', 'Le', 'Gt', 'Lt', 'Eq', 'Ne') and (mentions_field(n[2], 'block_size') or mentions_field(n[1], 'block_size')):
                    ok = True
            if not ok:
                bad_exit.append(p)
    ctx.count('N10.take-sites', n_take)
    ctx.ob('N10', f, 'anchor:take-and-publish', n_take >= 1 and n_commit >= 1, f'take={n_take} publish_commit={n_commit}', site=f.loc(f.b['lo']))
    ctx.ob('N10', f, 'take-only-below-finality', not bad_take,
           '; '.join(site(f, e) for e in bad_take[:3]), site=site(f, bad_take[0]) if bad_take else f.loc(f.b['lo']),
           what='commit may consume TR[i] only for i < finality cursor (strict); with <= it takes a result that can still be invalidated')
    ctx.ob('N10', f, 'publish-only-after-committed-outcome', not bad_pub,
           '; '.join(site(f, e) for e in bad_pub[:3]), site=site(f, bad_pub[0]) if bad_pub else f.loc(f.b['lo']),
           what='the committed cursor may advance only in the Committed arm, to the boundary returned by commit()')
    ctx.ob('V3', f, 'publish-commit-before-dependency-commit', not bad_order,
           '; '.join(site(f, e) for e in bad_order[:3]), site=site(f, bad_order[0]) if bad_order else f.loc(f.b['lo']),
           what='key_tx decides under DS[t] against the live committed cursor; releasing dependants before publishing the boundary lets an errored tx park behind a boundary that is already passed (orphan)')
    ctx.ob('L3', f, 'early-exit-requires-abort', not bad_exit,
           f'{len(bad_exit)} path(s) return from inside the loop without abort: ' + (describe(bad_exit[0]) if bad_exit else ''),
           site=f.loc(f.b['lo']),
           what='if the commit thread leaves without raising abort, workers and the finality thread keep waiting for commits that never come')
    ctx.ob('E4', f, 'all-exits-return-the-accumulated-output', not bad_ret,
           '; '.join(site(f, e) for e in bad_ret[:3]), site=f.loc(f.b['lo']),
           what='the committed prefix must survive every exit (error, fallback, abort)')
    # abort reasons per exit (S3): NeedsSequentialFallback => FallbackSequential, Err => CommitError(error) and error returned
    bad = []
    seen = set()
    for p in ps:
        cm = calls(p, 'OrderedCommitter::<\'a, DB>::commit')
        if not cm:
            continue
        res = cm[-1].d['result']
        outs = [a.d['outcome'] for a in p.events if a.kind == 'atom' and a.d['term'][0] == 'discr' and mentions(a.d['term'][1], res)]
        ab = calls(p, 'Scheduler<DB>>::abort')
        ret = [e for e in p.events if e.kind == 'ret'][0].d['value']
        if 'NeedsSequentialFallback' in outs:
            seen.add('fallback')
            if not ab or variant_of(ab[-1].d['args'][1]) != 'FallbackSequential' or calls(p, 'SchedulerContext::publish_commit')[-1:] and idx_of(p, calls(p, 'SchedulerContext::publish_commit')[-1]) > idx_of(p, cm[-1]):
                bad.append(p)
        if 'Err' in outs:
            seen.add('err')
            okr = ret[0] == 'agg' and ret[3][1][0] == 'agg' and ret[3][1][2] == 'Some' and mentions(ret[3][1], res)
            oka = ab and variant_of(ab[-1].d['args'][1]) == 'CommitError' and mentions(ab[-1].d['args'][1], res)
            if not (okr and oka):
                bad.append(p)
    ctx.ob('S3', f, 'commit-outcome-abort-reasons', seen == {'fallback', 'err'} and not bad,
           f'arms seen={sorted(seen)} bad={len(bad)} ' + (describe(bad[0]) if bad else ''), site=f.loc(f.b['lo']),
           what='NeedsSequentialFallback ⇒ abort(FallbackSequential) without publishing; Err(e) ⇒ abort(CommitError(e)) and return Some(e)')


def N12_install(ctx):
    f = sched(ctx, 'install_commit_loop_result')
    ps = feasible(f.paths())
    bad = []
    n = 0
    for p in ps:
        # *results = output.into_outcomes() exactly once, before return; return = error.map_or(Ok(committed), Err)
        ins = [e for e in p.events if e.kind == 'assign' and has_call(e.d['value'], 'OrderedCommitOutput::into_outcomes')
               and (has_call(e.d['place'], '~Mutex') or mentions_field(e.d['place'], 'Scheduler.results'))]
        ret = [e for e in p.events if e.kind == 'ret'][0].d['value']
        n += len(ins)
        if len(ins) != 1:
            bad.append(p)
            continue
        if not mentions_field(ins[0].d['value'], 'CommitLoopResult.committed'):
            bad.append(p)
        # the commit-loop error decides the return: Some(e) ⇒ Err(e); None ⇒ Ok(committed prefix end)
        ef = [of for of in (option_fact(a) for a in p.events) if of and mentions_field(of[0], 'CommitLoopResult.error')]
        if ef and ef[-1][1] == 'Some':
            if not (ret[0] == 'agg' and ret[2] == 'Err' and mentions_field(ret, 'CommitLoopResult.error')):
                bad.append(p)
        elif ef and ef[-1][1] == 'None':
            if not (ret[0] == 'agg' and ret[2] == 'Ok'):
                bad.append(p)
        elif not (mentions_field(ret, 'CommitLoopResult.error')):
            bad.append(p)
    ctx.ob('N12', f, 'outcomes-installed-once-before-error-return', n >= 1 and not bad,
           f'{len(bad)} path(s) deviate', site=f.loc(f.b['lo']),
           what='the committed outcomes must be installed even when the commit loop ended with an error (exact prefix), and the error must be propagated')


def L4_loops_observe_abort(ctx):
    """waiting loops and wait predicates observe the abort flag"""
    for m, need in (('run_finality_loop', 1), ('run_commit_loop', 1), ('next', 1)):
        f = sched(ctx, m)
        ps = live(f.paths())
        # every path that takes a loop back-edge (block visited twice) must evaluate is_aborted()
        bad = []
        n_loop = 0
        for p in ps:
            twice = [b for b in set(p.blocks) if p.blocks.count(b) >= 2]
            if not twice:
                continue
            n_loop += 1
            ab_atoms = [e for e in p.events if e.kind == 'atom' and has_call(e.d['term'], 'is_aborted')]
            if not ab_atoms:
                # inner loops bounded by a cursor are fine if the outer loop observes abort; require per path
                bad.append(p)
            # the flag must be re-read in every iteration: two decisions on the very same load mean it is cached
            terms = [e.d['term'] for e in ab_atoms]
            if len(terms) != len(set(terms)):
                bad.append(p)
        ctx.ob('L4', f, 'loop-observes-abort', n_loop >= need and not bad,
               f'looping paths={n_loop}, without is_aborted()={len(bad)}', site=f.loc(f.b['lo']),
               what='after an abort nobody produces the awaited state; a loop that does not read the flag spins or parks forever')
        if m == 'next':
            # the claim loop is also the only place a worker learns that the block is done
            badf = []
            for p in ps:
                twice = [b for b in set(p.blocks) if p.blocks.count(b) >= 2]
                if not twice:
                    continue
                fin = [e for e in p.events if e.kind == 'atom' and has_call(e.d['term'], 'SchedulerContext::finished')]
                terms = [e.d['term'] for e in fin]
                if not fin or len(terms) != len(set(terms)):
                    badf.append(p)
            ctx.ob('L4', f, 'claim-loop-observes-finished', n_loop >= need and not badf, f'looping paths={n_loop}, without a fresh finished()={len(badf)}', site=f.loc(f.b['lo']),
                   what='once every transaction is committed no claim succeeds any more; a worker that does not re-read finished() each round spins forever and the scope never joins')
    # wait predicates
    for parent in ('run_finality_loop', 'run_commit_loop'):
        pf = sched(ctx, parent)
        cl = ctx.facts.closures_of(pf.name)
        preds = []
        for c in cl:
            cf = ctx.fn(c)
            cps = feasible(cf.paths())
            # predicate closure: returns bool and is passed to wait_while
            preds.append((cf, cps))
        used = set()
        for p in live(pf.paths()):
            for e in calls(p, 'WaitSlot::wait_while'):
                for s in subterms(e.d['args'][2]):
                    if s[0] == 'closure':
                        used.add(s[1])
        ctx.ob('L4', pf, 'anchor:wait-predicate', len(used) >= 1, f'wait_while predicate closures: {sorted(used)}', site=pf.loc(pf.b['lo']))
        for cf, cps in preds:
            if cf.name not in used:
                continue
            # blocked() may return true only on paths where is_aborted() == false was decided
            bad = []
            for p in cps:
                ret = fold_bool([e for e in p.events if e.kind == 'ret'][0].d['value'])
                ab = [e for e in p.events if e.kind == 'atom' and e.d['term'][0] == 'call' and callee_matches(e.d['term'][1], 'is_aborted')]
                can_block = not (ret[0] == 'const' and ret[1] == 'false')
                if can_block and not any(a.d['outcome'] == 'false' for a in ab):
                    bad.append(p)
            ctx.ob('L4', cf, 'wait-predicate-observes-abort', not bad, f'{len(bad)} path(s) can report blocked without reading the abort flag',
                   site=cf.loc(cf.b['lo']),
                   what='cancel() wakes the waiter; if the predicate ignores the flag the waiter parks again (8 s stall timer, forever under a persistent condition)')


def L8_worker_loop(ctx):
    """run_worker keeps asking for work; next() gives up only when the block is finished or aborted"""
    f = sched(ctx, 'run_worker')
    bad = []
    n = 0
    for p in feasible(f.paths(max_visits=5)):
        ev = p.events
        for i, e in enumerate(ev):
            if e.kind == 'call' and (is_call(e, 'Scheduler::execute_task') or is_call(e, 'Scheduler::validate')):
                n += 1
                res = e.d['result']
                isn = [a for a in ev[i:] if a.kind == 'atom' and mentions(a.d['term'], res) and (a.d['outcome'] in ('true', 'false', 'None', 'Some'))]
                if not isn:
                    bad.append((p, 'task result not inspected'))
                    continue
                a0 = isn[0]
                none = (a0.d['outcome'] == 'true' and 'is_none' in show(a0.d['term'])) or a0.d['outcome'] == 'None'
                if none:
                    ab = [a for a in ev[idx_of(p, a0):] if a.kind == 'atom' and a.d['term'][0] == 'call' and callee_matches(a.d['term'][1], 'is_aborted')]
                    nx = [x for x in ev[idx_of(p, a0):] if is_call(x, 'Scheduler::next')]
                    if ab and ab[0].d['outcome'] == 'false' and not nx:
                        bad.append((p, 'no next() after a task that produced no follow-up although the run is not aborted'))
                    if not ab and not nx:
                        bad.append((p, 'worker leaves the loop without consulting next() or the abort flag'))
        # dispatch: Execution -> execute_task, Validation -> validate
        for a in ev:
            if a.kind == 'atom' and a.d['term'][0] == 'discr' and a.d['outcome'] in ('Execution', 'Validation'):
                i = idx_of(p, a)
                nxt = [x for x in ev[i:i + 4] if x.kind == 'call' and (is_call(x, 'Scheduler::execute_task') or is_call(x, 'Scheduler::validate'))]
                want = 'execute_task' if a.d['outcome'] == 'Execution' else 'validate'
                if not nxt or not norm_callee(nxt[0].d['callee']).endswith(want):
                    bad.append((p, f'{a.d["outcome"]} task not dispatched to {want}'))
    ctx.ob('L8', f, 'worker-keeps-claiming-until-done', n >= 2 and not bad, '; '.join(sorted(set(w for _, w in bad))[:3]), site=f.loc(f.b['lo']),
           what='a worker that stops asking for work while the block is neither finished nor aborted strands the remaining transactions (with one worker: immediately)')
    g = sched(ctx, 'next')
    bad = []
    n_none = 0
    for p in feasible(g.paths()):
        ret = [e for e in p.events if e.kind == 'ret'][0].d['value']
        if ret[0] == 'agg' and ret[2] == 'None':
            n_none += 1
            last = [a for a in p.events if a.kind == 'atom' and a.d['term'][0] in ('call', 'un')][-2:]
            ok = False
            for a in last:
                t = a.d['term']
                neg = False
                while t[0] == 'un' and t[1] == 'Not':
                    t = t[2]
                    neg = not neg
                if t[0] == 'call' and (callee_matches(t[1], 'SchedulerContext::finished') or callee_matches(t[1], 'is_aborted')):
                    if (a.d['outcome'] == 'true') != neg:
                        ok = True
            if not ok:
                bad.append(p)
    ctx.ob('L8', g, 'next-gives-up-only-when-finished-or-aborted', n_none >= 1 and not bad, f'{len(bad)} path(s) return None while neither finished() nor is_aborted() was observed true: ' + (describe(bad[0], 6) if bad else ''), site=g.loc(g.b['lo']),
           what='next() returning None ends the worker; it may do so only when every transaction is final or the run was aborted')
    # validation claim in next(): version = (claimed index, incarnation read under the lock)
    bad = []
    n = 0
    for p in feasible(g.paths()):
        ret = [e for e in p.events if e.kind == 'ret'][0].d['value']
        if ret[0] == 'agg' and ret[2] == 'Some' and ret[3][0][0] == 'agg' and ret[3][0][2] == 'Validation':
            n += 1
            tv = ret[3][0][3][0]
            args = tv[2] if tv[0] == 'call' else tv[3]
            cl = [e for e in p.events if is_call(e, 'SchedulerContext::next_validation_idx')]
            ok = cl and mentions(args[0], cl[-1].d['result']) and is_field(strip(args[1]), 'TxState.incarnation') and mentions(args[1], cl[-1].d['result'])
            if not ok:
                bad.append(p)
    ctx.ob('L8', g, 'validation-claim-carries-locked-incarnation', n >= 1 and not bad, f'{len(bad)} deviating path(s)', site=g.loc(g.b['lo']),
           what='a validation task names the claimed index and the incarnation read under TS[index]; validate() refuses a mismatch as an inconsistency')


def X7_conflict_flag(ctx):
    """execute_task success arm: Conflict ⇔ the attempt met a blocker (is_blocked of ITS accesses)"""
    f = sched(ctx, 'execute_task')
    bad = []
    n = 0
    for p in feasible(f.paths()):
        att = [e for e in p.events if is_call(e, '::execute_incarnation')]
        if not att:
            continue
        res = att[0].d['result']
        arm = [a for a in p.events if a.kind == 'atom' and a.d['term'][0] == 'discr' and mentions(a.d['term'][1], res) and mentions_field(a.d['term'][1], 'IncarnationExecution.result')]
        st = assigns(p, 'TxState.status')
        if not arm or arm[0].d['outcome'] != 'Ok' or not st:
            continue
        n += 1
        bl = [a for a in p.events if a.kind == 'atom' and a.d['term'][0] == 'call' and a.d['term'][1].endswith('IncarnationAccesses::is_blocked') and mentions(a.d['term'], res)]
        if not bl:
            bad.append(p)
            continue
        blocked = bl[0].d['outcome'] == 'true'
        if (variant_of(st[0].d['value']) == 'Conflict') != blocked:
            bad.append(p)
        adds = calls(p, 'TxDependency::add')
        if blocked and not (adds and (has_call(adds[0].d['args'][2], 'Scheduler::latest_unfinalized_blocker') or mentions_field(adds[0].d['args'][2], 'IncarnationAccesses.blocking_txs'))
                            and mentions(adds[0].d['args'][2], res)):
            bad.append(p)
    ctx.ob('X7', f, 'conflict-iff-attempt-was-blocked', n >= 4 and not bad, f'{len(bad)} deviating path(s): ' + (describe(bad[0], 8) if bad else ''), site=f.loc(f.b['lo']),
           what='a successful attempt that read an estimate published estimate writes and must be re-executed (Conflict, parked behind its latest unfinalised blocker); an unblocked one is Executed')
    pe = sched(ctx, 'parallel_execute_inner')
    okp = False
    for p in feasible(pe.paths()):
        ins = [e for e in p.events if is_call(e, 'Scheduler::install_commit_loop_result')]
        po = [e for e in p.events if e.kind == 'call' and norm_callee(e.d['callee']).endswith('::post_execute')]
        if ins and po and mentions(po[0].d['args'][1], ins[0].d['result']) and idx_of(p, ins[0]) < idx_of(p, po[0]):
            okp = True
    ctx.ob('N12', pe, 'post-execute-gets-the-installed-boundary', okp, '', site=pe.loc(pe.b['lo']),
           what='recovery/replay starts from the boundary whose outcomes were just installed')

"""Rules over incarnation_db.rs and the validate() scan: read resolution, read-set completeness,
version recording, publication of writes (C01, C07-B6, C08, C09)."""
import os
from ru import *

IDB = "incarnation_db::IncarnationDb<'a, DB>"


def idb_fn(ctx, name):
    hits = [b for b in ctx.facts.production() if b['kind'] in ('assoc', 'fn') and b['fn'].endswith('::' + name) and 'incarnation_db::IncarnationDb' in b['fn']]
    if len(hits) != 1:
        raise AnchorLost(f'IncarnationDb::{name} resolves to {len(hits)} bodies')
    return ctx.fn(hits[0])


def is_mv_get(e):
    return e.kind == 'call' and re.search(r'DashMap(::<[^>]*>)?::get$', e.d['callee']) is not None and e.d['args'] and mentions_field(e.d['args'][0], 'mv_memory') \
        or (e.kind == 'call' and norm_callee(e.d['callee']).endswith('DashMap::get') and e.d['args'] and mentions_field(e.d['args'][0], 'mv_memory'))


def own_txid(t):
    """term is the reader's own txid"""
    t = strip(t)
    return (t[0] == 'field' and t[2].endswith('TxVersion.txid') and (mentions_field(t[1], 'IncarnationDb.version') or t[1] == ('arg', 3))) \
        or (t[0] == 'field' and t[2].endswith('TxVersion.txid'))


def R3_latest_preceding_writer(ctx):
    """every BTreeMap::range over an MV entry is `..own_txid` consumed by next_back"""
    facts = ctx.facts
    sites = [(b, bl, t) for b, bl, t in facts.callers_of(lambda c: norm_callee(c).endswith('BTreeMap::range')) if not facts.is_test(b['fn'], b)]
    ctx.count('R3.range-sites', len(sites))
    # (the anchor is on WHO resolves reads this way, not on how many call sites spell it: a shared lookup helper is one site)
    owners_ = set().union(*[facts.owners(b['fn']) for b, _, _ in sites] or [set()])
    need_ = {'basic', 'code_by_address', 'storage', 'validate'}
    ctx.ob('R3', 'mv_memory', 'anchor:range-sites', need_ <= owners_, f'{len(sites)} BTreeMap::range site(s), reached from {sorted(owners_)} (confirmed by reading: basic, code_by_address, storage x2, validate)')
    # a helper extracted after the pinned commit is analysed through the functions that call it
    # (its events appear in their paths with the caller's arguments substituted)
    for fnname in sorted(set().union(*[facts.owner_bodies(b['fn']) for b, _, _ in sites])):
        f = ctx.fn(facts.by[fnname])
        bad = []
        n = 0
        for p in live(f.paths()):
            for i, e in enumerate(p.events):
                if e.kind == 'call' and norm_callee(e.d['callee']).endswith('BTreeMap::range'):
                    n += 1
                    recv, rng = e.d['args'][0], e.d['args'][1]
                    if not (has_call(recv, '~DashMap') and mentions_field(recv, 'mv_memory')):
                        continue
                    ok = rng[0] == 'agg' and rng[1].endswith('ops::RangeTo') and len(rng[3]) == 1 and own_txid(rng[3][0])
                    why = '' if ok else f'range argument is {show(rng)} (expected `..own txid`, exclusive)'
                    # consumer
                    cons = [x for x in p.events[i + 1:i + 4] if x.kind == 'call' and x.d['args'] and x.d['args'][0] == e.d['result']]
                    okc = cons and (cons[0].d['callee'].endswith('::next_back') or cons[0].d['callee'].endswith('::last'))
                    if not okc:
                        why += f' consumer is {short(cons[0].d["callee"]) if cons else "?"} (expected next_back)'
                    if not (ok and okc):
                        bad.append((e, why))
        ctx.ob('R3', f, 'range-to-own-txid-newest-first', n >= 1 and not bad,
               '; '.join(f'{site(f, e)} {w}' for e, w in bad[:3]), site=site(f, bad[0][0]) if bad else f.loc(f.b['lo']),
               what='a read must resolve to the LATEST writer STRICTLY before the reader: `..=txid` reads its own previous incarnation, `next()` takes the oldest writer')


def entry_of(t):
    """the next_back(range(..)) call term inside t, if any"""
    for c in calls_in(t):
        if c[1].endswith('::next_back') or c[1].endswith('::last'):
            return c
    return None


def R1_R4_reads(ctx):
    """read-set completeness and recorded version = resolved version in the IncarnationDb readers"""
    for name, locs_needed in (('basic', ['Basic']), ('code_by_address', ['Code']), ('storage', ['StorageReset', 'Storage'])):
        f = idb_fn(ctx, name)
        bad1, bad4 = [], []
        n_ok = 0
        for p in feasible(f.paths()):
            ret = [e for e in p.events if e.kind == 'ret'][0].d['value']
            is_ok = (ret[0] == 'agg' and ret[2] == 'Ok') or (ret[0] == 'call' and not callee_matches(ret[1], '::from_residual') and name == 'storage')
            if not is_ok:
                continue
            n_ok += 1
            gets = [e for e in p.events if is_mv_get(e)]
            ins = [e for e in p.events if e.kind == 'call' and norm_callee(e.d['callee']).endswith('::insert') and mentions_field(e.d['args'][0], 'IncarnationDb.read_set')]
            if name == 'basic':
                # beneficiary branch handled by B6
                ben = [a for a in p.events if a.kind == 'atom' and a.d['term'][0] == 'call' and callee_matches(a.d['term'][1], 'Beneficiary::matches')]
                if ben and ben[0].d['outcome'] == 'true':
                    continue
            got_variants = []
            for g in gets:
                loc = g.d['args'][1]
                lv = variant_of(loc)
                got_variants.append(lv)
                mine = [x for x in ins if strip(x.d['args'][1]) == strip(loc) and idx_of(p, x) > idx_of(p, g)]
                if not mine:
                    bad1.append((g, f'no read_set.insert({lv}) after the lookup'))
                    continue
                ver = mine[-1].d['args'][2]
                # which entry did this lookup take?
                i = idx_of(p, g)
                taken = None
                for a in p.events[i:]:
                    of_ = option_fact(a)
                    if of_ and of_[1] == 'Some' and a.d['term'][0] != 'discr' or (of_ and of_[1] == 'Some' and a.d['term'][0] == 'discr' and a.d['term'][1][0] == 'call' and '::branch' in a.d['term'][1][1]):
                        # the same "an entry was found" decision taken through `?` / is_some / let-else
                        en = entry_of(of_[0])
                        if en is not None and mentions(en, g.d['result']) and strip(of_[0]) == strip(en):
                            taken = en
                    if a.kind == 'atom' and a.d['term'][0] == 'discr':
                        en = entry_of(a.d['term'][1])
                        if en is not None and mentions(en, g.d['result']):
                            if a.d['term'][1][0] == 'call' and a.d['outcome'] == 'Some':
                                taken = en
                            # data variant test
                            if a.d['term'][1][0] == 'field' and a.d['term'][1][2].endswith('MemoryEntry.data'):
                                if a.d['outcome'].startswith('!') or a.d['outcome'] != {'Basic': 'Basic', 'Code': 'Code', 'StorageReset': 'StorageReset', 'Storage': 'Storage'}.get(lv):
                                    taken = None
                    if a is mine[-1]:
                        break
                if taken is not None:
                    okv = ver[0] == 'agg' and ver[2] == 'MvMemory'
                    if okv:
                        tv = ver[3][0]
                        args = tv[2] if tv[0] == 'call' else tv[3]
                        okv = len(args) == 2 and mentions(args[0], taken) and mentions(args[1], taken) and mentions_field(args[1], 'MemoryEntry.incarnation') \
                            and not mentions_field(args[0], 'MemoryEntry.incarnation')
                    if not okv:
                        bad4.append((mine[-1], f'{lv}: an MV entry was taken but the recorded version is {show(ver)[:120]}'))
                else:
                    if not (ver[0] == 'agg' and ver[2] == 'Storage'):
                        bad4.append((mine[-1], f'{lv}: no MV entry was taken but the recorded version is {show(ver)[:120]}'))
            for need in locs_needed:
                if need not in got_variants and gets is not None:
                    if name == 'basic' and not gets:
                        bad1.append((p.events[-1], 'Ok path without an MV lookup of Basic'))
                    elif name != 'basic':
                        bad1.append((p.events[-1], f'Ok path without an MV lookup of {need}'))
        ctx.count(f'R1.{name}.ok-paths', n_ok)
        ctx.ob('R1', f, 'every-lookup-enters-the-read-set', n_ok >= 1 and not bad1,
               '; '.join(f'{site(f, e)} {w}' for e, w in bad1[:3]), site=site(f, bad1[0][0]) if bad1 else f.loc(f.b['lo']),
               what='validation only re-checks what the read set names; a read that is not recorded can change under the transaction without ever invalidating it')
        ctx.ob('R4', f, 'recorded-version-is-the-resolved-entry', not bad4,
               '; '.join(f'{site(f, e)} {w}' for e, w in bad4[:3]), site=site(f, bad4[0][0]) if bad4 else f.loc(f.b['lo']),
               what='the version stored in the read set must be (writer txid, incarnation) of the very entry whose value was used, or Storage when the backing store was used')
    # value used comes from the same entry (basic/code/storage)
    f = idb_fn(ctx, 'basic')
    bad = []
    for p in feasible(f.paths()):
        ret = [e for e in p.events if e.kind == 'ret'][0].d['value']
        if not (ret[0] == 'agg' and ret[2] == 'Ok'):
            continue
        ins = [e for e in p.events if e.kind == 'call' and norm_callee(e.d['callee']).endswith('::insert') and mentions_field(e.d['args'][0], 'IncarnationDb.read_set')]
        if not ins:
            continue
        ver = ins[-1].d['args'][2]
        val = ret[3][0]
        if ver[0] == 'agg' and ver[2] == 'MvMemory':
            en = entry_of(ver)
            if en is None or not mentions(val, en):
                bad.append(p)
        elif ver[0] == 'agg' and ver[2] == 'Storage':
            if not has_call(val, 'DatabaseRef::basic_ref'):
                bad.append(p)
    ctx.ob('R4', f, 'returned-account-comes-from-the-recorded-source', not bad, f'{len(bad)} deviating path(s)', site=f.loc(f.b['lo']),
           what='the account handed to the EVM must be the value of the recorded MV entry, or the backing store value when Storage was recorded')


def R6_blockers_are_estimates(ctx):
    """a reader registers a multi-version writer as a blocker only when that writer's entry IS an estimate"""
    n = 0
    bad = []
    for name in ('basic', 'code_by_address', 'storage'):
        f = idb_fn(ctx, name)
        for p in feasible(f.paths()):
            for i, e in enumerate(p.events):
                if not (e.kind == 'call' and norm_callee(e.d['callee']).endswith('HashSet::insert') and e.d['args'] and mentions_field(e.d['args'][0], 'blocking_txs')):
                    continue
                en = entry_of(e.d['args'][1])
                if en is None:
                    continue    # a blocker that is not a multi-version entry (the beneficiary history names its own): B6
                n += 1
                est = [a for a in p.events[:i] if a.kind == 'atom' and bool_fact(a) and is_field(strip(bool_fact(a)[0]), 'MemoryEntry.estimate') and mentions(bool_fact(a)[0], en)]
                if not est or est[-1] is None or bool_fact(est[-1])[1] is not True:
                    bad.append((f, e))
    ctx.count('R6.blocker-registrations', n)
    ctx.ob('R6', 'incarnation_db::IncarnationDb', 'blocker-only-when-entry-is-an-estimate', n >= 4 and not bad,
           '; '.join(site(f, e) for f, e in bad[:3]) + f' registrations seen on paths={n}',
           what='blocking_txs.insert(writer) only on a path where that entry\'s estimate flag was read true: an incarnation that reports a blocker is published as an estimate and parked; '
                'registering every writer parks every dependent transaction behind writers that will never run again')


def D3_storage_table(ctx):
    f = idb_fn(ctx, 'storage')
    bad = []
    seen = set()
    for p in feasible(f.paths()):
        ret = [e for e in p.events if e.kind == 'ret'][0].d['value']
        gets = [e for e in p.events if is_mv_get(e)]
        taken = {}
        for g in gets:
            lv = variant_of(g.d['args'][1])
            i = idx_of(p, g)
            t = None
            for a in p.events[i:]:
                if a.kind == 'atom' and a.d['term'][0] == 'discr':
                    en = entry_of(a.d['term'][1])
                    if en is not None and mentions(en, g.d['result']):
                        if a.d['term'][1][0] == 'call':
                            t = en if a.d['outcome'] == 'Some' else None
                        elif a.d['term'][1][2].endswith('MemoryEntry.data') and a.d['outcome'] != lv:
                            t = None
                if a.kind == 'call' and norm_callee(a.d['callee']).endswith('::insert') and mentions_field(a.d['args'][0], 'read_set') and strip(a.d['args'][1]) == strip(g.d['args'][1]):
                    break
            taken[lv] = t
            # the same fact read off what the lookup RECORDED (R4 ties the recorded version to the entry that was used): an
            # MvMemory read version built from the entry's txid means the entry was taken. This spelling survives the lookup
            # being moved into a generic helper driven through `?`.
            rec = [a for a in p.events[i:] if a.kind == 'call' and norm_callee(a.d['callee']).endswith('::insert') and mentions_field(a.d['args'][0], 'read_set')
                   and strip(a.d['args'][1]) == strip(g.d['args'][1])]
            if rec:
                t2 = entry_of(rec[0].d['args'][2]) if variant_of(rec[0].d['args'][2]) == 'MvMemory' and mentions(rec[0].d['args'][2], g.d['result']) else None
                if t is None and t2 is not None:
                    taken[lv] = t2
        if set(taken) != {'StorageReset', 'Storage'}:
            if ret[0] == 'agg' and ret[2] == 'Ok' or ret[0] == 'call' and callee_matches(ret[1], 'storage_ref'):
                bad.append((p, f'lookups {sorted(taken)}'))
            continue
        slot, reset = taken['Storage'], taken['StorageReset']
        # order atom: is_none_or(reset_txid, |r| slot_txid >= r)
        order = None
        direct_rel = None
        direct_rels = []
        for a in p.events:
            if a.kind == 'atom' and a.d['term'][0] == 'call' and callee_matches(a.d['term'][1], ('::is_none_or', '::map_or', '::is_some_and')):
                order = a
                direct_rel = None
                direct_rels = []
            if a.kind == 'atom':
                n = norm_cmp(a)
                if n and slot is not None and reset is not None:
                    ss, rs = strip(slot), strip(reset)
                    rel = None
                    if mentions(n[1], ss) and mentions(n[2], rs) and not mentions(n[1], rs) and not mentions(n[2], ss):
                        rel = n[0]
                    elif mentions(n[1], rs) and mentions(n[2], ss) and not mentions(n[1], ss) and not mentions(n[2], rs):
                        rel = CMP_FLIP[n[0]]
                    if rel is not None:
                        # the relation that HOLDS between slot txid and reset txid on this path
                        order = a
                        direct_rels.append(rel)
                        direct_rel = '&'.join(direct_rels)
        kind = None
        if ret[0] == 'agg' and ret[2] == 'Ok':
            v = ret[3][0]
            if slot is not None and mentions(v, slot) and mentions_field(v, 'MemoryEntry.data'):
                kind = 'slot'
            elif v[0] == 'const' and 'ZERO' in v[1]:
                kind = 'zero'
        elif ret[0] == 'call' and callee_matches(ret[1], '::storage_ref'):
            kind = 'backing'
        key = (slot is not None, reset is not None, (direct_rel or order.d['outcome']) if order is not None else None, kind)
        seen.add(key)
        if slot is not None and reset is None:
            ok = kind == 'slot'
        elif slot is not None and reset is not None:
            if order is None:
                ok = False
            elif direct_rel is not None:
                # an explicit comparison of the two writer ids: only `>=` / its negation `<` decide
                implies_ge = any(r in ('Ge', 'Gt', 'Eq') for r in direct_rels)
                implies_lt = 'Lt' in direct_rels or ('Le' in direct_rels and 'Ne' in direct_rels)
                ok = (kind == 'slot' and implies_ge) or (kind == 'zero' and implies_lt)
            else:
                newer = order.d['outcome'] == 'true'
                ok = kind == ('slot' if newer else 'zero')
                # the order closure must be slot_txid >= reset_txid
                cl = [s for s in subterms(order.d['term']) if s[0] == 'closure']
                if cl:
                    cf = ctx.fn(ctx.facts.by[cl[0][1]])
                    rets = [[e for e in q.events if e.kind == 'ret'][0].d['value'] for q in feasible(cf.paths())]
                    okc = len(rets) == 1 and rets[0][0] == 'bin' and rets[0][1] in ('Ge', 'Le')
                    if okc:
                        op, l, r = rets[0][1], rets[0][2], rets[0][3]
                        # Ge(upvar slot, arg reset)  or Le(arg reset, upvar slot)
                        okc = (op == 'Ge' and l[0] == 'upvar' and r == ('arg', 2)) or (op == 'Le' and r[0] == 'upvar' and l == ('arg', 2))
                        okc = okc and mentions(cl[0][2][0], slot) and order.d['term'][2][0][0] != 'closure' and mentions(order.d['term'][2][0], reset)
                    ok = ok and okc
        elif slot is None and reset is not None:
            ok = kind == 'zero'
        else:
            ok = kind == 'backing'
        if not ok:
            bad.append((p, f'slot={slot is not None} reset={reset is not None} order={order.d["outcome"] if order is not None else None} returns {kind}'))
    ctx.ob('D3', f, 'storage-resolution-table', len(seen) >= 5 and not bad, '; '.join(w for _, w in bad[:4]) + f' rows seen={len(seen)}', site=f.loc(f.b['lo']),
           what='slot written at/after the newest reset (or no reset) ⇒ that value; otherwise a reset ⇒ zero (the backing store is masked); otherwise backing store. `>` instead of `>=` loses storage written by the creating transaction itself')


def pv_roles(ctx, pv):
    """the parameters of publish_value by what they ARE (their types), not by position: the location, the value, the estimate flag and
    the write set may be passed one by one or bundled in a private context struct handed over by reference"""
    tys = [l['ty'] for l in pv.b['locals'][:pv.b['argc'] + 1]]

    def classify(ty):
        if 'HashSet<' in ty and 'LocationAndType' in ty:
            return 'ws'
        if ty.endswith('model::LocationAndType'):
            return 'loc'
        if ty.endswith('model::MemoryValue'):
            return 'val'
        if ty == 'bool':
            return 'est'
        return None

    def role(t):
        x = strip(t)
        if x[0] == 'arg' and x[1] < len(tys):
            return classify(tys[x[1]])
        if x[0] == 'field' and strip(x[1])[0] == 'arg':
            st, _, fld = x[2].rpartition('.')
            for k, fs in ctx.facts.structs.items():
                if k.endswith('::' + st) or k == st:
                    for fd in fs:
                        if fd['name'] == fld:
                            return classify(fd['ty'])
        return None
    return role


def W1_mv_mutators(ctx):
    facts = ctx.facts
    muts = collections.defaultdict(set)
    for b in facts.production():
        f = None
        for bl in b['blocks']:
            if bl['cleanup']:
                continue
            t = bl['term']
            if t['k'] == 'call' and re.search(r'DashMap(::<[^>]*>)?::(entry|get_mut|insert|remove|alter|alter_all|clear|retain|remove_if|iter_mut)$', t['callee']):
                f = f or facts.fn(b)
                for p in f.paths(budget=20000):
                    for e in p.events:
                        if e.kind == 'call' and e.bb == bl['bb'] and e.d['args'] and (mentions_field(e.d['args'][0], 'mv_memory') or
                                                                                      (strip(e.d['args'][0]) == ('arg', 1) and 'model::MemoryEntry' in b['fn'] and ' as ' in b['fn'])):
                            [muts[o].add(norm_callee(t['callee']).split('::')[-1]) for o in facts.owners(b['fn'])]
                            break
    expected = {'publish_value': {'entry'}, 'execute_task': {'get_mut'}, 'mark_mv_estimate': {'get_mut'}}
    # the estimate marker may have been moved (a private trait method, a helper): its mutation is then attributed to the two
    # functions that are allowed to mark — execute_task and validate
    moved = dict(muts)
    if 'mark_mv_estimate' not in moved and moved.get('validate') == {'get_mut'} and moved.get('execute_task') == {'get_mut'}:
        moved.pop('validate')
        moved['mark_mv_estimate'] = {'get_mut'}
    ctx.ob('W1', 'model::MVMemory', 'who-mutates-mv-memory', dict(muts) == expected or moved == expected, f'{ {k: sorted(v) for k, v in muts.items()} }',
           what='MV memory has three mutators: publish (insert own version), stale-entry removal, estimate marking')
    pv = idb_fn(ctx, 'publish_value')
    role = pv_roles(ctx, pv)
    bad = []
    for p in feasible(pv.paths()):
        ws = [e for e in p.events if e.kind == 'call' and norm_callee(e.d['callee']).endswith('HashSet::insert') and role(e.d['args'][0]) == 'ws']
        ins = [e for e in p.events if e.kind == 'call' and norm_callee(e.d['callee']).endswith('BTreeMap::insert')]
        ok = len(ws) == 1 and len(ins) == 1 and role(ws[0].d['args'][1]) == 'loc'
        if ok:
            key, ent = ins[0].d['args'][1], ins[0].d['args'][2]
            ok = is_field(strip(key), 'TxVersion.txid') and mentions_field(key, 'IncarnationDb.version')
            a = ent[2] if ent[0] == 'call' else ent[3]
            ok = ok and len(a) == 3 and is_field(strip(a[0]), 'TxVersion.incarnation') and role(a[1]) == 'val' and role(a[2]) == 'est'
            ok = ok and any(role(x) == 'loc' for x in subterms(ins[0].d['args'][0])) and mentions_field(ins[0].d['args'][0], 'mv_memory')
        if not ok:
            bad.append(p)
    ctx.ob('W1', pv, 'publish-own-version-and-record-location', not bad, f'{len(bad)} deviating path(s)', site=pv.loc(pv.b['lo']),
           what='a published value is keyed by the writer\'s own txid, carries its incarnation and estimate flag, and its location enters the write set (marking/removal iterate the write set)')
    try:
        mm = ctx.method('scheduler::Scheduler<DB>', 'mark_mv_estimate')
    except AnchorLost:
        # moved out of Scheduler (e.g. into a private trait on the map type): the one new function that sets `estimate`
        cands = [b for b in facts.production() if facts.is_new_fn(b['fn']) and body_writes_field(b, 'MemoryEntry.estimate')]
        if len(cands) != 1:
            raise
        mm = ctx.fn(cands[0])
    n = 0
    bad = []
    key_arg = ('arg', 2)
    for p in feasible(mm.paths()):
        for e in p.events:
            if e.kind == 'assign' and e.d['place'][0] == 'field' and e.d['place'][2].endswith('MemoryEntry.estimate'):
                n += 1
                base = e.d['place'][1]
                ok = e.d['value'] == ('const', 'true') and has_call(base, 'BTreeMap::get_mut') and \
                    [c for c in calls_in(base) if norm_callee(c[1]).endswith('BTreeMap::get_mut')][0][2][1] == ('arg', 2)
                if not ok:
                    bad.append(e)
    for p in feasible(mm.paths()):
        for a in p.events:
            if a.kind == 'atom' and a.d['term'][0] == 'discr' and a.d['outcome'] == 'Some' and has_call(a.d['term'][1], 'BTreeMap::get_mut'):
                i = idx_of(p, a)
                nxt = p.events[i + 1:i + 6]
                if not [e for e in nxt if e.kind == 'assign' and e.d['place'][0] == 'field' and e.d['place'][2].endswith('MemoryEntry.estimate')] or \
                        [e for e in nxt[:2] if e.kind == 'atom']:
                    bad.append(a)
    ctx.ob('W1', mm, 'marks-own-entries-as-estimate', n >= 1 and not bad, '', site=mm.loc(mm.b['lo']),
           what='mark_mv_estimate(txid, write set) sets estimate on the entries keyed by txid for every location of the set')
    # finish_incarnation: estimate = !blocking_txs.is_empty()
    fi = idb_fn(ctx, 'finish_incarnation')
    bad = []
    for p in feasible(fi.paths()):
        pw = [e for e in p.events if is_call(e, 'publish_writes')]
        if len(pw) != 1:
            bad.append(p)
            continue
        est = pw[0].d['args'][2]
        ok = est[0] == 'un' and est[1] == 'Not' and est[2][0] == 'call' and callee_matches(est[2][1], '::is_empty') and mentions_field(est[2][2][0], 'blocking_txs')
        if not ok:
            bad.append(p)
    ctx.ob('W1', fi, 'estimate-derived-from-blockers', not bad, '', site=fi.loc(fi.b['lo']),
           what='an incarnation that read an estimate publishes its own writes as estimates (its status becomes Conflict), so nobody validates against them')


def V1_validate_table(ctx):
    f = ctx.method('scheduler::Scheduler<DB>', 'validate')
    ps = feasible(f.paths())
    bad = []
    rows = set()
    for p in ps:
        it = [a for a in p.events if a.kind == 'atom' and a.d['term'][0] == 'discr' and a.d['term'][1][0] == 'call' and a.d['term'][1][1].endswith('::next')
              and mentions_field(a.d['term'][1], 'TransactionResult.read_set')]
        if not it or it[0].d['outcome'] != 'Some':
            continue
        if len([a for a in it if a.d['outcome'] == 'Some']) > 1:
            continue    # the table is read off the single-iteration paths; a second read may raise the conflict on its own
        first = it[0].d['term'][1]
        st = [e for e in assigns(p, 'TxState.status')]
        if not st:
            continue
        actual = variant_of(st[-1].d['value']) == 'Conflict'
        ver = None
        facts_ = {}
        for a in p.events:
            if a.kind != 'atom':
                continue
            t = a.d['term']
            o = a.d['outcome']
            if t[0] == 'discr' and mentions(t[1], first) and not has_call(t[1], '~DashMap') and not has_call(t[1], 'Beneficiary'):
                tt = strip(t[1])
                if tt[0] == 'field' and tt[2].startswith('tuple.1'):
                    cur = facts_.get('version')
                    if o.startswith('!') and cur is not None:
                        if cur.startswith('!'):
                            facts_['version'] = '!' + '|'.join(sorted(set(cur[1:].split('|') + o[1:].split('|'))))
                    else:
                        facts_['version'] = o
            if t[0] == 'call' and callee_matches(t[1], 'BeneficiaryValidation::is_valid'):
                facts_['valid'] = o == 'true'
            if t[0] == 'discr' and t[1][0] == 'call' and norm_callee(t[1][1]).endswith('DashMap::get'):
                facts_['loc'] = o
            if t[0] == 'discr' and t[1][0] == 'call' and t[1][1].endswith('::next_back'):
                facts_['prev'] = o
            if t[0] == 'field' and t[2].endswith('MemoryEntry.estimate'):
                facts_['estimate'] = o == 'true'
            n = norm_cmp(a)
            if n and n[0] in ('Eq', 'Ne'):
                l, r = n[1], n[2]
                for x, y in ((l, r), (r, l)):
                    lv = y[2] if y[0] == 'agg' and y[1].endswith('ReadVersion') and not y[3] else (y[1].split('::')[-1] if y[0] == 'const' and 'ReadVersion::' in y[1] else None)
                    xs = strip(x)
                    if lv and xs[0] == 'field' and xs[2].startswith('tuple.1') and mentions(x, strip(first)):
                        # `*version == ReadVersion::Storage` spelled with the derived PartialEq instead of a pattern
                        cur = facts_.get('version')
                        if n[0] == 'Eq':
                            facts_['version'] = lv
                        elif cur is None or cur.startswith('!'):
                            facts_['version'] = '!' + '|'.join(sorted(set((cur[1:].split('|') if cur else []) + [lv])))
                    if is_field(x, 'TxVersion.txid') and mentions(x, strip(first)) and y[0] == 'field' and y[2].startswith('tuple.0'):
                        facts_['txid_eq'] = n[0] == 'Eq'
                    if is_field(x, 'TxVersion.incarnation') and mentions(x, strip(first)) and is_field(y, 'MemoryEntry.incarnation'):
                        facts_['inc_eq'] = n[0] == 'Eq'
        v = facts_.get('version')
        exp = None
        why = ''
        if v == 'Beneficiary':
            if 'valid' in facts_:
                exp = not facts_['valid']
        elif facts_.get('loc') == 'None' or (facts_.get('loc') == 'Some' and facts_.get('prev') == 'None'):
            if v is not None:
                exp = not (v == 'Storage')
                if v.startswith('!'):
                    exp = 'Storage' in v[1:].split('|')
                    exp = True if 'Storage' in v[1:].split('|') else None
        elif facts_.get('loc') == 'Some' and facts_.get('prev') == 'Some':
            if facts_.get('estimate') is True:
                exp = True
            elif facts_.get('estimate') is False:
                if v == 'MvMemory':
                    if facts_.get('txid_eq') is False or facts_.get('inc_eq') is False:
                        exp = True
                    elif facts_.get('txid_eq') is True and facts_.get('inc_eq') is True:
                        exp = False
                elif v is not None:
                    exp = True
        rows.add(tuple(sorted((k, str(x)) for k, x in facts_.items())))
        if exp is None:
            bad.append((p, f'unrecognised decision shape {facts_}'))
        elif exp != actual:
            bad.append((p, f'inputs {facts_} ⇒ expected conflict={exp}, code decides conflict={actual}'))
    ctx.count('V1.validate-rows', len(rows))
    ctx.ob('V1', f, 'validation-decision-table', len(rows) >= 8 and not bad, '; '.join(w for _, w in bad[:3]) + f' rows={len(rows)}', site=f.loc(f.b['lo']),
           what='conflict ⇔ beneficiary chain invalid ∨ latest preceding writer is an estimate ∨ read is MV with a different (txid, incarnation) ∨ read is not MV although a preceding writer exists ∨ read is not Storage although no preceding writer exists')
    # Beneficiary::validate called with own txid and the recorded version
    bad = []
    for p in ps:
        for e in calls(p, 'Beneficiary::validate'):
            a = e.d['args']
            if not (is_field(strip(a[1]), 'TxVersion.txid') and mentions_field(a[2], 'TransactionResult.read_set')):
                bad.append(e)
    ctx.ob('V1', f, 'beneficiary-validate-args', not bad, '', site=f.loc(f.b['lo']))
    # the scan iterates the stored read set and looks each location up in mv_memory
    bad = []
    n = 0
    for p in ps:
        for e in p.events:
            if is_mv_get(e) or (e.kind == 'call' and norm_callee(e.d['callee']).endswith('DashMap::get') and mentions_field(e.d['args'][0], 'mv_memory')):
                n += 1
                if not mentions_field(e.d['args'][1], 'TransactionResult.read_set'):
                    bad.append(e)
    ctx.ob('V1', f, 'scan-covers-the-stored-read-set', n >= 1 and not bad, '', site=f.loc(f.b['lo']),
           what='validation re-resolves exactly the locations recorded by the execution')


def B6_beneficiary_read(ctx):
    f = idb_fn(ctx, 'basic')
    bad = []
    n = 0
    for p in feasible(f.paths()):
        ben = [a for a in p.events if a.kind == 'atom' and a.d['term'][0] == 'call' and callee_matches(a.d['term'][1], 'Beneficiary::matches')]
        if not ben:
            bad.append((p, 'no beneficiary test'))
            continue
        if ben[0].d['outcome'] != 'true':
            continue
        n += 1
        rb = calls(p, 'Beneficiary::resolve_before')
        if len(rb) != 1 or not own_txid(rb[0].d['args'][1]):
            bad.append((p, 'beneficiary branch does not call resolve_before(own txid)'))
            continue
        if [e for e in p.events if is_mv_get(e) and variant_of(e.d['args'][1]) == 'Basic'] or calls(p, 'DatabaseRef::basic_ref'):
            bad.append((p, 'beneficiary account resolved through MV Basic / the mutable committed cache'))
        out = [a for a in p.events if a.kind == 'atom' and a.d['term'][0] == 'discr' and a.d['term'][1] == rb[0].d['result']]
        ins = [e for e in p.events if e.kind == 'call' and norm_callee(e.d['callee']).endswith('::insert') and mentions_field(e.d['args'][0], 'IncarnationDb.read_set')
               and variant_of(e.d['args'][1]) == 'Basic']
        blk = [e for e in p.events if e.kind == 'call' and norm_callee(e.d['callee']).endswith('::insert') and mentions_field(e.d['args'][0], 'IncarnationDb.blocking_txs')]
        if out and out[0].d['outcome'] == 'Ok':
            ok = len(ins) == 1 and ins[0].d['args'][2][0] == 'agg' and ins[0].d['args'][2][2] == 'Beneficiary' and mentions(ins[0].d['args'][2], rb[0].d['result'])
            if not ok:
                bad.append((p, 'Ok read not recorded as ReadVersion::Beneficiary(version of that read)'))
        elif out and out[0].d['outcome'] == 'Err':
            if not (blk and mentions(blk[0].d['args'][1], rb[0].d['result'])):
                bad.append((p, 'blocked read does not record the blocker'))
        else:
            bad.append((p, 'resolve_before outcome not decided'))
    ctx.ob('B6', f, 'beneficiary-resolved-only-through-history', n >= 2 and not bad, '; '.join(w for _, w in bad[:3]), site=f.loc(f.b['lo']),
           what='the beneficiary balance is anchor + rewards of preceding transactions, folded from the immutable block-start anchor; reading the mutable committed cache (or MV Basic) counts a committed reward twice or misses one')


_CK = {}


def closure_kind(ctx, name):
    key = (id(ctx.facts), name)
    if key not in _CK:
        cf = ctx.fn(ctx.facts.by[name])
        txt = ' '.join(show(e.d['value']) if e.kind == 'ret' else show(e.d['term']) if e.kind == 'atom' else '' for q in feasible(cf.paths()) for e in q.events)
        _CK[key] = 'code' if 'code_hash' in txt else 'basic' if ('nonce' in txt or 'balance' in txt) else 'other'
    return _CK[key]


def D2_publish_writes(ctx):
    f = idb_fn(ctx, 'publish_writes')
    ps = feasible(f.paths(max_visits=2))
    bad = []
    k1 = [0, 0]
    seen = collections.Counter()
    for p in ps:
        cls = [a for a in p.events if a.kind == 'atom' and a.d['term'][0] == 'discr' and has_call(a.d['term'][1], '~FinalizedAccount')]
        if not cls:
            continue
        kind = cls[0].d['outcome']
        i0 = idx_of(p, cls[0])
        # events of this iteration: until the next iterator call
        rest = []
        for e in p.events[i0 + 1:]:
            if e.kind == 'call' and e.d['callee'].endswith('::next') and mentions(e.d['args'][0], ('arg', 2)) and not has_call(e.d['args'][0], 'Account::changed_storage_slots'):
                break
            rest.append(e)
        # the reset marker is published through its one-statement helper or directly
        allpv = [e for e in rest if is_call(e, 'IncarnationDb::publish_value')]
        pubs = [e for e in allpv if variant_of(e.d['args'][1]) != 'StorageReset']
        resets = [e for e in rest if is_call(e, 'IncarnationDb::publish_storage_reset')] + [e for e in allpv if variant_of(e.d['args'][1]) == 'StorageReset']
        ben = [a for a in rest if a.kind == 'atom' and a.d['term'][0] == 'call' and callee_matches(a.d['term'][1], 'Beneficiary::matches')]
        is_ben = ben[0].d['outcome'] == 'true' if ben else None
        pv = {}
        for e in pubs:
            pv.setdefault(variant_of(e.d['args'][1]), []).append(e)
        seen[kind] += 1
        for e in pubs + resets:
            # the flag travels as its own argument or as the `estimate` field of a context struct handed over by reference
            tail = e.d['args'][3:] if is_call(e, 'IncarnationDb::publish_value') else e.d['args'][2:]
            fwd = False
            for x in tail:
                x = strip(x)
                if x == ('arg', 3) or (x[0] == 'agg' and x[2] in ('', None) and any(strip(y) == ('arg', 3) for y in x[3])):
                    fwd = True
            if not fwd:
                bad.append((p, f'{kind}: estimate flag not forwarded at {site(f, e)}'))
            if is_call(e, 'IncarnationDb::publish_value') and variant_of(e.d['args'][1]) == 'StorageReset' and variant_of(e.d['args'][2]) != 'StorageReset':
                bad.append((p, f'{kind}: reset marker published with a value other than MemoryValue::StorageReset'))
        if kind == 'Unchanged':
            if pubs or resets:
                bad.append((p, 'Unchanged account publishes'))
        elif kind == 'Deleted':
            if len(resets) != 1:
                bad.append((p, 'Deleted: StorageReset not published'))
            b = pv.get('Basic', [])
            if is_ben is not True and not (len(b) == 1 and b[0].d['args'][2][0] == 'agg' and b[0].d['args'][2][2] == 'Basic' and variant_of(b[0].d['args'][2][3][0]) == 'None'):
                bad.append((p, 'Deleted: Basic(None) not published for a non-beneficiary account'))
            if is_ben is True and b:
                pass  # publishing Basic(beneficiary) is allowed (not an obligation either way)
            if pv.get('Storage') or pv.get('Code'):
                bad.append((p, 'Deleted: publishes Storage/Code'))
        elif kind in ('Created', 'Updated'):
            if kind == 'Created' and len(resets) != 1:
                bad.append((p, 'Created: StorageReset not published'))
            if kind == 'Created' and len(resets) == 1 and pubs and idx_of(p, resets[0]) > min(idx_of(p, e) for e in pubs):
                bad.append((p, 'Created: the StorageReset marker is published after the account version / code / slots it must mask for'))
            if kind == 'Updated' and resets:
                bad.append((p, 'Updated: publishes a StorageReset (masks storage that in-order execution keeps)'))
            # code_changed decision
            def truth(callee_pat):
                for a in rest:
                    bf = bool_fact(a)
                    if bf and bf[0][0] == 'call' and callee_matches(bf[0][1], callee_pat):
                        return bf[1]
                return None

            def is_some(field):
                """was `field` (an Option read straight from the post-state info) found Some on this path"""
                for a in rest:
                    of = option_fact(a)
                    if of and of[0][0] == 'field' and of[0][2].endswith(field) and of[1] in ('Some', 'None'):
                        return of[1] == 'Some'
                return None

            def snap_present():
                for a in rest:
                    of = option_fact(a)
                    if of and of[1] in ('Some', 'None') and mentions_field(of[0], 'IncarnationDb.account_snapshots'):
                        return of[1] == 'Some'
                return None

            def rel(snap_field, info_field):
                """the relation that holds on this path between the snapshot's field and the post-state field"""
                for a in rest:
                    n = norm_cmp(a) if a.kind == 'atom' else None
                    if not n:
                        continue
                    for l, r in ((n[1], n[2]), (n[2], n[1])):
                        if mentions_field(l, snap_field) and mentions_field(r, info_field) and not mentions_field(l, info_field):
                            return n[0]
                return None

            def snap(kindname):
                """is_none_or(snapshot, differs): no snapshot ⇒ changed; else the comparison decides"""
                present = snap_present()
                if present is None:
                    return None
                if present is False:
                    return True
                if kindname == 'code':
                    r = rel('AccountBasic.code_hash', 'AccountInfo.code_hash')
                    if r in ('Ne', 'Eq'):
                        k1[0] += 1
                        return r == 'Ne'
                    return None
                rn = rel('AccountBasic.nonce', 'AccountInfo.nonce')
                rb = rel('AccountBasic.balance', 'AccountInfo.balance')
                if rn == 'Ne' or rb == 'Ne':
                    k1[1] += 1
                    return True
                if rn == 'Eq' and rb == 'Eq':
                    k1[1] += 1
                    return False
                return None
            empty_hash = truth('AccountInfo::is_empty_code_hash')
            code_some = is_some('AccountInfo.code')
            code_snap = snap('code')
            basic_snap = snap('basic')
            if empty_hash is None:
                exp_code = None
            elif empty_hash or code_some is False:
                exp_code = False
            elif code_some is None:
                exp_code = None
            else:
                exp_code = code_snap
            got_code = bool(pv.get('Code'))
            if exp_code is None:
                bad.append((p, f'{kind}: code_changed decision not recognised'))
            elif exp_code != got_code:
                bad.append((p, f'{kind}: code_changed={exp_code} but Code published={got_code}'))
            if got_code:
                e = pv['Code'][0]
                if not (e.d['args'][2][0] == 'agg' and e.d['args'][2][2] == 'Code' and mentions_field(e.d['args'][2], 'AccountInfo.code')):
                    bad.append((p, 'Code value is not the post-state code'))
            # Basic decision
            if is_ben is False:
                exp_basic = True if exp_code is True else basic_snap
                got_basic = bool(pv.get('Basic'))
                if exp_basic is None:
                    bad.append((p, f'{kind}: basic-changed decision not recognised'))
                elif exp_basic != got_basic:
                    bad.append((p, f'{kind}: basic-changed={exp_basic} but Basic published={got_basic}'))
                if got_basic:
                    e = pv['Basic'][0]
                    v = e.d['args'][2]
                    if not (v[0] == 'agg' and v[2] == 'Basic' and variant_of(v[3][0]) == 'Some'):
                        bad.append((p, 'Basic value is not Some(post-state info)'))
            # storage slots
            cs = [e for e in rest if is_call(e, 'Account::changed_storage_slots')]
            if not cs:
                bad.append((p, f'{kind}: changed storage slots not published'))
            # every changed slot of this account is published (no conditional skip inside the slot loop)
            for j, x in enumerate(rest):
                if x.kind == 'atom' and x.d['term'][0] == 'discr' and x.d['outcome'] == 'Some' and x.d['term'][1][0] == 'call' and x.d['term'][1][1].endswith('::next') \
                        and has_call(x.d['term'][1], 'Account::changed_storage_slots'):
                    nxt = rest[j + 1:j + 12]
                    pubs_here = [y for y in nxt if is_call(y, 'IncarnationDb::publish_value') and variant_of(y.d['args'][1]) == 'Storage']
                    between = []
                    for y in nxt:
                        if pubs_here and y is pubs_here[0]:
                            break
                        if y.kind == 'atom':
                            between.append(y)
                    if not pubs_here or between:
                        bad.append((p, f'{kind}: a changed storage slot is not published unconditionally'))
            for e in pv.get('Storage', []):
                v = e.d['args'][2]
                if not (v[0] == 'agg' and v[2] == 'Storage' and mentions_field(v, 'EvmStorageSlot.present_value')):
                    bad.append((p, 'Storage value is not slot.present_value'))
    ctx.count('D2.account-kinds', len(seen))
    if os.environ.get('VERIF_DEBUG') == 'D2' and bad:
        print(pretty_path(bad[0][0]), '\n', bad[0][1])
    ctx.ob('D2', f, 'publication-table', set(seen) >= {'Unchanged', 'Deleted', 'Created', 'Updated'} and not bad,
           '; '.join(sorted(set(w for _, w in bad))[:4]) + f' kinds={dict(seen)}', site=f.loc(f.b['lo']),
           what='Unchanged ⇒ nothing; Deleted ⇒ StorageReset (+Basic(None) unless beneficiary); Created ⇒ StorageReset + account; Updated ⇒ no reset; for a created account the marker goes out FIRST (code at the address can only run once its Basic/Code version is visible, so every storage read of such a reader already sees the marker; the read set keeps one version per location, a marker that appears between two SLOADs would be recorded as if it had been there for both); Code published ⇔ has code ∧ code present ∧ (no snapshot ∨ snapshot hash ≠ new hash); Basic published when code/nonce/balance changed; every changed slot published with its present value; estimate flag forwarded')
    # the reset helper (when the tree has one) publishes exactly the marker, for the address it was given, forwarding flag and write set
    try:
        rs = idb_fn(ctx, 'publish_storage_reset')
    except AnchorLost:
        rs = None
    if rs is not None:
        badr = []
        nr = 0
        for p in feasible(rs.paths()):
            pc = [e for e in p.events if is_call(e, 'IncarnationDb::publish_value')]
            ok = len(pc) == 1
            if ok:
                a = pc[0].d['args']
                nr += 1
                ok = variant_of(a[1]) == 'StorageReset' and a[1][0] == 'agg' and [strip(x) for x in a[1][3]] == [('arg', 2)] and variant_of(a[2]) == 'StorageReset' \
                    and [strip(x) for x in a[3:]] == [('arg', 3), ('arg', 4)]
            if not ok:
                badr.append(p)
        ctx.ob('D2', rs, 'reset-helper-publishes-the-marker', nr >= 1 and not badr, f'{len(badr)} deviating path(s)', site=rs.loc(rs.b['lo']),
               what='publish_storage_reset(address, estimate, write_set) publishes StorageReset(address) -> MemoryValue::StorageReset with the same flag and write set')
    # the two snapshot closures
    cls = ctx.facts.closures_of(f.name)
    ctx.ob('K1', f, 'snapshot-comparison-closures', k1[0] >= 1 and k1[1] >= 1, f'paths deciding code by snapshot.code_hash vs new hash={k1[0]}, basic by nonce/balance={k1[1]}', site=f.loc(f.b['lo']),
           what='code changed ⇔ snapshot.code_hash != Some(new hash); basic changed ⇔ nonce or balance differ')


def K3_code_fill(ctx):
    f = idb_fn(ctx, 'basic')
    bad = []
    n = 0
    for p in feasible(f.paths()):
        ret = [e for e in p.events if e.kind == 'ret'][0].d['value']
        if not (ret[0] == 'agg' and ret[2] == 'Ok'):
            continue
        cb = calls(p, 'IncarnationDb::code_by_address')
        # decision atoms
        some = [a for a in p.events if a.kind == 'atom' and a.d['term'][0] == 'discr' and a.d['outcome'] in ('Some', 'None') and a.d['term'][1][0] != 'call' and not is_field(a.d['term'][1], 'MemoryEntry.data')]
        empty = [a for a in p.events if a.kind == 'atom' and a.d['term'][0] == 'call' and callee_matches(a.d['term'][1], 'AccountInfo::is_empty_code_hash')]
        # "code absent", however it is tested (is_none / is_some / match / if let)
        codef = [of for of in (option_fact(a) for a in p.events) if of and of[1] in ('Some', 'None') and of[0][0] == 'field' and of[0][2].endswith('AccountInfo.code')]
        need = bool(empty) and empty[-1].d['outcome'] == 'false' and bool(codef) and codef[-1][1] == 'None'
        if need:
            n += 1
        if need != bool(cb):
            bad.append(p)
        for e in cb:
            if not (e.d['args'][1] == ('arg', 2) and is_field(e.d['args'][2], 'AccountInfo.code_hash')):
                bad.append(p)
    ctx.ob('K3', f, 'code-filled-through-code_by_address', n >= 1 and not bad, f'{len(bad)} deviating path(s)', site=f.loc(f.b['lo']),
           what='published Basic entries carry no code; an account with a non-empty code hash and no code must get its code from the latest preceding Code version (else a later transaction executes stale or missing code)')
    g = idb_fn(ctx, 'code_by_address')
    bad = []
    for p in feasible(g.paths()):
        ret = [e for e in p.events if e.kind == 'ret'][0].d['value']
        if not (ret[0] == 'agg' and ret[2] == 'Ok'):
            continue
        gets = [e for e in p.events if is_mv_get(e) and variant_of(e.d['args'][1]) == 'Code']
        db = calls(p, 'DatabaseRef::code_by_hash_ref')
        if len(gets) != 1 or (db and idx_of(p, db[0]) < idx_of(p, gets[0])):
            bad.append(p)
            continue
        took = [a for a in p.events if a.kind == 'atom' and a.d['term'][0] == 'discr' and is_field(a.d['term'][1], 'MemoryEntry.data') and a.d['outcome'] == 'Code']
        if took and db:
            bad.append(p)
        if not took and not db:
            bad.append(p)
        if gets[0].d['args'][1][3][0] != ('arg', 2):
            bad.append(p)
    ctx.ob('K3', g, 'mv-code-before-backing-store', not bad, f'{len(bad)} deviating path(s)', site=g.loc(g.b['lo']),
           what='code is looked up under Code(address) in MV memory first; the backing store (by hash) is used only when no preceding writer published code')


def R5_returned_value(ctx):
    """what a read RETURNS is the value of the very source it recorded: the MV entry whose version went into the read set, the
    beneficiary history resolution, or the backing database — a reader that records the right version but hands back something
    else passes validation with a wrong value"""
    for name, var, dbcall in (('code_by_address', 'Code', '::code_by_hash_ref'), ('basic', 'Basic', '::basic_ref')):
        f = idb_fn(ctx, name)
        bad = []
        n_mv = n_db = n_ben = 0
        for p in feasible(f.paths()):
            ret = [e for e in p.events if e.kind == 'ret'][0].d['value']
            if not (ret[0] == 'agg' and ret[2] == 'Ok'):
                continue
            val = ret[3][0]
            ins = [e for e in p.events if e.kind == 'call' and norm_callee(e.d['callee']).endswith('::insert') and mentions_field(e.d['args'][0], 'IncarnationDb.read_set')
                   and variant_of(e.d['args'][1]) == var]
            if not ins:
                continue     # (a blocked beneficiary read records nothing and returns None: B6)
            ver = ins[-1].d['args'][2]
            kind = variant_of(ver)
            if kind == 'MvMemory':
                n_mv += 1
                ents = [s[1] for s in subterms(ver) if s[0] == 'field' and s[2].endswith('MemoryEntry.incarnation')]
                if not ents:
                    bad.append((p, 'recorded MV version does not name an entry'))
                    continue
                ent = strip(ents[0])
                src = [s for s in subterms(strip(val)) if s[0] == 'field' and s[2].endswith('MemoryEntry.data') and strip(s[1]) == ent]
                if not src:
                    bad.append((p, f'{name}: an MV entry was recorded in the read set but the returned value is not that entry\'s data ({show(val)[:70]})'))
            elif kind == 'Storage':
                n_db += 1
                db = [e for e in p.events if e.kind == 'call' and e.d['callee'].endswith(dbcall) and mentions_field(e.d['args'][0], 'IncarnationDb.backing_db')]
                if not db or not mentions(strip(val), strip(db[-1].d['result'])):
                    bad.append((p, f'{name}: the backing store was recorded as the source but the returned value is not what it answered ({show(val)[:70]})'))
            elif kind == 'Beneficiary':
                n_ben += 1
                rb = calls(p, 'Beneficiary::resolve_before')
                if not rb or not mentions(strip(val), strip(rb[-1].d['result'])):
                    bad.append((p, f'{name}: the beneficiary history was recorded as the source but the returned value does not come from it'))
        ctx.ob('R5', f, 'returned-value-is-the-recorded-source', n_mv >= 1 and n_db >= 1 and not bad,
               f'mv={n_mv} db={n_db} beneficiary={n_ben}; ' + '; '.join(sorted({w for _, w in bad})[:2]), site=f.loc(f.b['lo']),
               what='validation only compares versions; a read that records the resolved version but returns another value (the backing store\'s, nothing) is validated as consistent and commits a result in-order execution never produces')

#!/usr/bin/env python3
"""keep a confirmed seeded change under /verif/seeded/<name>/ and drop its scratch worktree.
usage: keep_seed.py <out-id> <name> <property> "<needs>" "<caught by>" """
import sys, os, json, shutil, subprocess
oid, name, prop, needs, caught = sys.argv[1:6]
src = f'/tmp/seed/out-{oid}'
dst = f'/verif/seeded/{name}'
os.makedirs(dst, exist_ok=True)
for f in ('patch.diff', 'demo.diff', 'NOTES.md'):
    shutil.copy2(os.path.join(src, f), os.path.join(dst, f))
v = json.load(open(os.path.join(src, 'verify.json')))
meta = {
    'property': prop,
    'origin': 'independent sub-agent given only the property text and a scratch worktree',
    'what_it_needs_to_manifest': needs,
    'confirmed_by_me': {
        'demo_cmd': v['demo_cmd'],
        'demo_with_patch_exit': v['demo_with_patch_exit'],
        'demo_without_patch_exit': v['demo_without_patch_exit'],
        'existing_suite_with_patch': v['suite_summary'],
        'how': 'sa/py/verify_seed.sh in the scratch worktree: demo+patch fails, demo alone passes, `cargo test --offline --workspace --no-fail-fast` with the patch passes',
    },
    'checks_run': 'git -C /repo apply patch.diff; ./check --all; git -C /repo checkout -- .   (sa/py/seedcheck.py)',
    'caught_by': caught,
}
json.dump(meta, open(os.path.join(dst, 'meta.json'), 'w'), indent=1)
wt = f'/tmp/seed/wt-{oid}'
if os.path.isdir(wt):
    subprocess.run(['git', '-C', '/repo', 'worktree', 'remove', '--force', wt])
print('kept', dst)

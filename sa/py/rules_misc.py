"""C11 facade rules, C06 configuration / nondeterminism rules, C05 lock-class analysis (E6)."""
import json, os, subprocess, shutil, tempfile, time
from ru import *
import core

# ------------------------------------------------------------------------------------------------ C11


def P2_facade(ctx):
    facts = ctx.facts
    used = collections.defaultdict(set)
    for b in facts.production():
        if 'precompile::' not in b['fn']:
            continue
        for bl in b['blocks']:
            t = bl['term']
            if not bl['cleanup'] and t['k'] == 'call' and 'EvmInternals' in t['callee']:
                used[b['fn'].split('::')[-1]].add(norm_callee(t['callee']).split('::')[-1])
    exp = {'balance': {'load_account'}, 'sload': {'sload'}, 'set_balance': {'load_account_mut'}, 'sstore': {'sstore'}}
    ctx.ob('P2', 'precompile::ParallelPrecompileState', 'internals-methods-used', dict(used) == exp, f'{ {k: sorted(v) for k, v in used.items()} }',
           what='the facade touches EvmInternals only through journal-aware load_account / sload / load_account_mut / sstore, so every access is tracked by IncarnationDb and follows call-frame reverts')
    for m, gate in (('balance', 'ensure_healthy'), ('sload', 'ensure_healthy'), ('set_balance', 'ensure_mutable'), ('sstore', 'ensure_mutable')):
        f = ctx.method("precompile::ParallelPrecompileState<'_>", m)
        bad = []
        badfw = []
        n = 0
        for p in feasible(f.paths()):
            for i, e in enumerate(p.events):
                if e.kind == 'call' and 'EvmInternals' in e.d['callee']:
                    n += 1
                    g = [j for j, x in enumerate(p.events[:i]) if is_call(x, 'ParallelPrecompileState::' + gate)]
                    if not g:
                        bad.append(e)
                        continue
                    ok = [a for a in p.events[g[0]:i] if a.kind == 'atom' and mentions(a.d['term'], p.events[g[0]].d['result']) and a.d['outcome'] in ('Continue', 'Ok')]
                    if not ok:
                        bad.append(e)
            # the journal is asked about exactly what the implementation named: the facade's arguments, in order
            for e in p.events:
                if e.kind == 'call' and 'EvmInternals' in e.d['callee']:
                    got = [strip(a_) for a_ in e.d['args'][1:]]
                    want = [('arg', 2 + k_) for k_ in range(len(got))]
                    if got != want:
                        badfw.append(e)
            # database error => recorded fault
            for a in p.events:
                if a.kind == 'atom' and a.d['term'][0] == 'discr' and a.d['term'][1][0] == 'call' and 'EvmInternals' in a.d['term'][1][1] and a.d['outcome'] == 'Err':
                    if not calls(p, 'ParallelPrecompileState::record_fault'):
                        bad.append(a)
        ctx.ob('P2', f, f'{gate}-dominates-the-journal-access', n >= 1 and not bad, '; '.join(site(f, e) for e in bad[:2]), site=f.loc(f.b['lo']),
               what='reads after a recorded fault and mutations in a static context must be refused BEFORE the journal is touched; a journal error must be recorded as the call\'s fault')
        if m == 'set_balance':
            # the value written is the facade's `balance` argument: the closure handed to StateLoad::map captures it and passes it on
            okv = False
            for p in feasible(f.paths()):
                for e in p.events:
                    if e.kind == 'call' and e.d['callee'].endswith('::map'):
                        for s_ in subterms(e.d['args'][1]) if len(e.d['args']) > 1 else ():
                            if s_[0] == 'closure' and [strip(c_) for c_ in s_[2]] == [('arg', 3)]:
                                cf_ = ctx.fn(s_[1])
                                cps = feasible(cf_.paths())
                                okv = bool(cps) and all(any(x.kind == 'call' and x.d['callee'].endswith('::set_balance') and len(x.d['args']) == 2 and x.d['args'][1][0] == 'upvar'
                                                            for x in q.events) for q in cps)
            ctx.ob('P2', f, 'set-balance-writes-the-given-balance', okv, '', site=f.loc(f.b['lo']),
                   what='the journal account\'s balance is set to the value the implementation passed, on the account the journal loaded for `address`')
        ctx.ob('P2', f, 'journal-access-forwards-the-arguments', not badfw, '; '.join(site(f, e) for e in badfw[:2]), site=f.loc(f.b['lo']),
               what=f'{m}(address, ..) asks the journal about the same (address, key, value) in the same order')
    em = ctx.method("precompile::ParallelPrecompileState<'_>", 'ensure_mutable')
    bad = []
    rows = set()
    for p in feasible(em.paths()):
        ret = [e for e in p.events if e.kind == 'ret'][0].d['value']
        eh = [i for i, e in enumerate(p.events) if is_call(e, 'ParallelPrecompileState::ensure_healthy')]
        st = [i for i, a in enumerate(p.events) if a.kind == 'atom' and is_field(strip(a.d['term']), 'ParallelPrecompileState.is_static')]
        if not eh or (st and st[0] < eh[0]):
            bad.append(p)
            continue
        if st and p.events[st[0]].d['outcome'] == 'true':
            rows.add('static')
            rf = calls(p, 'ParallelPrecompileState::record_fault')
            if not rf or variant_of(rf[0].d['args'][1]) != 'Halt' or ret != rf[0].d['result']:
                bad.append(p)
        elif st:
            rows.add('mutable')
            if not (ret[0] == 'agg' and ret[2] == 'Ok'):
                bad.append(p)
    ctx.ob('P2', em, 'static-context-refused-with-a-recorded-halt', rows == {'static', 'mutable'} and not bad, f'rows={sorted(rows)} bad={len(bad)}', site=em.loc(em.b['lo']),
           what='a mutation in a static context records a Halt fault (which the adapter enforces even if the implementation ignores the error) and changes nothing')
    rf = ctx.method("precompile::ParallelPrecompileState<'_>", 'record_fault')
    ok = False
    for p in feasible(rf.paths()):
        ret = [e for e in p.events if e.kind == 'ret'][0].d['value']
        gi = [e for e in p.events if e.kind == 'call' and norm_callee(e.d['callee']).endswith('Option::get_or_insert') and mentions_field(e.d['args'][0], 'ParallelPrecompileState.fault')]
        if gi and ret[0] == 'agg' and ret[2] == 'Err' and mentions(ret, gi[0].d['result']):
            ok = True
    ctx.ob('P2', rf, 'first-fault-is-kept-and-returned', ok, '', site=rf.loc(rf.b['lo']))


def P3_adapter(ctx):
    ta = ctx.method('precompile::DynParallelPrecompile', 'to_alloy')
    oks = False
    for p in feasible(ta.paths()):
        ns = [e for e in p.events if e.kind == 'call' and e.d['callee'].endswith('DynPrecompile::new_stateful')]
        if ns:
            oks = True
    ctx.ob('P3', ta, 'adapter-is-stateful-no-input-cache', oks, '', site=ta.loc(ta.b['lo']),
           what='results depend on journal state, which Alloy\'s input-only cache key does not cover')
    cls = ctx.facts.closures_under(ta.name)
    rows = set()
    bad = []
    for c in cls:
        cf = ctx.fn(c)
        cps = feasible(cf.paths())
        # the adapter closure is the one that invokes the implementation; closures nested in it (handed to a combinator) are
        # analysed as part of it
        if not any(e.kind == 'call' and e.d['callee'].endswith('::call') and 'precompile' in show(e.d['args'][0]) for p in cps for e in p.events):
            continue
        for p in cps:
            ret = [e for e in p.events if e.kind == 'ret'][0].d['value']
            call = [e for e in p.events if e.kind == 'call' and e.d['callee'].endswith('::call') and 'precompile' in show(e.d['args'][0])]
            # the recorded fault is taken out of the facade state (through take_fault or directly)
            tf = calls(p, 'ParallelPrecompileState::take_fault') or \
                [e for e in p.events if e.kind == 'call' and norm_callee(e.d['callee']).endswith(('Option::take', 'mem::take')) and mentions_field(e.d['args'][0], 'ParallelPrecompileState.fault')]
            if not call or not tf or idx_of(p, tf[0]) < idx_of(p, call[0]):
                bad.append((p, 'recorded fault not consulted after the implementation returned'))
                continue
            ff = [of for of in (option_fact(a) for a in p.events) if of and of[1] in ('Some', 'None') and strip(of[0]) == strip(tf[0].d['result'])]
            if not ff:
                bad.append((p, 'recorded fault taken but never tested'))
                continue
            faulted = ff[-1][1] == 'Some'
            src = tf[0].d['result'] if faulted else call[0].d['result']
            other = call[0].d['result'] if faulted else tf[0].d['result']
            dec = [a for a in p.events if a.kind == 'atom' and a.d['term'][0] == 'discr' and a.d['outcome'] in ('Ok', 'Err', 'Halt', 'Fatal')]
            if any(mentions(a.d['term'][1], other) and not mentions(a.d['term'][1], src) for a in dec if a.d['term'][1] != tf[0].d['result']) and faulted:
                bad.append((p, 'a recorded fault does not override the implementation result'))
            outs = [a.d['outcome'] for a in dec if mentions(a.d['term'][1], src)]
            if faulted and 'Ok' in outs:
                bad.append((p, 'a recorded fault is treated as success'))
            if 'Halt' in outs:
                rows.add('halt')
                h = [e for e in p.events if e.kind == 'call' and e.d['callee'].endswith('PrecompileOutput::halt')]
                if not (h and ret[0] == 'agg' and ret[2] == 'Ok' and ret[3][0] == h[0].d['result'] and mentions_field(h[0].d['args'][1], 'PrecompileInput.reservoir') and mentions(h[0].d['args'][0] if h[0].d['args'] else ('unk', ''), src)):
                    bad.append((p, 'Halt must become Ok(PrecompileOutput::halt(reason, input reservoir))'))
            elif 'Fatal' in outs:
                rows.add('fatal')
                if not (ret[0] == 'agg' and ret[2] == 'Err' and mentions(ret, src)):
                    bad.append((p, 'Fatal must become Err(error)'))
            elif 'Ok' in outs and not faulted:
                rows.add('ok')
                if not (ret[0] == 'agg' and ret[2] == 'Ok' and mentions(ret, src)):
                    bad.append((p, 'Ok output not forwarded'))
            else:
                bad.append((p, f'effective result not classified (fault present={faulted}, decisions {outs})'))
    ctx.ob('P3', ta, 'fault-enforcing-adapter-table', rows == {'ok', 'halt', 'fatal'} and not bad, '; '.join(sorted(set(w for _, w in bad))[:3]) + f' rows={sorted(rows)}', site=ta.loc(ta.b['lo']),
           what='the call result is the recorded facade fault if there is one (even when the implementation ignored it), else the implementation\'s result; Halt ⇒ halting output charging the reservoir, Fatal ⇒ fatal error')
    fa = ctx.method("precompile::ParallelPrecompileInput<'a>", 'from_alloy')
    ok = False
    for p in feasible(fa.paths()):
        ret = [e for e in p.events if e.kind == 'ret'][0].d['value']
        if ret[0] == 'agg':
            f = dict(zip(ret[4].split(','), ret[3]))
            s = f.get('state')
            if s and s[0] == 'agg':
                sf = dict(zip(s[4].split(','), s[3]))
                ok = is_field(strip(sf['is_static']), 'PrecompileInput.is_static') and variant_of(sf['fault']) == 'None' and is_field(strip(sf['internals']), 'PrecompileInput.internals')
    ctx.ob('P3', fa, 'facade-inherits-static-flag-and-starts-healthy', ok, '', site=fa.loc(fa.b['lo']))
    # field visibility: everything private
    st = ctx.facts.structs
    bad = []
    for name in ('precompile::ParallelPrecompileInput', 'precompile::ParallelPrecompileState'):
        k = [x for x in st if x.endswith(name)]
        if len(k) != 1:
            bad.append(f'{name} not found')
            continue
        for f in st[k[0]]:
            if f['vis'] == 'Public':
                bad.append(f'{name}.{f["name"]} is public')
    ctx.ob('P1', 'precompile', 'facade-fields-are-private', not bad, '; '.join(bad), what='a public field would hand implementations the unrestricted EvmInternals / raw input')
    # public methods of the two facade types
    pubs = sorted(b['fn'].split('::')[-1] for b in ctx.facts.production() if b['kind'] == 'assoc' and b['vis'] == 'Public' and
                  ("ParallelPrecompileState<'_>" in b['self_ty']) and ' as ' not in b['fn'])
    ctx.ob('P1', 'precompile::ParallelPrecompileState', 'public-surface', pubs == ['balance', 'set_balance', 'sload', 'sstore'], f'{pubs}',
           what='the facade exposes exactly the four journal-aware operations')
    pubs_i = sorted(b['fn'].split('::')[-1] for b in ctx.facts.production() if b['kind'] == 'assoc' and b['vis'] == 'Public' and "ParallelPrecompileInput<'a>" in b['self_ty'] and ' as ' not in b['fn'])
    exp_i = sorted(['data', 'gas', 'reservoir', 'caller', 'value', 'target_address', 'bytecode_address', 'is_direct_call', 'is_static', 'state'])
    ctx.ob('P1', 'precompile::ParallelPrecompileInput', 'public-surface', pubs_i == exp_i, f'{pubs_i}',
           what='the restricted input exposes only value accessors and the facade')


WITNESS_DIR = os.path.join(core.VERIF, 'sa', 'witness')


def P1_witnesses(ctx):
    """compile-fail witnesses + compiling twins, type-checked against the current /repo"""
    res = run_witnesses()
    for name, (ok, detail) in sorted(res.items()):
        ctx.ob('P1', 'witness::' + name, 'compile-fail-witness-and-compiling-twin', ok, detail,
               what='external code must not be able to reach the unrestricted internals; the twin differing only in the offending line must compile (so the witness fails for the right reason)')
    ctx.count('P1.witnesses', len(res))


def run_witnesses(repo=None):
    repo = repo or core.REPO
    out = {}
    cases = json.load(open(os.path.join(WITNESS_DIR, 'cases.json')))
    d = tempfile.mkdtemp(prefix='grevm-witness-', dir=os.environ.get('TMPDIR', '/tmp'))
    try:
        for c in cases:
            for variant in ('witness', 'twin'):
                cd = os.path.join(d, f"{c['name']}-{variant}")
                os.makedirs(os.path.join(cd, 'src'))
                shutil.copy2(os.path.join(repo, 'Cargo.lock'), os.path.join(cd, 'Cargo.lock'))
                open(os.path.join(cd, 'Cargo.toml'), 'w').write(
                    f'[package]\nname = "w_{c["name"].replace("-", "_")}_{variant}"\nversion = "0.0.0"\nedition = "2021"\n[dependencies]\ngrevm = {{ path = "{repo}" }}\n[workspace]\n')
                body = c['template'].replace('@@LINE@@', c['bad'] if variant == 'witness' else c['good'])
                open(os.path.join(cd, 'src', 'lib.rs'), 'w').write(body)
        for c in cases:
            results = {}
            for variant in ('witness', 'twin'):
                cd = os.path.join(d, f"{c['name']}-{variant}")
                env = dict(os.environ, CARGO_NET_OFFLINE='true', CARGO_TARGET_DIR=os.path.join(core.CACHE, 'witness-target'), RUSTFLAGS='-Awarnings')
                r = subprocess.run(['cargo', '+nightly', 'check', '--offline', '--message-format=json', '--lib'], cwd=cd, env=env, capture_output=True, text=True)
                codes = []
                for line in r.stdout.splitlines():
                    try:
                        m = json.loads(line)
                    except ValueError:
                        continue
                    if m.get('reason') == 'compiler-message' and m['message'].get('level') == 'error':
                        code = (m['message'].get('code') or {}).get('code')
                        spans = m['message'].get('spans') or []
                        txt = ' '.join(s.get('text', [{}])[0].get('text', '') if s.get('text') else '' for s in spans)
                        codes.append((code, txt.strip()))
                results[variant] = (r.returncode, codes, r.stderr[-300:])
            rc_w, codes_w, err_w = results['witness']
            rc_t, codes_t, err_t = results['twin']
            ok = rc_w != 0 and any(cd_ == c['code'] and c['marker'] in tx for cd_, tx in codes_w) and rc_t == 0
            out[c['name']] = (ok, f"witness rc={rc_w} errors={codes_w[:2]} expected {c['code']} on `{c['marker']}`; twin rc={rc_t} {codes_t[:1] or err_t[-120:] if rc_t else ''}")
    finally:
        shutil.rmtree(d, ignore_errors=True)
    return out


# ------------------------------------------------------------------------------------------------ C06


def field_readers(facts, field_suffix):
    out = set()
    for b in facts.production():
        if field_suffix in json.dumps(b['blocks']):
            out.add(b['fn'])
    return out


def G1_config_flow(ctx):
    facts = ctx.facts
    table = {
        'GrevmConfig.concurrency_level': {'parallel_execute', 'new_with_runtime_config', 'from_env', 'default'},
        'GrevmConfig.force_sequential': {'parallel_execute_inner', 'from_env', 'default'},
        'GrevmConfig.min_parallel_txs': {'parallel_execute_inner', 'from_env', 'default'},
        'GrevmConfig.delegated_safety': {'build', 'parallel_execute_inner', 'replay_uncommitted_suffix', 'with_delegated_safety', 'from_env', 'default'},
    }
    for fld, allowed in table.items():
        readers = field_readers(facts, 'config::' + fld)
        # a function of config.rs that returns a GrevmConfig is a constructor/builder: copying a knob into the same knob of
        # the new value (struct update syntax, field by field) is not a use of it
        builders = {x for x in readers if facts.by[x].get('file', '').endswith('config.rs') and facts.by[x]['locals'] and facts.by[x]['locals'][0]['ty'].endswith('GrevmConfig')}
        rd = set().union(*[facts.owners(x) for x in readers - builders] or [set()]) | ({'from_env'} & {x.split('::')[-1] for x in builders})
        rd -= {'clone', 'eq', 'ne', 'fmt', 'hash'}
        ctx.ob('G1', 'config::' + fld, 'who-reads', rd <= allowed and len(rd) >= 2, f'readers {sorted(rd)}; allowed {sorted(allowed)}',
               what='scheduling knobs may influence only how work is scheduled (spawn count, path selection); a new reader is a new way for configuration to reach results')
    f = ctx.method('scheduler::Scheduler<DB>', 'parallel_execute_inner')
    bad = []
    rows = set()
    for p in feasible(f.paths()):
        fs = [a for a in p.events if a.kind == 'atom' and is_field(strip(a.d['term']), 'GrevmConfig.force_sequential')]
        mp = [a for a in p.events if a.kind == 'atom' and norm_cmp(a) and mentions_field(a.d['term'], 'GrevmConfig.min_parallel_txs')]
        seq = [e for e in p.events if e.kind == 'call' and norm_callee(e.d['callee']).endswith('::replay_uncommitted_suffix')]
        par = [e for e in p.events if e.kind == 'call' and e.d['callee'].startswith('std::thread::scope')]
        forced = bool(fs) and fs[0].d['outcome'] == 'true'
        small = bool(mp) and norm_cmp(mp[0])[0] in ('Lt',) and is_field(norm_cmp(mp[0])[1], 'Scheduler.block_size')
        if forced or small:
            rows.add('sequential')
            if not seq or par or seq[0].d['args'][1] != ('const', 'scheduler::ordered_commit::CommittedPrefixEnd::ZERO') and 'ZERO' not in show(seq[0].d['args'][1]):
                bad.append((p, 'sequential selection must replay the whole block from boundary ZERO'))
        else:
            rows.add('parallel')
            if not par and not [e for e in p.events if e.kind == 'ret' and e.d['value'][0] == 'call']:
                pass
    ctx.ob('G1', f, 'path-selection', rows == {'sequential', 'parallel'} and not bad, '; '.join(w for _, w in bad[:2]) + f' rows={sorted(rows)}', site=f.loc(f.b['lo']),
           what='force_sequential ∨ block_size < min_parallel_txs ⇒ the sequential path over the whole block, else the parallel pipeline; nothing else depends on these knobs')
    # concurrency_level parameter only sizes the worker set
    bad = []
    for p in feasible(f.paths()):
        for e in p.events:
            if e.kind == 'call' and any(strip(a) == ('arg', 2) or (a[0] == 'closure' and ('arg', 2) in a[2]) for a in e.d['args']):
                c = norm_callee(e.d['callee'])
                if not (c.endswith('Vec::with_capacity') or c.endswith('::into_iter') or 'thread::scope' in c):
                    bad.append(e)
    cls = ctx.facts.closures_under(f.name)
    # which captures of which closure carry the worker count (argument 2), whatever it is called
    carries = collections.defaultdict(set)
    for p in feasible(f.paths()):
        for e in p.events:
            for t in list(e.d.get('args', ())) + [e.d.get('value', ('unk', ''))]:
                if not isinstance(t, tuple):
                    continue
                for s_ in subterms(t):
                    if s_[0] == 'closure' and len(s_) > 3:
                        names = s_[3].split('\x1f') if s_[3] else []
                        for i, cap in enumerate(s_[2]):
                            if strip(cap) == ('arg', 2) and i < len(names):
                                carries[s_[1]].add(names[i])
    for c in cls:
        cf = ctx.fn(c)
        mine = {cf.upvar_names.get('upvar:' + n, n) for n in carries.get(c['fn'], ())}
        # closures nested in a carrying closure inherit the name
        for outer, ns in carries.items():
            if c['fn'].startswith(outer + '::'):
                mine |= {cf.upvar_names.get('upvar:' + n, n) for n in ns} | set(ns)
        for p in live(cf.paths()):
            for e in p.events:
                if e.kind == 'call' and any(a[0] == 'upvar' and a[1] in mine for a in e.d['args']):
                    cn = norm_callee(e.d['callee'])
                    if not (cn.endswith('Vec::with_capacity') or cn.endswith('::into_iter') or cn.endswith('::next')):
                        bad.append(e)
    ctx.ob('G1', f, 'concurrency-level-only-sizes-the-worker-set', not bad, '; '.join(short(e.d['callee']) for e in bad[:3]), site=f.loc(f.b['lo']),
           what='the worker count must not reach anything but the spawn loop')


def G2_path_sibling(ctx):
    """both execution paths drive the same handler with the same inputs"""
    ex = [b for b in ctx.facts.production() if b['fn'].endswith('>::execute_incarnation') and 'GrevmExecutor' in b['fn']]
    if len(ex) != 1:
        raise AnchorLost('GrevmExecutor::execute_incarnation')
    a = ctx.fn(ex[0])
    rf = ctx.method('scheduler::Scheduler<DB>', 'replay_uncommitted_suffix')
    cls = ctx.facts.closures_of(rf.name)

    def drive(fn, txid_pred, mode):
        out = []
        for p in feasible(fn.paths()):
            st = [e for e in p.events if e.kind == 'call' and e.d['callee'].endswith('::set_tx')]
            fp = calls(p, 'ReserveMode::from_planner')
            gh = calls(p, 'GrevmHandler::new')
            rn = calls(p, 'GrevmHandler::run')
            fin = [e for e in p.events if e.kind == 'call' and e.d['callee'].endswith('::finalize')]
            if not gh:
                continue
            ok = bool(st and fp and rn and fin) and idx_of(p, st[0]) < idx_of(p, rn[0]) < idx_of(p, fin[0])
            why = ''
            if ok:
                ok = txid_pred(fp[0].d['args'][0]) and 'reserve_planner' in show(fp[0].d['args'][1]) and gh[0].d['args'][0] == fp[0].d['result'] \
                    and variant_of(gh[0].d['args'][1]) == mode and rn[0].d['args'][0] == gh[0].d['result']
                if not ok:
                    why = f'from_planner({show(fp[0].d["args"][0])}, {show(fp[0].d["args"][1])[:40]}) mode={variant_of(gh[0].d["args"][1])}'
            out.append((ok, why))
        return out
    ra = drive(a, lambda t: is_field(strip(t), 'TxVersion.txid'), 'Deferred')
    ctx.ob('G2', a, 'parallel-path-drives-grevm-handler', ra and all(o for o, _ in ra), '; '.join(w for _, w in ra if w)[:200], site=a.loc(a.b['lo']),
           what='set_tx → GrevmHandler::new(ReserveMode::from_planner(own txid, planner), Deferred).run → finalize')
    rb = []
    for c in cls:
        rb += drive(ctx.fn(c), lambda t: strip(t) == ('arg', 2), 'Immediate')
    ctx.ob('G2', rf, 'sequential-path-drives-the-same-handler-with-global-txid', rb and all(o for o, _ in rb), '; '.join(w for _, w in rb if w)[:200], site=rf.loc(rf.b['lo']),
           what='the sequential path runs the same handler; the planner is queried with the ORIGINAL block index handed in by execute_sequential_suffix (not an index rebased at the replay start), and rewards are applied immediately')
    # both build through build_evm with the same inputs
    ge = ctx.method("scheduler::executor::GrevmExecutor<'a, DB>", 'new')
    okn = False
    for p in feasible(ge.paths()):
        be = calls(p, 'executor::build_evm')
        if be and be[0].d['args'][1:4] == (('arg', 2), ('arg', 3), ('arg', 4)) and is_field(strip(be[0].d['args'][4]), 'DelegatedSafetyConfig.forbid_delegated_create') and mentions(be[0].d['args'][4], ('arg', 5)):
            okn = True
    okr = False
    for p in feasible(rf.paths()):
        be = calls(p, 'executor::build_evm')
        if be:
            a_ = be[0].d['args']
            okr = is_field(strip(a_[1]), 'Scheduler.cfg') and is_field(strip(a_[2]), 'Scheduler.env') and mentions_field(a_[3], 'Scheduler.custom_precompiles') \
                and is_field(strip(a_[4]), 'DelegatedSafetyConfig.forbid_delegated_create') and mentions_field(a_[4], 'Scheduler.config')
    ctx.ob('G2', rf, 'both-paths-build-the-evm-through-build_evm', okn and okr, f'executor={okn} fallback={okr}', site=rf.loc(rf.b['lo']),
           what='same cfg/env/custom precompiles/forbid_delegated_create on both paths (workers differ only in the nonce-check flag, S1)')


def G3_sources(ctx):
    facts = ctx.facts
    def who(pred):
        return sorted({re.sub(r'::\{closure#\d+\}', '', b['fn']).split('::')[-1] + '@' + b['file'].split('/')[-1] for b, bl, t in facts.callers_of(pred) if not facts.is_test(b['fn'], b)})
    env = who(lambda c: c.startswith('std::env::var'))
    ctx.ob('G3', 'std::env::var', 'who-reads-the-environment', env == ['env_or@config.rs'], f'{env}', what='environment variables are read once, in GrevmConfig::from_env')
    ap = who(lambda c: 'available_parallelism' in c)
    ctx.ob('G3', 'available_parallelism', 'who-reads-the-core-count', ap == ['default@config.rs'], f'{ap}')
    # clock values must not decide anything except the stall warning
    bad = []
    n_clock = 0
    for b in facts.production():
        txt = json.dumps(b['blocks'])
        if 'std::time::Instant' not in txt:
            continue
        n_clock += 1
        f = facts.fn(b)
        try:
            ps = f.paths(budget=30000)
        except PathBudget:
            continue
        for p in ps:
            for a in p.events:
                if a.kind == 'atom' and ('Instant::elapsed' in show(a.d['term']) or 'Instant::now' in show(a.d['term'])):
                    if not ('STALL_TIMEOUT' in show(a.d['term']) and facts.owners(b['fn']) == {'run_finality_loop'}):
                        bad.append((b['fn'], a.line))
    ctx.count('G3.functions-reading-the-clock', n_clock)
    ctx.ob('G3', 'std::time::Instant', 'no-decision-depends-on-the-clock', n_clock >= 3 and not bad, f'{sorted(set(bad))[:4]}',
           what='clock values feed metrics, tracing and the stall warning only; a branch on elapsed time makes results timing-dependent')
    # unordered iteration sites
    sites = collections.Counter()
    for b in facts.production():
        if 'scheduler::metrics' in b['fn']:
            continue
        f = None
        for bl in b['blocks']:
            t = bl['term']
            if bl['cleanup'] or t['k'] != 'call':
                continue
            c = t['callee']
            g = t.get('generic', '')
            if re.search(r'::(iter|into_iter|keys|values|drain|iter_mut|values_mut)$', c) and re.search(r'(HashMap|HashSet|DashMap|AHashMap|AHashSet|hash_map|hash_set|AddressMap|hashbrown)', c + g):
                # a helper extracted after the pinned commit is accounted to the function(s) it was taken from
                for ob in sorted(facts.owner_bodies(b['fn'])):
                    sites[re.sub(r'::\{closure#\d+\}', '', ob).split('::')[-1] + '@' + facts.by[ob]['file'].split('/')[-1]] += 1
    table = {
        'execute_task@scheduler.rs': 'new write set: ∃-test; old write set: independent removals',
        'validate@scheduler.rs': 'read set: conflict is a disjunction, dependency a max',
        'latest_unfinalized_blocker@scheduler.rs': 'max',
        'mark_mv_estimate@scheduler.rs': 'independent marks',
        'publish_writes@incarnation_db.rs': 'independent map inserts keyed by location',
        'newly_created@parallel_state.rs': 'map → map collect',
        'change@parallel_state.rs': 'map → map collect',
        'as_cache_state@parallel_state.rs': 'map → map copy',
        'apply_evm_state_inner@parallel_state.rs': 'per-address transitions merged into a map',
        'apply_account_state@parallel_state.rs': 'filter/collect into a map',
        'update_storage_slot@parallel_state.rs': 'map inserts',
        'parallel_apply_transitions_and_create_reverts@bundle.rs': 'indexed vec → map inserts; revert list compared order-insensitively by revm',
        'remove@tx_dependency.rs': 'at most one successor is handed off; other releases are independent',
        'delegated_debits_since@reserve.rs': 'candidates consumed by an any() test',
        'commit@parallel_state.rs': 'delegates to apply_evm_state_inner',
    }
    new = sorted(k for k in sites if k not in table)
    ctx.count('G3.unordered-iteration-sites', sum(sites.values()))
    ctx.ob('G3', 'unordered iteration', 'every-site-has-an-order-insensitive-consumer', not new and sum(sites.values()) >= 12, f'sites {dict(sites)}; not in the table: {new}',
           what='iteration order of hash maps is process-random; every site must feed an order-insensitive consumer (table in rules_misc.py with the reason per site)')


# ------------------------------------------------------------------------------------------------ C05 locks

LOCK_FIELDS = [
    ('Scheduler.tx_states', 'TS'), ('Scheduler.tx_results', 'TR'), ('TxDependency.affect_txs', 'AF'), ('TxDependency.dependent_state', 'DS'),
    ('mv_memory', 'MV'), ('HistoryEntry.state', 'BH'), ('Scheduler.state', 'STATE'), ('Scheduler.results', 'RESULTS'),
    ('ParallelCacheState.accounts', 'C.accounts'), ('ParallelCacheState.storage', 'C.storage'), ('ParallelCacheState.contracts', 'C.contracts'),
    ('block_hashes', 'C.block_hashes'), ('ReservePlanner.schedules', 'RP.schedules'),
]


def lock_class(on):
    if on is None:
        return None
    s = show(on)
    for f, c in LOCK_FIELDS:
        if f.split('.')[-1] in s and any(x[0] == 'field' and x[2].endswith(f) for x in subterms(on)):
            return c
    # slot map inside cache.storage
    if any(x[0] == 'field' and x[2].endswith('ParallelCacheState.storage') for x in subterms(on)):
        return 'C.storage'
    return None


def L1_lock_order(ctx):
    facts = ctx.facts
    acq = collections.defaultdict(set)      # fn -> classes acquired directly
    held_calls = collections.defaultdict(list)  # fn -> [(held classes, callee, line)]
    direct_edges = collections.defaultdict(list)
    n_acq = 0
    for b in facts.production():
        if b['kind'] == 'promoted':
            continue
        txt = json.dumps(b['blocks'])
        if not any(k in txt for k in ('::lock', 'DashMap', 'dashmap', 'RwLock')):
            continue
        f = facts.fn(b)
        try:
            ps = f.paths(budget=60000)
        except PathBudget:
            continue
        for p in ps:
            if p.end == 'unreachable':
                continue
            for e in p.events:
                if e.kind == 'acquire':
                    c = lock_class(e.d['on'])
                    if c is None:
                        continue
                    n_acq += 1
                    acq[b['fn']].add(c)
                    for g in e.held:
                        if g == e.d['guard']:
                            continue
                        hc = lock_class(g[1])
                        if hc:
                            same_obj = strip(g[1]) == strip(e.d['on']) if g[1] is not None else False
                            direct_edges[(hc, c)].append((b['fn'], e.line, same_obj, g[0], e.d['cls']))
                if e.kind == 'call' and e.held and re.search(r'DashMap(::<[^>]*>)?::\w+$', e.d['callee']) and e.d['args']:
                    c = lock_class(e.d['args'][0])
                    for g in e.held:
                        hc = lock_class(g[1])
                        if c and hc == c and g[1] is not None and strip(g[1]) == strip(e.d['args'][0]) and g[0].startswith('dashmap') \
                                and not (e.d.get('result') is not None and any(gg[2] == (e.bb,) for gg in [g])):
                            direct_edges[(hc, c)].append((b['fn'], e.line, True, g[0], 'dashmap-call:' + e.d['callee'].split('::')[-1]))
                if e.kind == 'acquire':
                    pass
                elif e.kind == 'call' and e.held:
                    hcs = {lock_class(g[1]) for g in e.held} - {None}
                    if hcs:
                        tg = [e.d['callee']] + [s[1] for a in e.d['args'] for s in subterms(a) if s[0] == 'closure']
                        for t in tg:
                            if t in facts.by:
                                held_calls[b['fn']].append((frozenset(hcs), t, e.line))
    # transitive acquisitions
    cg = facts.callgraph()
    memo = {}

    def trans(fn, seen=()):
        if fn in memo:
            return memo[fn]
        if fn in seen:
            return set()
        r = set(acq.get(fn, ()))
        for c in cg.get(fn, ()):
            if c in facts.by:
                r |= trans(c, seen + (fn,))
        memo[fn] = r
        return r
    edges = collections.defaultdict(list)
    for (a, c), v in direct_edges.items():
        edges[(a, c)] += [(fn, line) for fn, line, so, gk, ck in v]
    for fn, lst in held_calls.items():
        for hcs, callee, line in lst:
            for c in trans(callee):
                for h in hcs:
                    edges[(h, c)].append((fn, line))
    ctx.count('L1.acquisitions', n_acq)
    graph = collections.defaultdict(set)
    for (a, c) in edges:
        if a != c:
            graph[a].add(c)
    # cycle detection among distinct classes
    cyc = []
    color = {}

    def dfs(u, stack):
        color[u] = 1
        for v in graph.get(u, ()):
            if color.get(v) == 1:
                cyc.append(stack[stack.index(v):] + [v] if v in stack else [u, v])
            elif color.get(v) is None:
                dfs(v, stack + [v])
        color[u] = 2
    for u in list(graph):
        if color.get(u) is None:
            dfs(u, [u])
    ctx.ob('L1', 'lock classes', 'anchor:acquisition-sites', n_acq >= 30 and len(edges) >= 8, f'{n_acq} acquisition events, {len(edges)} nesting edges: {sorted(k[0] + "→" + k[1] for k in edges)}')
    ctx.ob('L1', 'lock classes', 'no-cycle-through-distinct-classes', not cyc,
           '; '.join(' → '.join(c) + ' e.g. at ' + str(edges[(c[0], c[1])][0]) for c in cyc[:3]),
           what='a cycle in the nested-acquisition graph between different lock classes is a deadlock waiting for the right interleaving')
    # L2: DashMap self re-entrancy (same map class acquired while a guard of that map is live)
    self_edges = []
    for (a, c), v in direct_edges.items():
        if a == c and a.startswith(('C.', 'MV', 'RP.')):
            for fn, line, same_obj, gk, ck in v:
                # a guard on a slot map (inner DashMap of cache.storage) under a guard of the outer map is fine: different maps
                if same_obj:
                    self_edges.append((fn, line, a))
    for fn, lst in held_calls.items():
        for hcs, callee, line in lst:
            for h in hcs:
                if h.startswith(('C.', 'MV', 'RP.')) and h in trans(callee) and h != 'C.storage':
                    self_edges.append((fn, line, h + ' via ' + callee.split('::')[-1]))
    ctx.ob('L2', 'dashmap', 'no-guard-live-across-reentrant-access', not self_edges, '; '.join(f'{fn.split("::")[-1]}:{line} {c}' for fn, line, c in self_edges[:4]),
           what='taking a second guard on the same DashMap while one is live self-deadlocks when both keys fall into one shard')
    # TS of two different indices never nested
    ts_nested = [(fn, line) for (a, c), v in direct_edges.items() if a == 'TS' and c == 'TS' for fn, line, so, gk, ck in v]
    # ... nor across a call whose callee (transitively) locks a tx_states entry
    ts_call_sites = set()
    for fn, lst in held_calls.items():
        for hcs, callee, line in lst:
            if 'TS' in hcs:
                ts_call_sites.add((fn, line, callee))
                if 'TS' in trans(callee) and (fn, line, 'via ' + callee.split('::')[-1]) not in ts_nested:
                    ts_nested.append((fn, line, 'via ' + callee.split('::')[-1]))
    n_ts_calls = len(ts_call_sites)
    ctx.count('L2.calls-under-a-transaction-lock', n_ts_calls)
    ctx.ob('L2', 'TS', 'one-transaction-lock-at-a-time', not ts_nested and n_ts_calls >= 10, f'{ts_nested[:3]}; {n_ts_calls} calls to crate functions under a tx_states guard examined',
           what='no function holds two tx_states locks at once, directly or through a callee (there is no global order among them; the same index would self-deadlock)')

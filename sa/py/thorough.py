"""Thorough tier: (1) facts re-exported with `--features test-utils` and every analysed production
function compared with the default-feature export (no feature-dependent divergence); (2) both-ways
self-test of this property's rules on scratch copies of the current tree; (3) rule families that are
too slow for the quick tier (compile-fail witnesses) are run by check.py through `thorough_rules`."""
import json, os, time
import core, mirlib


def strip_lines(x):
    if isinstance(x, dict):
        return {k: strip_lines(v) for k, v in x.items() if k not in ('line', 'lo', 'hi')}
    if isinstance(x, list):
        return [strip_lines(v) for v in x]
    if isinstance(x, str) and 'alloc' in x:
        import re
        return re.sub(r'alloc\d+', 'alloc', x)
    return x


def feature_independence(ctx):
    t0 = time.time()
    try:
        fp = core.export_facts(features='test-utils', tag='testutils')
    except core.AnalysisFailed as e:
        ctx.ob('FEAT', 'cargo check --features test-utils', 'export', False, str(e)[:300])
        return {'feature_export_s': round(time.time() - t0, 1)}
    f2 = mirlib.Facts(fp)
    diff = []
    n = 0
    for name in sorted(ctx.functions):
        a = ctx.facts.by.get(name)
        b = f2.by.get(name)
        if a is None or a['kind'] == 'ext':
            continue
        n += 1
        if b is None:
            diff.append(name + ' (missing with test-utils)')
        elif json.dumps(strip_lines(a['blocks']), sort_keys=True) != json.dumps(strip_lines(b['blocks']), sort_keys=True):
            diff.append(name)
    ctx.ob('FEAT', 'features', 'analysed-functions-identical-with-test-utils', n >= 1 and not diff,
           f'{n} functions compared; differing: {diff[:5]}',
           what='the analysed production code must not depend on the test-utils feature, otherwise the default-feature facts do not describe what the integration tests exercise')
    return {'feature_export_s': round(time.time() - t0, 1), 'functions_compared_across_features': n}


def selftest(ctx):
    """both-ways self-test of this property's cases, run by child processes (the rules are CPU-bound Python), each with its own
    copy of the dependency cache; VERIF_SEED only rotates the order"""
    import mutants, subprocess, sys
    cases = [c for c in mutants.CASES if ctx.prop in c['props']]
    seed = ctx.seed
    if cases:
        k = seed % len(cases)
        cases = cases[k:] + cases[:k]
    res = {'detected': 0, 'silent': 0, 'MISSED': [], 'FALSE-ALARM': [], 'skipped': [], 'does-not-compile': []}
    samples = []
    if not cases:
        return res, samples, 0
    jobs = min(8, len(cases))
    here = os.path.dirname(os.path.abspath(__file__))
    r = subprocess.run([sys.executable, os.path.join(here, 'selftest.py'), '-j', str(jobs), '--prop', ctx.prop] + [c['name'] for c in cases], capture_output=True, text=True)
    kinds = {c['name']: c['kind'] for c in cases}
    seen = set()
    for line in r.stdout.splitlines():
        parts = line.split(None, 4)
        if len(parts) >= 4 and parts[2] in kinds and parts[0] in ('detected', 'silent', 'MISSED', 'FALSE-ALARM', 'skipped', 'does-not-compile'):
            verdict, name = parts[0], parts[2]
            seen.add(name)
            why = parts[4] if len(parts) > 4 else ''
            if verdict in ('detected', 'silent'):
                res[verdict] += 1
                if len(samples) < 4:
                    samples.append({'case': name, 'kind': kinds[name], 'verdict': verdict})
            else:
                res[verdict].append(name + ': ' + why[:160])
    for c in cases:
        if c['name'] not in seen:
            res['MISSED' if c['kind'] == 'mutant' else 'FALSE-ALARM'].append(c['name'] + ': no verdict (self-test worker failed: ' + r.stderr[-200:].replace('\n', ' ') + ')')
    return res, samples, len(cases)


def run(ctx, spec):
    extra = {}
    extra.update(feature_independence(ctx))
    base_clean = all(o.ok for o in ctx.obs)
    if base_clean:
        t0 = time.time()
        res, samples, n = selftest(ctx)
        extra['selftest'] = {'cases': n, 'mutants_detected': res['detected'], 'benign_silent': res['silent'], 'missed': res['MISSED'], 'false_alarms': res['FALSE-ALARM'],
                             'skipped_edit_did_not_apply': res['skipped'], 'does_not_compile': res['does-not-compile'], 'wall_s': round(time.time() - t0, 1), 'samples': samples}
        if res['MISSED'] or res['FALSE-ALARM']:
            ctx.selftest_failed = res
    else:
        extra['selftest'] = {'skipped': 'the current tree already violates an obligation; mutants are only meaningful on a clean base'}
    return extra

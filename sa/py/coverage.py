#!/usr/bin/env python3
"""list the production bodies of the current tree that no rule of any property looks at (blind spots)"""
import sys, os, re
sys.path.insert(0, os.path.dirname(os.path.abspath(__file__)))
import core, mirlib, props

fp = core.export_facts()
facts = mirlib.Facts(fp)
cov = set()
for pid in sorted(props.PROPS):
    ctx = core.Ctx(pid, facts, 'quick', 0, fp)
    ctx.skip_rules = set(props.PROPS[pid].get('skip_rules', ()))
    for rule in props.PROPS[pid]['rules']:
        ctx.guarded(rule.__name__, rule.__module__, lambda: rule(ctx))
    cov |= ctx.functions
un = []
for name, b in sorted(facts.by.items()):
    if b.get('kind') == 'ext' or name in cov:
        continue
    if re.search(r' as std::(fmt|clone|cmp|default|hash|marker)', name) or 'metrics::' in name or '::tests::' in name or 'test_utils' in name:
        continue
    if '{closure' in name or 'promoted' in name or '{constant' in name:
        root = name.split('::{')[0]
        if root in cov:
            continue
    un.append((b.get('file', ''), name, len(b.get('blocks', []))))
for f, n, k in un:
    print(f'{k:4d} {f:40s} {n}')
print(len(un), 'uncovered bodies;', len(cov), 'covered')

#!/usr/bin/env python3
"""regenerate /verif/MANIFEST.json from the rule registry (props.py)"""
import json, os, sys
sys.path.insert(0, os.path.dirname(os.path.abspath(__file__)))
import props

ALL = ['C%02d' % i for i in range(1, 18)]
checks = []
for pid in ALL:
    if pid not in props.PROPS:
        continue
    sp = props.PROPS[pid]
    checks.append({
        'property_id': pid,
        'quick_cmd': f'./check {pid}',
        'thorough_cmd': f'./check {pid} --thorough',
        'evidence_file': f'/verif/evidence/{pid}.json',
        'replay_cmd_template': './check --replay {path}',
        'engine': 'sa',
        'level_claimed': {'category': sp['level'], 'text': sp['claim'], 'design_ref': sp.get('design_ref', 'DESIGN.md section 4, ' + pid)},
        'level_note': sp.get('level_note', 'Trusted: rustc MIR of the current tree, Rust/C11 memory model, std/parking_lot/dashmap/revm semantics, and the hand argument of DESIGN.md section 2 that links the decided structural obligations to the behaviour. User databases/precompiles are outside the analysed program.'),
        'technique': sp.get('technique', 'static analysis: custom rustc_private MIR exporter + path-sensitive rules (order/presence, decision tables, who-may, lock classes, atomics table) over the type-checked program'),
    })
na = [{'property_id': pid, 'reason': props.NOT_APPLICABLE.get(pid, 'check not built yet in this session (see DESIGN.md section 4 for the planned static rules)')}
      for pid in ALL if pid not in props.PROPS]
m = {
    'version': 1,
    'setup_cmd': 'python3 /verif/sa/py/setup.py',
    'hooks': {
        'guard': 'galxe_grevm_verif',
        'enable': 'none needed: the static analysis reads the type-checked program (cargo +nightly check with the fact-exporting driver as RUSTC_WORKSPACE_WRAPPER); the guard name is declared but unused',
        'baseline_off_cmd': 'cd /repo && cargo test --workspace --no-fail-fast --offline',
        'source_commits': [],
        'add_only': True,
    },
    'engines': [
        {'name': 'sa', 'path': '/verif/sa', 'serves_properties': [c['property_id'] for c in checks],
         'kind_free_text': 'rustc_private MIR fact exporter (sa/driver) + Python rule engines (sa/py): path-sensitive symbolic walk, order/presence templates, decision tables, who-may tables, atomics minimum-ordering table, lock classes, sibling agreement with revm MIR, compile-fail witnesses; both-ways self-test on scratch copies in the thorough tier'},
    ],
    'checks': checks,
    'not_applicable': na,
    'notes': 'All checks decide structural necessary conditions from the source (MIR of the current /repo tree) without running grevm code. Except for C14 (proof), the behavioural property as a whole is NOT claimed; each level_claimed.text names the decided clauses. Known findings: /verif/known_findings.txt.',
}
json.dump(m, open(os.path.join(os.path.dirname(__file__), '..', '..', 'MANIFEST.json'), 'w'), indent=1)
print('MANIFEST.json written:', len(checks), 'checks,', len(na), 'not applicable')

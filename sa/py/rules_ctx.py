"""Rules over context.rs / cursor.rs / control.rs / wait.rs: atomics table (E5), cursor and frontier
tables (C15), one-shot execution (C14), notifications (C17), cancellation and the panic path (C05)."""
import json
import core
from ru import *

ORD_RANK = {'Relaxed': 0, 'Acquire': 1, 'Release': 1, 'AcqRel': 2, 'SeqCst': 3}


def at_least(o, need):
    if need == 'Relaxed':
        return True
    if need == 'Acquire':
        return o in ('Acquire', 'AcqRel', 'SeqCst')
    if need == 'Release':
        return o in ('Release', 'AcqRel', 'SeqCst')
    return o == need


def short_fn_name(n):
    return norm_callee(n).split('::')[-1]


def atomic_sites(facts):
    """[(fn body, block, term, op, [orderings], receiver-field)] for production atomic ops outside metrics"""
    out = []
    for b in facts.production():
        if 'scheduler::metrics' in b['fn']:
            continue
        for bl in b['blocks']:
            if bl['cleanup']:
                continue
            t = bl['term']
            if t['k'] != 'call':
                continue
            c = t['callee']
            if not ('std::sync::atomic::Atomic' in c or 'RewindableAtomic::' in c):
                continue
            op = c.split('::')[-1]
            if op in ('new', 'default', 'into_inner', 'get_mut', 'fmt'):
                continue
            ords = [a['v'].split('::')[-1] for a in t['args'] if a['k'] == 'const' and 'Ordering' in a.get('ty', '')]
            out.append((b, bl, t, op, ords))
    return out


# (function suffix, op) -> (minimum ordering of the first ordering argument, id, why)
ATOMIC_MIN = {
    ('SchedulerContext::rewind_validation_to', 'fetch_add', 'logical_clock'): ('Release', 'A1', 'publishes the writes/marks sequenced before the tick to validators that take a later tick'),
    ('SchedulerContext::logical_timestamp', 'fetch_add', 'logical_clock'): ('Acquire', 'A2', 'the scan must see everything sequenced before an earlier tick'),
    ('PublishedCursor::publish', 'store', '0'): ('Release', 'A3/A5', 'commit takes TR[i] / key_tx trusts the committed prefix only after the publication is visible'),
    ('PublishedCursor::get', 'load', '0'): ('Acquire', 'A4', 'reader side of the finality/commit cursor publication'),
}

# protocol atomic fields -> allowed write kinds (A6)
ATOMIC_KINDS = {
    'SchedulerContext.logical_clock': ({'fetch_add'}, 'ticks must be unique and increasing'),
    'SchedulerContext.lower_timestamps': ({'fetch_max'}, 'two issuers (m and m+1) write lower[m+1]; a store could lower it'),
    'SchedulerContext.unconfirmed_timestamps': ({'fetch_max', 'store'}, 'single writer under TS[i]'),
    'SchedulerContext.validation_resets': ({'fetch_add', 'store'}, 'metric'),
    'ExecutionFrontier.frontier': ({'fetch_max'}, 'the frontier only rises; a store can move it backwards past a concurrent helper'),
    'ExecutionFrontier.executed': ({'store'}, 'flag set once'),
    'TxDependency.index': ({'fetch_add', 'fetch_min'}, 'claim = fetch_add(1), rewind = fetch_min; a store loses a concurrent rewind'),
    'Scheduler.started': ({'compare_exchange'}, 'strong CAS elects exactly one caller'),
    'Scheduler.abort': ({'store'}, 'flag'),
    'RewindableCursor.0': ({'fetch_min', 'compare_exchange_weak', 'compare_exchange'}, 'rewind = fetch_min, claim = CAS(cur,cur+1)'),
    'PublishedCursor.0': ({'store'}, 'single publisher'),
}
WRITE_OPS = {'store', 'swap', 'fetch_add', 'fetch_sub', 'fetch_max', 'fetch_min', 'fetch_or', 'fetch_and', 'fetch_xor',
             'compare_exchange', 'compare_exchange_weak', 'fetch_update', 'fetch_nand'}


_RF = {}


def site_info(facts, b, t):
    """(receiver field, [ordering names]) of an atomic call site, evaluated on a path through it"""
    key = (id(facts), b['fn'], t_bb(b, t))
    if key in _RF:
        return _RF[key]
    f = facts.fn(b)
    res = (None, [])
    for p in f.paths(budget=5000, max_visits=3):
        for e in p.events:
            if e.kind == 'call' and e.bb == key[2] and e.d['args']:
                r = e.d['args'][0]
                fields = [s[2] for s in subterms(r) if s[0] == 'field']
                ords = []
                for a in e.d['args'][1:]:
                    if a[0] == 'agg' and a[1].endswith('atomic::Ordering'):
                        ords.append(a[2])
                    elif a[0] == 'const' and 'Ordering::' in a[1]:
                        ords.append(a[1].split('::')[-1])
                    elif a[0] == 'arg' and 'Ordering' in f.lty.get(a[1], ''):
                        ords.append('<param>')
                res = (fields[0] if fields else show(r), ords)
                _RF[key] = res
                return res
    _RF[key] = res
    return res


def receiver_field(facts, b, t):
    return site_info(facts, b, t)[0]


def t_bb(b, t):
    for bl in b['blocks']:
        if bl['term'] is t:
            return bl['bb']
    return -1


def A_atomics(ctx):
    facts = ctx.facts
    sites = atomic_sites(facts)
    ctx.count('A.atomic-sites', len(sites))
    # the floor is on distinct (field, operation) pairs, not on call sites: extracting the five `index.fetch_min` sites
    # into one helper is the same protocol (24 pairs counted on the pinned tree; 35 sites were read)
    pairs = {((site_info(facts, b, t)[0] or '?').split('::')[-1], op) for b, bl, t, op, _ in sites}
    ctx.ob('A', 'atomics', 'anchor:site-count', len(pairs) >= 24, f'{len(sites)} production atomic sites outside metrics, {len(pairs)} distinct (field, operation) pairs (24 on the pinned tree)')
    seen_min = set()
    cg = facts.callgraph()
    for b, bl, t, op, ords0 in sites:
        fn = b['fn']
        recv, ords = site_info(facts, b, t)
        recv = recv or '?'
        rshort = recv.split('::')[-1]
        ctx.functions.add(fn)
        for (fsuf, fop, fld), (need, rid, why) in ATOMIC_MIN.items():
            here = norm_callee(fn).endswith(fsuf)
            # the operation may sit in a function the listed one calls (an accessor reused, a helper extracted): the
            # minimum ordering then binds that site too
            via = not here and op == fop and rshort.endswith(fld) and any(
                norm_callee(c).endswith(fsuf) and (fn in cg.get(c, ()) or any(fn in cg.get(d, ()) for d in cg.get(c, ()) if d in facts.by))
                for c in facts.by if facts.by[c]['kind'] in ('fn', 'assoc'))
            if (here or via) and op == fop and rshort.endswith(fld):
                seen_min.add((fsuf, fop, fld))
                ok = bool(ords) and at_least(ords[0], need)
                ctx.ob(rid, fn if here else fsuf, f'{op}({rshort})>={need}', ok, f'ordering {ords} at {b["file"]}:{t["line"]}' + ('' if here else f' (reached from {fsuf} through {short_fn_name(fn)})'),
                       site=f'{b["file"]}:{t["line"]}', what=why)
        # kinds
        if op in WRITE_OPS:
            key = None
            for k in ATOMIC_KINDS:
                if rshort == k or recv.endswith(k):
                    key = k
            if key:
                allowed, why = ATOMIC_KINDS[key]
                ctx.ob('A6', fn, f'{key}:{op}', op in allowed, f'write kind `{op}` on {key} at {b["file"]}:{t["line"]}; allowed {sorted(allowed)}',
                       site=f'{b["file"]}:{t["line"]}', what=why)
    for k in ATOMIC_MIN:
        if k not in seen_min:
            ctx.ob(ATOMIC_MIN[k][1], k[0], f'anchor:{k[1]}({k[2]})', False, 'listed atomic site not found (anchor lost)')
    # the trait forwarding impl must forward its ordering parameters
    for b, bl, t, op, ords0 in sites:
        if 'as scheduler::cursor::RewindableAtomic>' in b['fn']:
            ords = [o for o in site_info(facts, b, t)[1] if o != '<param>']
            ctx.ob('A6', b['fn'], 'forwards-orderings', not ords, f'constant orderings {ords} in the forwarding impl', site=f'{b["file"]}:{t["line"]}',
                   what='claim_before chooses the orderings; the forwarding impl must not replace them')


def U1_claim_before(ctx):
    f = ctx.fn('scheduler::cursor::claim_before')
    ps = feasible(f.paths())
    bad = []
    n_some = 0
    for p in ps:
        ret = [e for e in p.events if e.kind == 'ret'][0].d['value']
        if ret[0] == 'agg' and ret[2] == 'Some':
            n_some += 1
            cur = ret[3][0]
            ok = cur[0] == 'call' and callee_matches(cur[1], '::load')
            cas = [e for e in p.events if e.kind == 'call' and callee_matches(e.d['callee'], ('::compare_exchange_weak', '::compare_exchange'))]
            ok = ok and cas and cas[-1].d['args'][1] == cur and is_add1(cas[-1].d['args'][2], cur)
            # success decided
            # the CAS on the value just loaded SUCCEEDED (however tested: is_ok / is_err / match)
            succ = [of for of in (option_fact(a) for a in p.events) if of and strip(of[0]) == strip(cas[-1].d['result'])] if cas else []
            ok = ok and bool(succ) and succ[-1][1] == 'Ok'
            ok = ok and holds_rel(p, len(p.events), lambda op, l, r: op == 'Lt' and l == strip(cur) and r == ('arg', 2))
            if not ok:
                bad.append(p)
        else:
            # None only when current >= limit
            last = [a for a in p.events if a.kind == 'atom'][-1]
            n = norm_cmp(last)
            if not (n and ((n[0] == 'Ge' and n[2] == ('arg', 2)) or (n[0] == 'Le' and n[1] == ('arg', 2)))):
                bad.append(p)
    ctx.ob('U1', f, 'claim-table', n_some >= 1 and not bad, f'{len(bad)} deviating path(s)', site=f.loc(f.b['lo']),
           what='Some(c) ⇔ c < limit ∧ CAS(c → c+1) succeeded on the value just loaded; None only when the cursor is at/after the limit (no index at or beyond the limit is handed out, none is skipped)')


    # the production implementation of the cursor abstraction forwards to the std atomic unchanged
    fw = [b for b in ctx.facts.production() if b['kind'] == 'assoc' and 'RewindableAtomic' in b['fn'] and b['fn'].startswith('<std::sync::atomic::') and ' as ' in b['fn']]
    badf = []
    for b in fw:
        g = ctx.fn(b)
        m = b['fn'].split('::')[-1]
        for p in feasible(g.paths()):
            cs = [e for e in p.events if e.kind == 'call' and 'std::sync::atomic' in e.d['callee'] and e.d['callee'].endswith('::' + m)]
            ret = [e for e in p.events if e.kind == 'ret'][0].d['value']
            if len(cs) != 1 or [strip(a) for a in cs[0].d['args']] != [('arg', i + 1) for i in range(g.b['argc'])] or strip(ret) != strip(cs[0].d['result']):
                badf.append(core.short_fn(b['fn']))
    if fw:
        ctx.ob('U1', fw[0]['fn'], 'cursor-abstraction-forwards-unchanged', len(fw) >= 2 and not badf, '; '.join(sorted(set(badf))), site=ctx.fn(fw[0]).loc(fw[0]['lo']),
               what='claim_before is written against a small atomic trait; its implementation for AtomicUsize passes (current, new, success, failure) through in that order and returns the result')


def U2_rewind(ctx):
    f = ctx.method('SchedulerContext', 'rewind_validation_to')
    ps = feasible(f.paths())
    bad = []
    n = 0
    for p in ps:
        ticks = [e for e in p.events if e.kind == 'call' and ((callee_matches(e.d['callee'], '::fetch_add') and mentions_field(e.d['args'][0], 'logical_clock'))
                                                             or is_call(e, 'SchedulerContext::logical_timestamp'))]
        lows = [e for e in p.events if e.kind == 'call' and callee_matches(e.d['callee'], '::fetch_max') and mentions_field(e.d['args'][0], 'lower_timestamps')]
        rws = [e for e in p.events if is_call(e, 'RewindableCursor::rewind')]
        in_range = holds_rel(p, len(p.events), lambda op, l, r: op == 'Lt' and l == ('arg', 2) and mentions_field(r, 'num_txs'))
        if not ticks and not lows and not rws:
            if in_range:
                bad.append(p)
            continue
        n += 1
        ok = len(ticks) == 1 and len(lows) == 1 and len(rws) == 1
        if ok:
            ok = lows[0].d['args'][1] == ticks[0].d['result'] and rws[0].d['args'][1] == ('arg', 2)
            recv = lows[0].d['args'][0]
            ok = ok and recv[0] == 'call' and recv[1].endswith('::index') and recv[2][1] == ('arg', 2)
            ok = ok and mentions_field(rws[0].d['args'][0], 'SchedulerContext.validation')
        if not ok:
            bad.append(p)
    ctx.ob('U2', f, 'rewind-effects', n >= 1 and not bad, f'{len(bad)} deviating path(s)', site=f.loc(f.b['lo']),
           what='an in-range rewind takes exactly one tick, raises lower[index] to that tick and lowers the validation cursor to index (their mutual order is immaterial, N7)')


def U3_frontier(ctx):
    f = ctx.method('ExecutionFrontier', 'publish')
    bad = []
    n = 0
    for p in feasible(f.paths()):
        st = [e for e in p.events if e.kind == 'call' and callee_matches(e.d['callee'], '::store') and mentions_field(e.d['args'][0], 'ExecutionFrontier.executed')]
        if not st:
            # allowed only when index < frontier
            if not holds_rel(p, len(p.events), lambda op, l, r: op == 'Lt' and l == ('arg', 2) and has_call(r, '::load')):
                bad.append(p)
            continue
        n += 1
        i = idx_of(p, st[0])
        ok = st[0].d['args'][1] == ('const', 'true') and st[0].d['args'][0][2][1] == ('arg', 2)
        # reload after the store decides the advance
        loads_after = [e for e in p.events[i:] if e.kind == 'call' and callee_matches(e.d['callee'], '::load') and mentions_field(e.d['args'][0], 'ExecutionFrontier.frontier')]
        adv = [e for e in p.events[i:] if is_call(e, 'ExecutionFrontier::advance')]
        eq = [a for a in p.events[i:] if a.kind == 'atom' and norm_cmp(a) and norm_cmp(a)[0] in ('Eq', 'Ne', 'Le', 'Ge', 'Lt', 'Gt') and loads_after and mentions(a.d['term'], loads_after[0].d['result'])]
        if not loads_after:
            ok = False
        elif eq:
            rel = norm_cmp(eq[0])
            at_frontier = rel[0] in ('Eq', 'Le', 'Ge')
            if at_frontier and not adv:
                ok = False
        elif not adv:
            ok = False
        if not ok:
            bad.append(p)
    ctx.ob('U3', f, 'publish-table', n >= 2 and not bad, f'{len(bad)} deviating path(s)', site=f.loc(f.b['lo']),
           what='executed[index]:=true, then the frontier is RE-read; index == frontier ⇒ advance (using the value loaded before the store leaves a filled gap unadvanced: stall)')
    g = ctx.method('ExecutionFrontier', 'advance')
    bad = []
    n = 0
    for p in live(g.paths(max_visits=3)) + [p for p in g.paths(max_visits=3) if p.end == 'cut']:
        for e in p.events:
            if e.kind == 'call' and mentions_field(e.d['args'][0] if e.d['args'] else ('unk', ''), 'ExecutionFrontier.frontier') and e.d['callee'].split('::')[-1] in WRITE_OPS:
                n += 1
                if not callee_matches(e.d['callee'], '::fetch_max'):
                    bad.append(e)
                # the published end only passes indices whose executed flag was read true
                end = e.d['args'][1]
                base, k = lin(end)
                sb, sk = lin(('arg', 2))
                # count executed==true atoms before
                i = idx_of(p, e)
                trues = [a for a in p.events[:i] if a.kind == 'atom' and a.d['term'][0] == 'call' and callee_matches(a.d['term'][1], '::load')
                         and mentions_field(a.d['term'][2][0], 'ExecutionFrontier.executed') and a.d['outcome'] == 'true']
                if base is not None and strip(base) == ('arg', 2) and k > len(trues):
                    bad.append(e)
    ctx.ob('U3', g, 'advance-only-over-executed', n >= 1 and not bad, '; '.join(site(g, e) for e in bad[:3]), site=g.loc(g.b['lo']),
           what='the frontier rises with fetch_max and only across indices whose executed flag was observed set')
    # who sets executed flags
    w = set()
    for b, bl, t, op, ords in atomic_sites(ctx.facts):
        if op in WRITE_OPS:
            r = receiver_field(ctx.facts, b, t) or ''
            if r.endswith('ExecutionFrontier.executed'):
                w |= ctx.facts.owners(b['fn'])
    ctx.ob('U3', 'ExecutionFrontier.executed', 'who-sets-executed', w == {'publish'}, f'writers {sorted(w)}')
    # next_validation_idx: limit = min(executing_idx, frontier)
    h = ctx.method('SchedulerContext', 'next_validation_idx')
    bad = []
    for p in feasible(h.paths()):
        cl = calls(p, 'RewindableCursor::claim_before')
        if len(cl) != 1:
            bad.append(p)
            continue
        lim = cl[0].d['args'][1]
        ok = lim[0] == 'call' and callee_matches(lim[1], ('Ord::min', 'cmp::min')) and ('arg', 2) in [strip(x) for x in lim[2]] \
            and any(has_call(x, 'ExecutionFrontier::current') for x in lim[2])
        if not ok:
            # the same minimum spelled as a branch: the chosen bound is shown to be <= the other one on this path
            is_fr = lambda t: t[0] == 'call' and callee_matches(t[1], 'ExecutionFrontier::current')
            sl = strip(lim)
            if sl == ('arg', 2):
                ok = holds_rel(p, idx_of(p, cl[0]), lambda op, l, r: op in ('Le', 'Lt', 'Eq') and l == ('arg', 2) and is_fr(r))
            elif is_fr(sl):
                ok = holds_rel(p, idx_of(p, cl[0]), lambda op, l, r: op in ('Le', 'Lt', 'Eq') and is_fr(l) and r == ('arg', 2))
        if not ok:
            bad.append(p)
    ctx.ob('U3', h, 'validation-limit', not bad, f'{len(bad)} deviating path(s)', site=h.loc(h.b['lo']),
           what='validation claims are limited by min(execution cursor, first-unexecuted frontier): an index that has not completed an execution is never validated')


# ------------------------------------------------------------------------------------------------ C14


def _started_users(facts):
    users = set()
    for b in facts.production():
        for bl in b['blocks']:
            if bl['cleanup']:
                continue
            for st in bl['stmts']:
                if 'scheduler::Scheduler.started' in json.dumps(st):
                    users.add(b['fn'])
    return users


def _cas_verdict(a):
    t, o = a.d['term'], a.d['outcome']
    neg = False
    while t[0] == 'un' and t[1] == 'Not':
        t, neg = t[2], not neg
    if t[0] == 'call' and o in ('true', 'false'):
        b = (o == 'true') != neg
        if callee_matches(t[1], 'Result::is_err'):
            return 'lost' if b else 'won'
        if callee_matches(t[1], 'Result::is_ok'):
            return 'won' if b else 'lost'
        return None
    if o in ('Continue', 'Ok'):
        return 'won'
    if o in ('Break', 'Err'):
        return 'lost'
    return None


def O_guard_form(ctx):
    """the same election stated on the entry points themselves, for a tree where the elected work is not a closure handed to
    `run_once` but follows a call of an election function (`let guard = self.begin()?; work`): on every path of every public entry
    point, anything that can reach results / state / thread spawning comes after the success edge of the one strong CAS false->true"""
    facts = ctx.facts
    users = _started_users(facts)
    owners = set()
    for u in users:
        owners |= facts.owners(u)
    ctx.ob('O3', 'Scheduler.started', 'who-touches-started', len(users) == 1, f'functions referencing Scheduler.started: {sorted(owners)}',
           what='one election function; any other writer could re-arm the scheduler')
    if len(users) != 1:
        return
    elect = next(iter(users))
    ef = ctx.fn(elect)
    touchers = set()
    for b in facts.production():
        txt = json.dumps(b['blocks'])
        if 'scheduler::Scheduler.results' in txt or 'scheduler::Scheduler.state' in txt or 'std::thread::scope' in txt:
            touchers.add(b['fn'])
    work = set()
    for b in facts.production():
        if b['fn'] == elect:
            continue
        if b['fn'] in touchers or (facts.reach(b['fn']) & touchers):
            work.add(b['fn'])
    pubs = [b for b in facts.production() if b['kind'] == 'assoc' and b['reachable'] and 'scheduler::Scheduler<DB>' in b['self_ty'] and b['vis'] == 'Public']
    ctx.count('O1.public-entry-points', len(pubs))
    work -= {b['fn'] for b in pubs if not b['fn'].endswith('::take_result_and_state')}   # an entry point calling another entry point: that one is checked itself
    bad, n_exec, n_rej, via = [], 0, 0, set()
    msg_ok = False
    for b in [facts.by[elect]] + pubs:
        name = b['fn']
        if name.endswith('::take_result_and_state'):
            continue
        fn = ctx.fn(b)
        for p in feasible(fn.paths(budget=50000)):
            cas = [e for e in p.events if e.kind == 'call' and 'std::sync::atomic' in e.d['callee'] and e.d['args'] and mentions_field(e.d['args'][0], 'Scheduler.started')]
            ecall = [e for e in p.events if e.kind == 'call' and e.d['callee'] == elect]
            wk = [e for e in p.events if e.kind == 'call' and e.d['callee'] in work and e.d['callee'] != elect]
            if not cas and not ecall:
                if wk:
                    bad.append((f'{core.short_fn(name)} reaches {core.short_fn(wk[0].d["callee"])} without an election', p))
                continue
            via.add(name.split('::')[-1])
            if cas:
                if len(cas) != 1 or not callee_matches(cas[0].d['callee'], '::compare_exchange') or cas[0].d['args'][1:3] != (('const', 'false'), ('const', 'true')):
                    bad.append(('started is not elected by one strong compare_exchange(false,true)', p))
                    continue
                dec = [a for a in p.events if a.kind == 'atom' and mentions(a.d['term'], cas[0].d['result'])]
                first = idx_of(p, cas[0])
            else:
                # the election function was not inlined: its Ok / Err is the verdict
                dec = [a for a in p.events if a.kind == 'atom' and mentions(a.d['term'], ecall[0].d['result'])]
                first = idx_of(p, ecall[0])
            won = [a for a in dec if _cas_verdict(a) == 'won']
            lost = [a for a in dec if _cas_verdict(a) == 'lost']
            if won and lost:
                bad.append(('contradictory election decisions on one path', p))
            if won:
                n_exec += 1
            elif lost:
                n_rej += 1
                ret = [e for e in p.events if e.kind == 'ret'][0].d['value']
                if any(s_[0] == 'agg' and s_[1].endswith('GrevmError') for s_ in subterms(ret)) and any(s_[0] == 'agg' and s_[2] == 'Custom' for s_ in subterms(ret)):
                    msg_ok = True
                elif name != elect:
                    pass
            else:
                bad.append((f'{core.short_fn(name)}: a path is neither elected nor rejected', p))
            for e in wk:
                i = idx_of(p, e)
                if not won or not any(idx_of(p, a) < i for a in won) or first > i:
                    bad.append((f'{core.short_fn(name)} runs {core.short_fn(e.d["callee"])} without having won the election', p))
            if lost and not won:
                others = [e for e in p.events if e.kind == 'call' and e.d.get('local') and e.d['callee'] != elect and not callee_matches(e.d['callee'], ('SchedulerContext::committed_idx',)) and not facts.is_new_fn(e.d['callee'])]
                if others:
                    bad.append((f'{core.short_fn(name)}: losing path calls ' + short(others[0].d['callee']), p))
    ctx.ob('O2', ef, 'election-dominates-work', n_exec >= 2 and n_rej >= 2 and not bad, '; '.join(sorted(set(w for w, _ in bad))[:3]), site=ef.loc(ef.b['lo']),
           what='whatever can reach outcomes / state / thread spawning runs only after the success edge of a strong CAS false→true on `started`; the losing edge returns the error before touching anything')
    ctx.ob('O2', ef, 'losing-edge-returns-once-error', msg_ok, 'no losing path builds GrevmError{EVMError::Custom(..)}', site=ef.loc(ef.b['lo']))
    ctx.ob('O1', 'scheduler::Scheduler', 'entry-points-pass-through-the-election', len(pubs) >= 4 and len(via - {elect.split('::')[-1]}) >= 2 and not bad,
           f'public methods={sorted(b["fn"].split("::")[-1] for b in pubs)}; elected={sorted(via)}',
           what='every public path to results/state mutation or to thread spawning passes the election first')
    _O_rest(ctx)


def _O_rest(ctx):
    facts = ctx.facts
    bf = ctx.method('scheduler::Scheduler<DB>', 'build')
    init_ok = res_ok = False
    for p in feasible(bf.paths()):
        ret = [e for e in p.events if e.kind == 'ret'][0].d['value']
        if ret[0] == 'agg' and ret[1].endswith('scheduler::Scheduler'):
            fields = dict(zip(ret[4].split(','), ret[3]))
            st = fields.get('started')
            init_ok = st is not None and st[0] == 'call' and st[2] == (('const', 'false'),)
            rs = fields.get('results')
            res_ok = rs is not None and rs[0] == 'call' and callee_matches(rs[1], 'Mutex::new') and has_call(rs, ('Vec::new', '::from_elem', 'vec::from_elem')) or \
                (rs is not None and 'Vec::new' in show(rs))
    ctx.ob('O3', bf, 'started-initially-false', init_ok, '', site=bf.loc(bf.b['lo']))
    ctx.ob('O5', bf, 'results-initially-empty', res_ok, '', site=bf.loc(bf.b['lo']),
           what='before any execution take_result_and_state() returns no outcomes')
    t = ctx.method('scheduler::Scheduler<DB>', 'take_result_and_state')
    ty = t.lty.get(1, '')
    ctx.ob('O4', t, 'take-consumes-self', ty.startswith('scheduler::Scheduler<') and not ty.startswith('&'), f'self type: {ty}', site=t.loc(t.b['lo']),
           what='taking self by value makes it impossible to take results while an execution borrows the scheduler')


def O_run_once(ctx):
    facts = ctx.facts
    try:
        f = ctx.method('scheduler::Scheduler<DB>', 'run_once')
    except AnchorLost:
        return O_guard_form(ctx)
    ps = feasible(f.paths())
    bad, n_exec, n_rej = [], 0, 0
    msg_inline = False
    for p in ps:
        cas = [e for e in p.events if e.kind == 'call' and 'std::sync::atomic' in e.d['callee'] and mentions_field(e.d['args'][0], 'Scheduler.started')]
        closure_calls = [e for e in p.events if e.kind == 'call' and re.search(r'Fn(Once|Mut)?::call(_once|_mut)?$', e.d['callee']) and strip(e.d['args'][0]) == ('arg', 2)]
        if len(cas) != 1 or not callee_matches(cas[0].d['callee'], '::compare_exchange') or cas[0].d['args'][1:3] != (('const', 'false'), ('const', 'true')):
            bad.append(('started is not elected by one strong compare_exchange(false,true)', p))
            continue
        dec = [a for a in p.events if a.kind == 'atom' and mentions(a.d['term'], cas[0].d['result'])]
        def verdict(a):
            t, o = a.d['term'], a.d['outcome']
            neg = False
            while t[0] == 'un' and t[1] == 'Not':
                t, neg = t[2], not neg
            if t[0] == 'call' and o in ('true', 'false'):
                b = (o == 'true') != neg
                if callee_matches(t[1], 'Result::is_err'):
                    return 'lost' if b else 'won'
                if callee_matches(t[1], 'Result::is_ok'):
                    return 'won' if b else 'lost'
                return None
            if o in ('Continue', 'Ok'):
                return 'won'
            if o in ('Break', 'Err'):
                return 'lost'
            return None
        won = any(verdict(a) == 'won' for a in dec)
        lost = any(verdict(a) == 'lost' for a in dec)
        if won and lost:
            bad.append(('contradictory election decisions on one path', p))
        if closure_calls:
            n_exec += 1
            i = idx_of(p, closure_calls[0])
            if not won or idx_of(p, cas[0]) > i or not any(idx_of(p, a) < i for a in dec):
                bad.append(('closure runs without winning the election', p))
            if len(closure_calls) != 1:
                bad.append(('closure may run twice', p))
        else:
            n_rej += 1
            if not lost:
                bad.append(('a path neither runs the closure nor lost the election', p))
            ret = [e for e in p.events if e.kind == 'ret'][0].d['value']
            others = [e for e in p.events if e.kind == 'call' and e.d.get('local') and not callee_matches(e.d['callee'], ('SchedulerContext::committed_idx',)) and not facts.is_new_fn(e.d['callee'])]
            if others:
                bad.append(('losing path calls ' + short(others[0].d['callee']), p))
            if ret[0] == 'agg' and ret[2] == 'Err' and any(s[0] == 'agg' and s[1].endswith('GrevmError') for s in subterms(ret)) and any(s[0] == 'agg' and s[2] == 'Custom' for s in subterms(ret)):
                msg_inline = True
    ctx.ob('O2', f, 'election-dominates-closure', n_exec >= 1 and n_rej >= 1 and not bad, '; '.join(w for w, _ in bad[:3]), site=f.loc(f.b['lo']),
           what='the closure (the only way to outcomes/state) runs exactly on the success edge of a strong CAS false→true; the losing edge returns the error before touching anything')
    # the rejection error
    cl = facts.closures_of(f.name)
    msg_ok = msg_inline
    for c in cl:
        cf = ctx.fn(c)
        for p in feasible(cf.paths()):
            ret = [e for e in p.events if e.kind == 'ret'][0].d['value']
            if ret[0] == 'agg' and ret[1].endswith('GrevmError') and any(s[0] == 'agg' and s[2] == 'Custom' for s in subterms(ret)):
                msg_ok = True
    ctx.ob('O2', f, 'losing-edge-returns-once-error', msg_ok, 'neither the losing path nor a map_err closure builds GrevmError{EVMError::Custom(..)}', site=f.loc(f.b['lo']))
    # O3 who touches `started`
    users = set()
    for b in facts.production():
        for bl in b['blocks']:
            if bl['cleanup']:
                continue
            for st in bl['stmts']:
                s = json.dumps(st)
                if 'scheduler::Scheduler.started' in s:
                    users |= facts.owners(b['fn'])
    ctx.ob('O3', 'Scheduler.started', 'who-touches-started', users == {'run_once'}, f'functions referencing Scheduler.started: {sorted(users)}',
           what='any other writer could re-arm the scheduler')
    bf = ctx.method('scheduler::Scheduler<DB>', 'build')
    init_ok = res_ok = False
    for p in feasible(bf.paths()):
        ret = [e for e in p.events if e.kind == 'ret'][0].d['value']
        if ret[0] == 'agg' and ret[1].endswith('scheduler::Scheduler'):
            fields = dict(zip(ret[4].split(','), ret[3]))
            st = fields.get('started')
            init_ok = st is not None and st[0] == 'call' and st[2] == (('const', 'false'),)
            rs = fields.get('results')
            res_ok = rs is not None and rs[0] == 'call' and callee_matches(rs[1], 'Mutex::new') and has_call(rs, ('Vec::new', '::from_elem', 'vec::from_elem')) or \
                (rs is not None and 'Vec::new' in show(rs))
    ctx.ob('O3', bf, 'started-initially-false', init_ok, '', site=bf.loc(bf.b['lo']))
    ctx.ob('O5', bf, 'results-initially-empty', res_ok, '', site=bf.loc(bf.b['lo']),
           what='before any execution take_result_and_state() returns no outcomes')
    # O1 entry points
    touchers = set()
    for b in facts.production():
        txt = json.dumps(b['blocks'])
        if 'scheduler::Scheduler.results' in txt or 'scheduler::Scheduler.state' in txt or 'std::thread::scope' in txt:
            touchers.add(b['fn'])
    pubs = [b for b in facts.production() if b['kind'] == 'assoc' and b['reachable'] and 'scheduler::Scheduler<DB>' in b['self_ty'] and b['vis'] == 'Public']
    ctx.count('O1.public-entry-points', len(pubs))
    cg = facts.callgraph()
    bad = []
    via = []
    guarded_all = set()
    for b0 in facts.production():
        if b0['kind'] == 'promoted':
            continue
        if not any(bl['term']['k'] == 'call' and norm_callee(bl['term']['callee']).endswith('::run_once') for bl in b0['blocks'] if not bl['cleanup']):
            continue
        for p in facts.fn(b0).paths(budget=20000):
            for e in p.events:
                if e.kind == 'call' and norm_callee(e.d['callee']).endswith('::run_once'):
                    for a in e.d['args']:
                        for s in subterms(a):
                            if s[0] == 'closure':
                                guarded_all.add(s[1])
    for b in pubs:
        name = b['fn']
        if name.endswith('::take_result_and_state'):
            continue
        fn = facts.fn(b)
        ctx.functions.add(name)
        guarded = set()
        direct = set()
        for p in fn.paths(budget=20000):
            for e in p.events:
                if e.kind != 'call':
                    continue
                if callee_matches(e.d['callee'], 'Scheduler>::run_once') or norm_callee(e.d['callee']).endswith('::run_once'):
                    for a in e.d['args']:
                        for s in subterms(a):
                            if s[0] == 'closure':
                                guarded.add(s[1])
                    via.append(name.split('::')[-1])
        succ0 = set(c for c in cg.get(name, ()) if c not in guarded_all and not norm_callee(c).endswith('::run_once'))
        seen = set()
        st = list(succ0)
        while st:
            n = st.pop()
            if n in seen:
                continue
            seen.add(n)
            if n in touchers:
                bad.append((name, n))
            if norm_callee(n).endswith('::run_once'):
                continue
            st.extend(c for c in cg.get(n, ()) if c not in guarded_all)
    ctx.ob('O1', 'scheduler::Scheduler', 'entry-points-pass-through-run_once', len(pubs) >= 4 and not bad and len(set(via)) >= 2 and len(guarded_all) >= 2,
           f'public methods={sorted(b["fn"].split("::")[-1] for b in pubs)}; via run_once={sorted(set(via))}; bypass={bad[:3]}',
           what='every public path to results/state mutation or to thread spawning goes through the closure handed to run_once')
    t = ctx.method('scheduler::Scheduler<DB>', 'take_result_and_state')
    ty = t.lty.get(1, '')
    ctx.ob('O4', t, 'take-consumes-self', ty.startswith('scheduler::Scheduler<') and not ty.startswith('&'), f'self type: {ty}', site=t.loc(t.b['lo']),
           what='taking self by value makes it impossible to take results while an execution borrows the scheduler')


# ------------------------------------------------------------------------------------------------ C17 / C05


def slot_of(t):
    for s in subterms(t):
        if s[0] == 'field' and (s[2].endswith('Scheduler.finality_wait') or s[2].endswith('Scheduler.commit_wait')):
            return s[2].split('.')[-1]
    return None


def W_wait(ctx):
    facts = ctx.facts
    f = ctx.method('WaitSlot', 'wait_while')
    bad = []
    n_park = 0
    for p in feasible(f.paths()):
        for i, e in enumerate(p.events):
            if e.kind == 'call' and callee_matches(e.d['callee'], ('thread::park_timeout', 'thread::park')):
                n_park += 1
                before = p.events[:i]
                preds = [j for j, x in enumerate(before) if x.kind == 'call' and re.search(r'Fn(Mut|Once)?::call(_mut|_once)?$', x.d['callee']) and strip(x.d['args'][0]) == ('arg', 3)]
                if not preds:
                    bad.append(('park without predicate', e))
                    continue
                j = preds[-1]
                dec = [a for a in before[j:] if a.kind == 'atom' and a.d['term'] == before[j].d['result']]
                if not dec or dec[0].d['outcome'] != 'true':
                    bad.append(('park not on the blocked==true edge of the last predicate evaluation', e))
                between = [x for x in before[j + 1:] if x.kind == 'call']
                if between:
                    bad.append((f'call {short(between[0].d["callee"])} between the predicate and park', e))
    ctx.ob('W1', f, 'park-straight-from-true-predicate', n_park >= 1 and not bad, '; '.join(f'{w} at {site(f, e)}' for w, e in bad[:3]), site=f.loc(f.b['lo']),
           what='the unpark token closes the check/park window only if nothing between the last predicate evaluation and park can consume it and park is reached only when the predicate said blocked')
    # WHO park / unpark
    parkers = set().union(*[facts.owners(b['fn']) for b, bl, t in facts.callers_of(lambda c: c.startswith('std::thread::park')) if not facts.is_test(b['fn'], b)] or [set()])
    unparkers = set().union(*[facts.owners(b['fn']) for b, bl, t in facts.callers_of(lambda c: c.endswith('Thread::unpark')) if not facts.is_test(b['fn'], b)] or [set()])
    ctx.ob('W1', 'std::thread::park*', 'who-parks', parkers == {'wait_while'}, f'{sorted(parkers)}',
           what='any other park on a coordinator thread can swallow the notification token')
    ctx.ob('W1', 'Thread::unpark', 'who-unparks', unparkers == {'notify'}, f'{sorted(unparkers)}')
    # notify(): unpark the registered thread
    nf = ctx.method('WaitSlot', 'notify')
    ok = any(calls(p, 'Thread::unpark') for p in feasible(nf.paths()))
    badn = []
    for p in feasible(nf.paths()):
        reg = [a for a in p.events if option_fact(a) and mentions_field(option_fact(a)[0], 'WaitSlot.thread')]
        un = calls(p, 'Thread::unpark')
        if not reg:
            badn.append('notify() can return without consulting the registered thread')
        elif reg[0] and option_fact(reg[0])[1] == 'Some' and not (un and mentions_field(un[0].d['args'][0], 'WaitSlot.thread')):
            badn.append('a thread is registered but notify() does not unpark it')
        first_call = [e for e in p.events if e.kind == 'call' and not is_noise_call(e.d['callee'])]
        if first_call and not (mentions_field(first_call[0].d['args'][0] if first_call[0].d['args'] else ('const', ''), 'WaitSlot.thread')):
            badn.append(f'notify() consults {short(first_call[0].d["callee"])} before the registered thread (a notification may be filtered out)')
    ctx.ob('W1', nf, 'notify-unparks-registered-thread', ok and not badn, '; '.join(sorted(set(badn))[:2]), site=nf.loc(nf.b['lo']),
           what='every notification must publish the park token of the registered waiter; a notify() that can skip the unpark (a coalescing flag, an early return) loses the wake-up whenever its skip condition is stale')
    # registration precedes waiting, on the same slot
    for m, slot in (('run_finality_loop', 'finality_wait'), ('run_commit_loop', 'commit_wait')):
        g = ctx.method('scheduler::Scheduler<DB>', m)
        bad = []
        n = 0
        for p in live(g.paths()):
            for i, e in enumerate(p.events):
                if is_call(e, 'WaitSlot::wait_while'):
                    n += 1
                    s = slot_of(e.d['args'][0])
                    regs = [x for x in p.events[:i] if is_call(x, 'WaitSlot::register_current_thread') and slot_of(x.d['args'][0]) == s]
                    if s != slot or not regs:
                        bad.append(e)
        ctx.ob('W1', g, 'registered-before-waiting-on-own-slot', n >= 1 and not bad, '; '.join(site(g, e) for e in bad[:3]), site=g.loc(g.b['lo']),
               what=f'{m} must wait on {slot} after registering itself there; notifications go to the registered thread')


def W_producers(ctx):
    facts = ctx.facts
    # callers of notify
    sites = [(b, bl, t) for b, bl, t in facts.callers_of(lambda c: c.endswith('WaitSlot::notify')) if not facts.is_test(b['fn'], b)]
    ctx.count('W.notify-sites', len(sites))
    by = collections.Counter(b['fn'].split('::')[-1] for b, _, _ in sites)
    ctx.ob('W2', 'WaitSlot::notify', 'anchor:notify-sites', by.get('validate', 0) >= 1 and by.get('run_finality_loop', 0) >= 1 and by.get('cancel', 0) >= 2,
           f'notify call sites per function: {dict(by)}')
    # validate: publish before notify, and coverage
    f = ctx.method('scheduler::Scheduler<DB>', 'validate')
    bad2, bad3 = [], []
    n_unc = 0
    for p in feasible(f.paths()):
        st = [e for e in assigns(p, 'TxState.status') if variant_of(e.d['value']) == 'Unconfirmed']
        unc = calls(p, 'SchedulerContext::unconfirmed')
        nts = [e for e in calls(p, 'WaitSlot::notify') if slot_of(e.d['args'][0]) == 'finality_wait']
        if not st:
            continue
        n_unc += 1
        i_pub = max(idx_of(p, st[-1]), idx_of(p, unc[-1]) if unc else -1)
        if not unc:
            bad2.append(p)
        for e in nts:
            if idx_of(p, e) < i_pub:
                bad2.append(p)
        if not nts:
            # allowed only when txid != finality_idx() was read AFTER the publication
            ok = False
            for j, a in enumerate(p.events):
                if j > i_pub and a.kind == 'atom':
                    n = norm_cmp(a)
                    if n and n[0] == 'Ne' and (has_call(n[1], 'SchedulerContext::finality_idx') or has_call(n[2], 'SchedulerContext::finality_idx')) \
                            and (is_field(n[1], 'TxVersion.txid') or is_field(n[2], 'TxVersion.txid')):
                        # the cursor LOAD itself (not just the branch on a cached flag) must follow the publication
                        loads = [c for c in calls_in(a.d['term']) if callee_matches(c[1], 'SchedulerContext::finality_idx')]
                        load_idx = [k for k, x in enumerate(p.events) if x.kind == 'call' and x.d.get('result') in loads]
                        if load_idx and min(load_idx) > i_pub:
                            ok = True
            if not ok:
                bad3.append(p)
    ctx.ob('W2', f, 'publish-before-notify', n_unc >= 1 and not bad2, f'{len(bad2)} path(s) notify before status/timestamp publication', site=f.loc(f.b['lo']),
           what='the waiter re-evaluates its predicate when notified; if the state is published after the notify the waiter parks on a stale predicate')
    ctx.ob('W3', f, 'notify-when-head-becomes-unconfirmed', not bad3,
           f'{len(bad3)} path(s) make a transaction Unconfirmed without notifying finality although txid may equal finality_idx(): ' + (describe(bad3[0], 6) if bad3 else ''),
           site=f.loc(f.b['lo']),
           what='the finality thread waits for exactly this transaction; skipping the notify (or testing the head before publishing) leaves it parked for the stall timeout')
    # finality loop
    g = ctx.method('scheduler::Scheduler<DB>', 'run_finality_loop')
    bad2, bad3 = [], []
    n_pub = 0
    full = [p for p in g.paths(max_visits=3)]
    for p in full:
        if p.end not in ('return', 'cut'):
            continue
        for i, e in enumerate(p.events):
            if is_call(e, 'SchedulerContext::publish_finality'):
                n_pub += 1
                # next blocking point: wait_while on own slot, or thread exit
                nxt = None
                for j in range(i + 1, len(p.events)):
                    x = p.events[j]
                    if is_call(x, 'WaitSlot::wait_while') or x.kind == 'ret':
                        nxt = j
                        break
                if nxt is None:
                    if p.end == 'cut':
                        continue
                    nxt = len(p.events)
                nts = [x for x in p.events[i + 1:nxt] if is_call(x, 'WaitSlot::notify') and slot_of(x.d['args'][0]) == 'commit_wait']
                if not nts:
                    bad3.append((p, e))
            if is_call(e, 'WaitSlot::notify') and slot_of(e.d['args'][0]) == 'commit_wait':
                if not [x for x in p.events[:i] if is_call(x, 'SchedulerContext::publish_finality')]:
                    bad2.append((p, e))
    ctx.ob('W2', g, 'publish-before-notify', n_pub >= 1 and not bad2, '; '.join(site(g, e) for _, e in bad2[:3]), site=g.loc(g.b['lo']),
           what='commit_wait.notify must follow the finality cursor publication it announces')
    ctx.ob('W3', g, 'every-publication-is-announced-before-blocking', not bad3,
           '; '.join(f'publish_finality at {site(g, e)} not followed by commit_wait.notify before the next wait/exit' for _, e in bad3[:3]), site=g.loc(g.b['lo']),
           what='the commit thread parks when it has consumed the cursor; a publication that is never announced is only found by the stall timer')
    # cancel
    c = ctx.method('scheduler::Scheduler<DB>', 'cancel')
    bad = []
    for p in feasible(c.paths()):
        st = [i for i, e in enumerate(p.events) if e.kind == 'call' and callee_matches(e.d['callee'], '::store') and mentions_field(e.d['args'][0], 'Scheduler.abort') and e.d['args'][1] == ('const', 'true')]
        nts = [(i, slot_of(e.d['args'][0])) for i, e in enumerate(p.events) if is_call(e, 'WaitSlot::notify')]
        if not st or {s for _, s in nts} != {'finality_wait', 'commit_wait'} or any(i < st[0] for i, _ in nts):
            bad.append(p)
    ctx.ob('L5', c, 'flag-then-notify-both', not bad, f'{len(bad)} deviating path(s)', site=c.loc(c.b['lo']),
           what='cancel must set the abort flag before waking both coordinators (their predicates read the flag)')
    a = ctx.method('scheduler::Scheduler<DB>', 'abort')
    bad = []
    for p in feasible(a.paths()):
        init = [i for i, e in enumerate(p.events) if e.kind == 'call' and callee_matches(e.d['callee'], ('OnceLock::get_or_init', 'OnceLock::set')) and mentions_field(e.d['args'][0], 'Scheduler.abort_reason')]
        cn = [i for i, e in enumerate(p.events) if is_call(e, 'Scheduler>::cancel')]
        if not init or not cn or cn[0] < init[0]:
            bad.append(p)
    ctx.ob('E3', a, 'reason-before-cancel', not bad, f'{len(bad)} deviating path(s)', site=a.loc(a.b['lo']),
           what='the first abort reason is recorded (get_or_init keeps the first) before peers are released, so post_execute always finds the reason of the abort it observes')
    # who writes abort flag / reason
    wflag, wreason = set(), set()
    for b in facts.production():
        for bl in b['blocks']:
            if bl['cleanup']:
                continue
            t = bl['term']
            if t['k'] == 'call':
                fn = facts.fn(b)
        txt = json.dumps(b['blocks'])
        if 'scheduler::Scheduler.abort_reason' in txt:
            wreason |= facts.owners(b['fn'])
        if '"scheduler::Scheduler.abort"' in txt:
            wflag |= facts.owners(b['fn'])
    ctx.ob('E3', 'Scheduler.abort_reason', 'who-touches-abort-reason', wreason <= {'abort', 'post_execute', 'take_result_and_state', 'build'} and 'abort' in wreason, f'{sorted(wreason)}',
           what='only abort() records the reason (first cause wins); post_execute reads it')
    ctx.ob('L5', 'Scheduler.abort', 'who-touches-abort-flag', wflag <= {'cancel', 'is_aborted', 'take_result_and_state', 'build'} and 'cancel' in wflag, f'{sorted(wflag)}')


def L6_panic_path(ctx):
    facts = ctx.facts
    pe = ctx.method('scheduler::Scheduler<DB>', 'parallel_execute_inner')
    cls = facts.closures_under(pe.name)
    roles = {'run_finality_loop': 0, 'run_commit_loop': 0, 'run_worker': 0}
    bad = []
    scope_body = None
    for c in cls:
        cf = ctx.fn(c)
        for p in feasible(cf.paths()):
            rc = [e for e in p.events if e.kind == 'call' and any(norm_callee(e.d['callee']).endswith('Scheduler::' + r) for r in roles)]
            jn = [e for e in p.events if e.kind == 'call' and e.d['callee'].endswith('ScopedJoinHandle::<\'scope, T>::join') or (e.kind == 'call' and norm_callee(e.d['callee']).endswith('ScopedJoinHandle::join'))]
            if jn:
                scope_body = cf
            for e in rc:
                r = norm_callee(e.d['callee']).split('::')[-1]
                roles[r] += 1
                i = idx_of(p, e)
                guards = [j for j, x in enumerate(p.events[:i]) if is_call(x, 'Scheduler::cancel_on_panic')]
                drops = [j for j, x in enumerate(p.events[:i]) if x.kind == 'drop' and 'CancelOnPanic' in x.d['ty']]
                if not guards or (drops and drops[-1] > guards[-1]):
                    bad.append((cf, e))
    ctx.ob('L6', pe, 'cancel-guard-live-during-each-role', all(v >= 1 for v in roles.values()) and not bad,
           f'roles guarded: {roles}; ' + '; '.join(f'{short(e.d["callee"])} at {site(f, e)} without a live CancelOnPanic' for f, e in bad[:3]), site=pe.loc(pe.b['lo']),
           what='a panic in one role must cancel the others before thread::scope waits for them, otherwise the scope never joins (hang) ')
    ok = False
    detail = 'scope body not found'
    if scope_body is not None:
        ok = True
        detail = ''
        n_join_sites = set()
        resume_ok = False
        guard_ok = False
        for p in [q for q in scope_body.paths(max_visits=2) if q.end in ('return', 'diverge', 'cut')]:
            for i, e in enumerate(p.events):
                if e.kind == 'call' and norm_callee(e.d['callee']).endswith('ScopedJoinHandle::join'):
                    n_join_sites.add(e.bb)
                    if [x for x in p.events[:i] if is_call(x, 'Scheduler::cancel_on_panic')] and not [x for x in p.events[:i] if x.kind == 'drop' and 'CancelOnPanic' in x.d['ty']]:
                        guard_ok = True
                if e.kind == 'call' and e.d['callee'].endswith('resume_unwind'):
                    if has_call(e.d['args'][0], '~ScopedJoinHandle'):
                        resume_ok = True
        ok = len(n_join_sites) >= 3 and resume_ok and guard_ok
        detail = f'join sites={len(n_join_sites)} resume_unwind(join payload)={resume_ok} scope guard before joins={guard_ok}'
    ctx.ob('L6', pe, 'explicit-joins-and-original-panic', ok, detail, site=pe.loc(pe.b['lo']),
           what='all three handle kinds are joined explicitly and the first join payload is re-raised, so the original panic reaches the caller')
    # CancelOnPanic::drop cancels when panicking
    d = [b for b in facts.production() if 'CancelOnPanic' in b['fn'] and b['fn'].endswith('::drop')]
    okd = False
    badd = []
    for b in d:
        df = ctx.fn(b)
        for p in feasible(df.paths()):
            pk = [a for a in p.events if a.kind == 'atom' and a.d['term'][0] == 'call' and a.d['term'][1].endswith('thread::panicking')]
            if pk and pk[0].d['outcome'] == 'true' and calls(p, 'Scheduler>::cancel'):
                okd = True
            # on EVERY unwinding path: nothing but "not panicking" excuses the guard from cancelling
            if p.end == 'return' and not calls(p, 'Scheduler>::cancel') and not (pk and pk[0].d['outcome'] == 'false'):
                badd.append(p)
    ctx.ob('L6', 'CancelOnPanic::drop', 'drop-cancels-while-panicking', okd and not badd, f'{len(badd)} path(s) leave the guard without cancelling although the thread may be panicking',
           what='a role that unwinds must release its peers whatever else is true; the only path that may skip cancel() is the one on which thread::panicking() was read false')


WHO_CALLS = [
    # (callee pattern, allowed callers (last path segment), why)
    ('SchedulerContext::publish_finality', {'run_finality_loop'}, 'only the finality coordinator advances the finality cursor'),
    ('SchedulerContext::publish_commit', {'run_commit_loop'}, 'only ordered commit advances the committed cursor'),
    ('SchedulerContext::unconfirmed', {'validate'}, 'validation timestamps are written by validate() under TS[txid]'),
    ('SchedulerContext::executed', {'execute_task'}, 'the execution frontier is fed by completed attempts only'),
    ('Beneficiary::record_execution', {'execute_task'}, 'history publication belongs to the attempt that produced it'),
    ('Beneficiary::record_estimate', {'execute_task'}, 'history publication belongs to the attempt that produced it'),
    ('Beneficiary::invalidate', {'validate'}, 'only a failed validation invalidates an exact entry'),
    ('Scheduler::mark_mv_estimate', {'execute_task', 'validate'}, 'estimate marks are issued by the owner of the incarnation under TS[txid]'),
    ('TxDependency::commit', {'run_commit_loop'}, 'commit-boundary release'),
    ('TxDependency::key_tx', {'execute_task'}, 'self-barrier of an errored attempt'),
    ('OrderedCommitter::commit', {'run_commit_loop'}, 'state is committed by the ordered commit thread only'),
    ('Scheduler::install_commit_loop_result', {'parallel_execute_inner'}, 'outcomes are installed once, after the scope joined'),
    ('ParallelCacheState::apply_evm_state_inner', {'commit', 'apply_evm_state'}, 'cache state changes only through commit'),
]


def WHO_tables(ctx):
    facts = ctx.facts
    for pat, allowed, why in WHO_CALLS:
        callers = set()
        for b, bl, t in facts.callers_of(lambda c: norm_callee(c).endswith(pat) or callee_matches(c, pat)):
            if facts.is_test(b['fn'], b):
                continue
            callers |= facts.owners(b['fn'])
        if not callers and pat == 'Scheduler::mark_mv_estimate':
            # the marker was moved: whoever sets MemoryEntry.estimate now stands for its callers
            for b in facts.production():
                if body_writes_field(b, 'MemoryEntry.estimate'):
                    callers |= facts.owners(b['fn'])
        ctx.ob('WHO', pat, 'who-may-call', bool(callers) and callers <= allowed, f'callers {sorted(callers)}; allowed {sorted(allowed)}', what=why)
    # tx_results writers: stores (assignments through the guard) and takes
    w = collections.defaultdict(set)
    for b in facts.production():
        txt = json.dumps(b['blocks'])
        if 'scheduler::Scheduler.tx_results' not in txt:
            continue
        f = facts.fn(b)
        try:
            ps = f.paths(budget=40000)
        except PathBudget:
            continue
        for p in ps:
            for e in p.events:
                if e.kind == 'assign' and e.d['place'][0] == 'call' and mentions_field(e.d['place'], 'Scheduler.tx_results'):
                    [w[o].add('store') for o in facts.owners(b['fn'])]
                if e.kind == 'call' and norm_callee(e.d['callee']).endswith('Option::take') and mentions_field(e.d['args'][0], 'Scheduler.tx_results'):
                    [w[o].add('take') for o in facts.owners(b['fn'])]
                if e.kind == 'call' and callee_matches(e.d['callee'], 'mem::take') and mentions_field(e.d['args'][0], 'Scheduler.tx_results'):
                    [w[o].add('take-field') for o in facts.owners(b['fn'])]
    exp = {'execute_task': {'store', 'take-field'}, 'run_commit_loop': {'take'}}
    ctx.ob('WHO', 'Scheduler.tx_results', 'who-writes-results', dict(w) == exp, f'{ {k: sorted(v) for k, v in w.items()} }',
           what='a transaction result is stored by its own attempt and consumed exactly by ordered commit')
    rw = set()
    for b in facts.production():
        if '"scheduler::Scheduler.results"' in json.dumps(b['blocks']):
            rw |= facts.owners(b['fn'])
    ctx.ob('WHO', 'Scheduler.results', 'who-touches-outcomes', rw <= {'install_commit_loop_result', 'replay_uncommitted_suffix', 'take_result_and_state', 'build'} and 'install_commit_loop_result' in rw, f'{sorted(rw)}',
           what='outcomes are written by the commit-result installation and by sequential replay only')


def U4_frontier_init_and_progress(ctx):
    """the frontier starts at 0 over flags that start false; advance() stops exactly when a scan made no progress and restarts
    each scan from where the last one (or a concurrent helper) got to; an in-range rewind takes a tick of exactly 1"""
    f = ctx.method('ExecutionFrontier', 'new')
    ok0 = okf = False
    for p in feasible(f.paths()):
        ret = [e for e in p.events if e.kind == 'ret'][0].d['value']
        for s in subterms(ret):
            if s[0] == 'agg' and s[1].endswith('ExecutionFrontier') and s[4]:
                fl = dict(zip(s[4].split(','), s[3]))
                fr = fl.get('frontier')
                if fr is not None and fr[0] == 'call' and fr[2] == (('const', '0_usize'),):
                    ok0 = True
    set_flag = False
    for c in ctx.facts.closures_under(f.name):
        for p in feasible(ctx.fn(c).paths()):
            r = [e for e in p.events if e.kind == 'ret'][0].d['value']
            if r[0] == 'call' and 'Atomic' in r[1] and r[2] == (('const', 'false'),):
                okf = True
            elif r[0] == 'call' and 'Atomic' in r[1] and r[2] == (('const', 'true'),):
                set_flag = True
            elif r[0] == 'call' and r[1].endswith('::default'):
                okf = True
    # `Default::default` handed over as the element constructor (false for AtomicBool)
    for b_ in [f.b] + ctx.facts.code_under(f.name):
        for bl in b_['blocks']:
            t_ = bl['term']
            if t_['k'] == 'call' and any(a.get('k') == 'const' and str(a.get('fndef', '')).endswith(('Default>::default', 'Default::default')) for a in t_['args']):
                okf = True
    if set_flag:
        okf = False
    # the frontier may also be a named constant / default (0)
    if not ok0:
        for p in feasible(f.paths()):
            ret = [e for e in p.events if e.kind == 'ret'][0].d['value']
            for s_ in subterms(ret):
                if s_[0] == 'agg' and s_[1].endswith('ExecutionFrontier') and s_[4]:
                    fr = dict(zip(s_[4].split(','), s_[3])).get('frontier')
                    if fr is not None and fr[0] == 'call' and (fr[1].endswith('::default') or fr[2] == (('const', '0_usize'),)):
                        ok0 = True
    ctx.ob('U4', f, 'frontier-starts-at-zero-over-unset-flags', ok0 and okf, f'frontier=0:{ok0} flags=false:{okf}', site=f.loc(f.b['lo']),
           what='a flag that starts set, or a frontier that starts above 0, lets validation claims pass a transaction that never executed')
    g = ctx.method('ExecutionFrontier', 'advance')
    bad = []
    n_ret = n_pub = 0
    for p in [q for q in g.paths(max_visits=3) if q.end in ('return', 'cut')]:
        ev = p.events
        # scans: runs of `executed[i]` loads between publications
        trues = 0
        scan_start = ('arg', 2)
        for i, e in enumerate(ev):
            if e.kind == 'atom' and e.d['term'][0] == 'call' and callee_matches(e.d['term'][1], '::load') and mentions_field(e.d['term'][2][0], 'ExecutionFrontier.executed') and e.d['outcome'] == 'true':
                trues += 1
            if e.kind == 'call' and callee_matches(e.d['callee'], '::fetch_max') and mentions_field(e.d['args'][0], 'ExecutionFrontier.frontier'):
                n_pub += 1
                if trues == 0:
                    bad.append((e, 'the frontier is published after a scan that found nothing new (with the restart below: an endless loop)'))
                # the next scan does not start where this one started
                nxt_scan = [a for a in ev[i + 1:] if a.kind == 'atom' and norm_cmp(a) and has_call(a.d['term'], '::len') and mentions_field(a.d['term'], 'ExecutionFrontier.executed')]
                if nxt_scan:
                    op, l, r = norm_cmp(nxt_scan[0])
                    idx = r if has_call(l, '::len') else l
                    if not (mentions(idx, strip(e.d['result'])) or mentions(idx, strip(e.d['args'][1]))):
                        bad.append((e, 'after publishing, the next scan restarts from the old start (it never terminates once it has moved)'))
                trues = 0
        if p.end == 'return':
            n_ret += 1
            if trues > 0:
                bad.append((ev[-1], 'advance returns although its last scan found newly executed transactions (their completion is never published)'))
    ctx.ob('U4', g, 'advance-publishes-progress-and-terminates', n_ret >= 1 and n_pub >= 1 and not bad, '; '.join(sorted({f'{site(g, e)} {w}' for e, w in bad})[:3]), site=g.loc(g.b['lo']),
           what='advance(): scan the contiguous executed run; no progress ⇒ return; progress ⇒ fetch_max(end) and rescan from max(previous frontier, end)')
    # every flag that is read lies inside the block: `i < executed.len()` is established before `executed[i]` is touched
    badi = []
    n_idx = 0
    for meth in ('advance', 'current'):
        m_ = ctx.method('ExecutionFrontier', meth)
        for p in [q for q in m_.paths(max_visits=3) if q.end in ('return', 'cut')]:
            for i, e in enumerate(p.events):
                if e.kind == 'call' and callee_matches(e.d['callee'], '::load') and mentions_field(e.d['args'][0], 'ExecutionFrontier.executed'):
                    ix = [c for c in calls_in(e.d['args'][0]) if c[1].endswith('::index') and mentions_field(c[2][0], 'ExecutionFrontier.executed')]
                    if not ix:
                        continue
                    n_idx += 1
                    idx = strip(ix[0][2][1])
                    if not holds_rel(p, i, lambda op, l, r: op == 'Lt' and l == idx and has_call(r, '::len') and mentions_field(r, 'ExecutionFrontier.executed')):
                        badi.append(f'{meth}: executed[{show(idx)[:30]}] is read without `< executed.len()` having been established')
    ctx.ob('U4', 'ExecutionFrontier', 'flags-read-inside-the-block', n_idx >= 2 and not badi, '; '.join(sorted(set(badi))[:2]),
           what='once every transaction has executed the frontier equals the block size; reading the flag at that index panics the worker (and with it the run)')
    h = ctx.method('SchedulerContext', 'rewind_validation_to')
    bad = []
    n = 0
    for p in feasible(h.paths()):
        eff = [e for e in p.events if e.kind == 'call' and (callee_matches(e.d['callee'], '::fetch_max') or is_call(e, 'RewindableCursor::rewind'))]
        if not eff:
            continue
        n += 1
        if not holds_rel(p, idx_of(p, eff[0]), lambda op, l, r: op == 'Lt' and l == ('arg', 2) and mentions_field(r, 'num_txs')):
            bad.append('a rewind takes effect without `index < num_txs` having been established (index == num_txs is the "one past the last transaction" no-op)')
        for e in p.events:
            if e.kind == 'call' and callee_matches(e.d['callee'], '::fetch_add') and mentions_field(e.d['args'][0], 'logical_clock') and e.d['args'][1] != ('const', '1_usize'):
                bad.append(f'the clock advances by {show(e.d["args"][1])} (ticks must be unique)')
    ctx.ob('U4', h, 'rewind-bounds-and-unit-tick', n >= 1 and not bad, '; '.join(sorted(set(bad))), site=h.loc(h.b['lo']),
           what='rewind_validation_to(txid+1) is called for the last transaction too; it must be a no-op there, and every effective rewind owns a fresh tick')

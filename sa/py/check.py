#!/usr/bin/env python3
"""./check <ID> [--thorough] | --replay <path> | --all"""
import sys, os, time, json
sys.path.insert(0, os.path.dirname(os.path.abspath(__file__)))
import core, mirlib
import props


def run_prop(pid, tier, seed, facts=None, facts_path=None):
    t0 = time.time()
    if facts is None:
        facts_path = core.export_facts()
        facts = mirlib.Facts(facts_path)
    ctx = core.Ctx(pid, facts, tier, seed, facts_path or '')
    spec = props.PROPS[pid]
    ctx.skip_rules = set(spec.get('skip_rules', ()))
    for rule in spec['rules']:
        ctx.guarded(rule.__name__, rule.__module__, lambda: rule(ctx))
    extra = {}
    if tier == 'thorough':
        for rule in spec.get('thorough_rules', []):
            ctx.guarded(rule.__name__, rule.__module__, lambda: rule(ctx))
        import thorough
        extra = thorough.run(ctx, spec)
        ctx.tier = 'thorough'
    rc = core.finish(ctx, spec['level'], spec['explanation'], spec['trusted_base'], spec['assumptions'], t0, extra)
    st = getattr(ctx, 'selftest_failed', None)
    if st and rc == 0:
        print(f'CHECKER-SELFTEST-FAILED property={pid} missed={st["MISSED"]} false_alarms={st["FALSE-ALARM"]}')
        return 3
    return rc


def main():
    args = sys.argv[1:]
    tier = os.environ.get('VERIF_TIER', 'quick')
    if '--thorough' in args:
        tier = 'thorough'
        args.remove('--thorough')
    seed = int(os.environ.get('VERIF_SEED', '0') or 0)
    if args and args[0] == '--replay':
        d = json.load(open(args[1]))
        pid = d['property']
        print(f'replaying {len(d["violations"])} recorded violation(s) of {pid} against the current tree:')
        for v in d['violations']:
            print(' ', v['key'], '\n    ', v['site'], '\n    ', v['detail'])
        sys.exit(run_prop(pid, tier, seed))
    if not args:
        print(__doc__)
        sys.exit(2)
    try:
        if args[0] == '--all':
            fp = core.export_facts()
            facts = mirlib.Facts(fp)
            rc = 0
            for pid in sorted(props.PROPS):
                rc |= run_prop(pid, tier, seed, facts, fp)
            sys.exit(rc)
        sys.exit(run_prop(args[0], tier, seed))
    except core.AnalysisFailed as e:
        print(f'ANALYSIS-FAILED: {e}')
        sys.exit(2)


if __name__ == '__main__':
    main()

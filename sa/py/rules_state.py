"""Rules over parallel_state.rs, account.rs, bundle.rs: sibling agreement with revm (E7), the shared
cache check-then-insert discipline (T1-T3), lifecycle storage clearing (D4), FinalizedAccount (D1)."""
from ru import *

STATUS = 'revm_database::AccountStatus'


def status_variants(facts):
    en = facts.enums.get(STATUS) or {}
    return set(en.values())


def status_cond(p, facts):
    """set of AccountStatus variants of `previous status` for which this path is taken"""
    allv = status_variants(facts)
    cur = set(allv)
    for a in p.events:
        if a.kind != 'atom':
            continue
        t = a.d['term']
        o = a.d['outcome']
        if t[0] == 'discr' and len(t) > 2 and t[2] == STATUS:
            if o.startswith('!'):
                cur -= set(o[1:].split('|'))
            else:
                cur &= {o}
            continue
        n = norm_cmp(a)
        if n:
            for x, y in ((n[1], n[2]), (n[2], n[1])):
                v = variant_of(y)
                if v in allv:
                    if n[0] == 'Eq':
                        cur &= {v}
                    elif n[0] == 'Ne':
                        cur -= {v}
    return frozenset(cur)


def transition_summary(t, nparams):
    """summarise a TransitionAccount aggregate"""
    if not (t[0] == 'agg' and t[1].endswith('TransitionAccount')):
        return None
    f = dict(zip(t[4].split(','), t[3]))

    def kind(x, name):
        s = show(x)
        if x[0] == 'agg' and x[2] == 'None':
            return 'None'
        if x == ('const', 'true') or x == ('const', 'false'):
            return x[1]
        if has_call(x, '~AccountStatus::on_'):
            return 'new-status:' + [short(c[1]) for c in calls_in(x) if 'AccountStatus::on_' in c[1]][0]
        if x[0] == 'field' and x[2].endswith('.status'):
            return 'old-status'
        if has_call(x, 'Option::take') or 'Option::take' in s:
            return 'taken-previous-account'
        if has_call(x, '::default'):
            return 'default'
        if x[0] == 'arg':
            return f'param'
        if x[0] == 'agg' and x[2] == 'Some':
            return 'Some(' + kind(x[3][0], name) + ')'
        if has_call(x, '::clone') or x[0] == 'field':
            return 'account-info'
        return 'other'
    return tuple(sorted((k, kind(v, k)) for k, v in f.items()))


def absent_means_false(a):
    """the boolean `a` is `opt.map(pred).unwrap_or_default()` or one of its equivalent spellings
    (`unwrap_or(false)`, `is_some_and(pred)`, `map_or(false, pred)`): a missing value counts as false"""
    if a[0] != 'call':
        return False
    nc = norm_callee(a[1])
    if nc.endswith('Option::unwrap_or_default') and a[2] and has_call(a[2][0], 'Option::map'):
        return True
    if nc.endswith('Option::unwrap_or') and len(a[2]) == 2 and a[2][1] == ('const', 'false') and has_call(a[2][0], 'Option::map'):
        return True
    if nc.endswith('Option::is_some_and'):
        return True
    if nc.endswith('Option::map_or') and len(a[2]) == 3 and a[2][1] == ('const', 'false'):
        return True
    return False


def prev_info_kind(p, pi):
    """where the transition's `previous_info` comes from: 'pre-state' when it is what `account.take()` returned or a copy made before
    the account was first taken / overwritten on this path; 'post-mutation' when the copy is made after that"""
    def is_account(t):
        return any(x[0] == 'field' and x[2].endswith('.account') for x in subterms(t))
    muts = [i for i, e in enumerate(p.events)
            if (e.kind == 'call' and (norm_callee(e.d['callee']).endswith('Option::take') or norm_callee(e.d['callee']).endswith('mem::take') or norm_callee(e.d['callee']).endswith('mem::replace'))
                and e.d['args'] and is_account(e.d['args'][0]))
            or (e.kind == 'assign' and e.d['place'][0] == 'field' and e.d['place'][2].endswith('.account'))]
    first = muts[0] if muts else len(p.events)
    if first < len(p.events) and p.events[first].kind == 'call' and mentions(pi, p.events[first].d['result']):
        return 'pre-state'
    if is_account(pi):
        # a copy of the account: when was it taken?
        made = [i for i, e in enumerate(p.events) if e.kind == 'assign' and e.d['place'][0] == 'var' and e.d.get('copied') and e.d['value'] == pi]
        if made:
            return 'pre-state' if made[0] < first else 'post-mutation'
        return 'pre-state' if not muts else 'unknown'
    if pi[0] == 'agg' and pi[2] == 'None' and first < len(p.events) and p.events[first].kind == 'call':
        # nothing was there: the take itself was decided None on this path
        tk = p.events[first].d['result']
        if any(option_fact(a) and option_fact(a)[1] == 'None' and mentions(option_fact(a)[0], tk) for a in p.events if a.kind == 'atom'):
            return 'pre-state'
    return 'other'


def lifecycle_features(fn, facts):
    """comparable features of a CacheAccount lifecycle method (robust to the PlainAccount vs
    AccountInfo representation difference): (early-None status set, storage_was_destroyed
    constants, info is None?, status/previous_status provenance, on_changed argument provenance)"""
    feats = set()
    calls_ = set()
    allv = status_variants(facts)
    for p in feasible(fn.paths()):
        cond = status_cond(p, facts)
        ret = [e for e in p.events if e.kind == 'ret'][0].d['value']
        for e in p.events:
            if e.kind == 'call' and 'AccountStatus::on_' in e.d['callee']:
                calls_.add(short(e.d['callee']))
                if e.d['callee'].endswith('::on_changed'):
                    a = e.d['args'][1]
                    # per path: the predicate on the previous info when there was one, false when there was none
                    if a[0] == 'call' and callee_matches(a[1], 'AccountInfo::has_no_code_and_nonce'):
                        feats.add(('on_changed-arg', 'pred'))
                    elif a in (('const', 'false'), ('const', 'Default::default()')):
                        feats.add(('on_changed-arg', 'false'))
                    elif absent_means_false(a) and 'has_no_code_and_nonce' in show(a):
                        feats.add(('on_changed-arg', 'pred'))
                        feats.add(('on_changed-arg', 'false'))
                    else:
                        feats.add(('on_changed-arg', 'other:' + show(a)[:60]))
        none = ret[0] == 'agg' and ret[2] == 'None'
        if none:
            feats.add(('early-none', tuple(sorted(cond))))
            continue
        for s in subterms(ret):
            if s[0] == 'agg' and s[1].endswith('TransitionAccount'):
                f = dict(zip(s[4].split(','), s[3]))
                info_none = f['info'][0] == 'agg' and f['info'][2] == 'None'
                st_new = has_call(f['status'], '~AccountStatus::on_')
                prev_old = f['previous_status'][0] == 'field' and f['previous_status'][2].endswith('.status')
                swd = f['storage_was_destroyed'][1] if f['storage_was_destroyed'][0] == 'const' else 'non-const'
                storage = 'default' if has_call(f['storage'], '::default') else 'param' if f['storage'][0] == 'arg' else 'other'
                feats.add(('transition', tuple(sorted(cond)) if cond != allv else 'any', info_none, st_new, prev_old, swd, storage, prev_info_kind(p, f['previous_info'])))
    return feats, calls_


def SIB_lifecycle(ctx):
    facts = ctx.facts
    allv = status_variants(facts)
    ctx.ob('SIB', 'revm_database::AccountStatus', 'anchor:status-enum', len(allv) >= 8, f'{sorted(allv)}')
    for m in ('selfdestruct', 'newly_created', 'touch_empty_eip161', 'change'):
        mine = ctx.fn(f'parallel_state::CacheAccountInfo::{m}')
        theirs = ctx.fn(f'ext::revm_database::states::CacheAccount::{m}')
        a, ca = lifecycle_features(mine, facts)
        b, cb = lifecycle_features(theirs, facts)
        ctx.ob('SIB', mine, f'status-machine-agrees-with-revm::{m}', a == b and ca == cb and len(a) >= 1,
               f'grevm only: {sorted(map(str, a - b))[:2]} ; revm only: {sorted(map(str, b - a))[:2]} ; status calls {sorted(ca)} vs {sorted(cb)}',
               site=mine.loc(mine.b['lo']),
               what='CacheAccountInfo is a hand copy of revm CacheAccount: same status transition function, same early-None status set, same TransitionAccount fields (storage_was_destroyed, previous info/status) — any drift changes the bundle/reverts')
    # increment_balance / drain_balance go through account_info_change
    mine = ctx.fn('parallel_state::CacheAccountInfo::account_info_change')
    a, ca = lifecycle_features(mine, facts)
    ok = ca == {'AccountStatus::on_changed'} and {x for x in a if x[0] == 'on_changed-arg'} == {('on_changed-arg', 'pred'), ('on_changed-arg', 'false')} and \
        any(x[0] == 'transition' and x[2] is False and x[3] and x[4] and x[5] == 'false' and x[6] == 'default' for x in a) and \
        all(x[7] == 'pre-state' for x in a if x[0] == 'transition')
    ctx.ob('SIB', mine, 'balance-change-transition', ok, f'{sorted(map(str, a))[:4]}', site=mine.loc(mine.b['lo']),
           what='increment/drain balance = on_changed(previous info had no code and nonce), storage untouched, storage_was_destroyed=false (as in revm CacheAccount::account_info_change)')
    theirs = ctx.fn('ext::revm_database::states::CacheAccount::increment_balance')
    oki = False
    for p in feasible(theirs.paths()):
        if [e for e in p.events if e.kind == 'atom' and norm_cmp(e) and norm_cmp(e)[0] in ('Eq', 'Ne') and norm_cmp(e)[2] == ('const', '0_u128')]:
            oki = True
    minei = ctx.fn('parallel_state::CacheAccountInfo::increment_balance')
    okm = False
    for p in feasible(minei.paths()):
        ret = [e for e in p.events if e.kind == 'ret'][0].d['value']
        z = [e for e in p.events if e.kind == 'atom' and norm_cmp(e) and norm_cmp(e)[0] == 'Eq' and norm_cmp(e)[2] == ('const', '0_u128')]
        if z and ret[0] == 'agg' and ret[2] == 'None':
            okm = True
    ctx.ob('SIB', minei, 'zero-increment-makes-no-transition', oki == okm and okm, f'revm zero-test={oki} grevm zero-test={okm}', site=minei.loc(minei.b['lo']))


PREDS = ('Account::is_touched', 'Account::is_selfdestructed', 'Account::is_created', 'Account::is_empty')
METHODS = ('selfdestruct', 'newly_created', 'touch_empty_eip161', 'change')


def decision_map(fn, method_owner):
    out = set()
    for p in feasible(fn.paths()):
        seq = []
        for a in p.events:
            if a.kind == 'atom' and a.d['term'][0] == 'call' and any(a.d['term'][1].endswith(x) for x in PREDS) and a.d['outcome'] in ('true', 'false'):
                item = (a.d['term'][1].split('::')[-1], a.d['outcome'])
                if item not in seq:
                    seq.append(item)
            if a.kind == 'atom' and a.d['term'][0] == 'un' and a.d['term'][1] == 'Not' and a.d['term'][2][0] == 'call' and any(a.d['term'][2][1].endswith(x) for x in PREDS):
                item = (a.d['term'][2][1].split('::')[-1], 'false' if a.d['outcome'] == 'true' else 'true')
                if item not in seq:
                    seq.append(item)
        meth = None
        for e in p.events:
            if e.kind == 'call' and method_owner in e.d['callee'] and e.d['callee'].split('::')[-1] in METHODS:
                meth = e.d['callee'].split('::')[-1]
        out.add((tuple(seq), meth))
    return out


def SIB_apply_account_state(ctx):
    mine = ctx.fn('parallel_state::ParallelCacheState::apply_account_state')
    theirs = ctx.fn('ext::revm_database::CacheState::apply_account_state')
    a = decision_map(mine, 'CacheAccountInfo')
    b = decision_map(theirs, 'CacheAccount')
    ctx.ob('SIB', mine, 'lifecycle-decision-agrees-with-revm', a == b and len(a) >= 5,
           f'grevm only: {sorted(map(str, a - b))[:3]} ; revm only: {sorted(map(str, b - a))[:3]}', site=mine.loc(mine.b['lo']),
           what='untouched ⇒ nothing; selfdestructed ⇒ selfdestruct; created ⇒ newly_created; empty ⇒ touch_empty_eip161; else change — in revm\'s priority order')
    # arguments of the lifecycle calls
    bad = []
    for p in feasible(mine.paths()):
        for e in p.events:
            if e.kind == 'call' and 'CacheAccountInfo' in e.d['callee'] and e.d['callee'].split('::')[-1] in ('newly_created', 'change'):
                if not (mentions_field(e.d['args'][1], 'Account.info') and has_call(e.d['args'][2], '::collect') and mentions_field(e.d['args'][2], 'Account.storage')):
                    bad.append(e)
                if not has_call(e.d['args'][0], 'ParallelCacheState::get_account_mut'):
                    bad.append(e)
            if e.kind == 'call' and e.d['callee'].endswith('ParallelCacheState::get_account_mut') and e.d['args'][1] != ('arg', 2):
                bad.append(e)
    ctx.ob('SIB', mine, 'lifecycle-call-arguments', not bad, '; '.join(site(mine, e) for e in bad[:3]), site=mine.loc(mine.b['lo']),
           what='the cached account of THIS address gets the journal account\'s info and its changed storage')
    # changed-storage filter closure: slot.is_changed()
    okf = False
    for c in ctx.facts.closures_of(mine.name):
        cf = ctx.fn(c)
        for p in feasible(cf.paths()):
            r = [e for e in p.events if e.kind == 'ret'][0].d['value']
            if has_call(r, 'EvmStorageSlot::is_changed'):
                okf = True
    ctx.ob('SIB', mine, 'only-changed-slots-enter-the-transition', okf, '', site=mine.loc(mine.b['lo']))


def is_closure_call(e):
    return e.kind == 'call' and (re.search(r'Fn(Mut|Once)?::call', e.d['callee']) is not None or '{closure#' in e.d['callee'])


def D4_T1_storage_clearing(ctx):
    f = ctx.fn('parallel_state::ParallelCacheState::apply_account_state')
    n = 0
    bad_missing, bad_order = [], []
    for p in feasible(f.paths()):
        for e in p.events:
            if e.kind == 'call' and 'CacheAccountInfo' in e.d['callee'] and e.d['callee'].split('::')[-1] in ('selfdestruct', 'newly_created', 'touch_empty_eip161'):
                n += 1
                i = idx_of(p, e)
                rm = [j for j, x in enumerate(p.events) if x.kind == 'call' and norm_callee(x.d['callee']).endswith('DashMap::remove') and mentions_field(x.d['args'][0], 'ParallelCacheState.storage')
                      and strip(x.d['args'][1]) == ('arg', 2)]
                if not rm:
                    bad_missing.append(e)
                elif rm[0] < i:
                    bad_order.append(e)
                # created: new storage installed after the clear
                if e.d['callee'].endswith('newly_created'):
                    us = [j for j, x in enumerate(p.events) if is_call(x, 'ParallelCacheState::update_storage_slot')]
                    if us and rm and us[0] < rm[0]:
                        bad_order.append(e)
            if e.kind == 'call' and 'CacheAccountInfo' in e.d['callee'] and e.d['callee'].endswith('::change'):
                if [x for x in p.events if x.kind == 'call' and norm_callee(x.d['callee']).endswith('DashMap::remove') and mentions_field(x.d['args'][0], 'ParallelCacheState.storage')]:
                    bad_missing.append(e)
    ctx.count('D4.lifecycle-arms', n)
    ctx.ob('D4', f, 'storage-cleared-on-destroy-create-empty', n >= 3 and not bad_missing,
           '; '.join(f'{site(f, e)} {short(e.d["callee"])}' for e in bad_missing[:3]), site=f.loc(f.b['lo']),
           what='the slot side-map replaces PlainAccount.storage: destroying, (re)creating or empty-touching an account must drop its cached slots (and a plain change must not), otherwise later reads serve pre-destruction values')
    ctx.ob('T1', f, 'status-transition-before-storage-clear', not bad_order,
           '; '.join(f'{site(f, e)} storage.remove precedes {short(e.d["callee"])}' for e in bad_order[:3]),
           site=site(f, bad_order[0]) if bad_order else f.loc(f.b['lo']),
           what='a concurrent cache-filling reader re-checks "storage known" under the slot-map entry; that closes the race only if the committer flips the status BEFORE it clears the slots')
    # reader side
    g = ctx.method('parallel_state::ParallelStateView', 'db_storage')
    may = MayCalls(ctx.facts)
    bad = []
    n_fetch = 0
    for p in feasible(g.paths()):
        fetch = [i for i, e in enumerate(p.events) if e.kind == 'call' and (callee_matches(e.d['callee'], '::storage_ref') or may.may(e, 'DatabaseRef::storage_ref')) and
                 not callee_matches(e.d['callee'], ('DashMap::get', '::is_some_and'))]
        if not fetch:
            continue
        ret = [e for e in p.events if e.kind == 'ret'][0].d['value']
        if not (ret[0] == 'agg' and ret[2] == 'Ok'):
            continue
        n_fetch += 1
        i0 = fetch[0]
        # insertion event: or_insert/insert on a slot map, or a closure call that may do so
        ins = None
        for j in range(i0 + 1, len(p.events)):
            e = p.events[j]
            fetched = p.events[i0].d['result']
            # the slot is filled with the fetched value, or with zero when the re-check found the storage known meanwhile
            direct = e.kind == 'call' and callee_matches(e.d['callee'], ('Entry::or_insert', '::or_insert_with', 'VacantEntry::insert')) and \
                (any(mentions(a, fetched) for a in e.d['args'][1:]) or any(a[0] == 'const' and 'ZERO' in a[1] for a in e.d['args'][1:])) and \
                e.d['args'] and has_call(e.d['args'][0], '~DashMap') and not mentions_field(e.d['args'][0], 'ParallelCacheState.accounts')
            if direct or (is_closure_call(e) and may.may(e, ('Entry::or_insert', '~or_insert'))):
                if any(g_[0].startswith('dashmap') and g_[1] is not None and mentions_field(g_[1], 'ParallelCacheState.storage') for g_ in e.held) or \
                        (e.d['args'] and has_call(e.d['args'][0], '~DashMap') and mentions_field(e.d['args'][0], 'ParallelCacheState.storage')):
                    ins = j
                    break
        if ins is None:
            bad.append((p, 'fetched value is not inserted under a guard of the slot map'))
            continue
        e_ins = p.events[ins]
        # guard acquisition index
        acq = [j for j, x in enumerate(p.events[:ins + 1]) if x.kind == 'acquire' and x.d['on'] is not None and mentions_field(x.d['on'], 'ParallelCacheState.storage') and j > i0]
        if not acq:
            bad.append((p, 'slot-map guard acquired before the fetch'))
            continue
        recheck = False
        for x in p.events[acq[0]:ins]:
            if x.kind == 'call' and (callee_matches(x.d['callee'], 'AccountStatus::is_storage_known') or may.may(x, 'AccountStatus::is_storage_known')):
                recheck = True
            # the account entry is read again under the guard (absent ⇒ storage not known)
            if x.kind == 'call' and norm_callee(x.d['callee']).endswith('DashMap::get') and mentions_field(x.d['args'][0], 'ParallelCacheState.accounts'):
                recheck = True
        if is_closure_call(e_ins) and may.may(e_ins, 'AccountStatus::is_storage_known'):
            # the inserting closure itself re-checks: require the order inside the closure
            names = [s[1] for s in subterms(e_ins.d['args'][0]) if s[0] == 'closure'] if e_ins.d['args'] else []
            if '{closure#' in e_ins.d['callee']:
                names.append(e_ins.d['callee'])
            for nm in names:
                if nm in ctx.facts.by:
                    cf = ctx.fn(ctx.facts.by[nm])
                    okc = True
                    for q in feasible(cf.paths()):
                        oi = [k for k, y in enumerate(q.events) if y.kind == 'call' and callee_matches(y.d['callee'], ('Entry::or_insert', '::or_insert_with'))]
                        rc = [k for k, y in enumerate(q.events) if y.kind == 'call' and (callee_matches(y.d['callee'], 'AccountStatus::is_storage_known') or may.may(y, 'AccountStatus::is_storage_known'))]
                        if oi and not (rc and rc[0] < oi[0]):
                            okc = False
                    recheck = recheck or okc
        if not recheck:
            bad.append((p, 'a value fetched from the backing database is cached on the strength of a "storage not known" decision taken before the fetch (no re-check under the slot-map guard)'))
    ctx.ob('T1', g, 'fetch-then-or_insert-rechecks-storage-known', n_fetch >= 1 and not bad,
           '; '.join(sorted(set(w for _, w in bad))[:2]), site=g.loc(g.b['lo']),
           what='ordered commit clears the slot map and flips "storage known" concurrently; without the re-check a reader re-inserts a pre-destruction value that the state serves later (sequential replay, next block)')


def T2_reader_mutation_kinds(ctx):
    facts = ctx.facts
    allowed = {'get', 'entry', 'or_insert', 'or_insert_with', 'insert@VacantEntry', 'into_ref', 'get@OccupiedEntry', 'value', 'key', 'contains_key', 'or_default'}
    bad = []
    n = 0
    for m in ('db_basic', 'db_code_by_hash', 'db_storage', 'db_block_hash'):
        f = ctx.method('parallel_state::ParallelStateView', m)
        bodies = [f.b] + facts.closures_under(f.name)
        for b in bodies:
            for bl in b['blocks']:
                if bl['cleanup']:
                    continue
                t = bl['term']
                if t['k'] == 'call' and 'dashmap' in t['callee'].lower():
                    n += 1
                    nc = norm_callee(t['callee'])
                    op = nc.split('::')[-1]
                    owner = nc.split('::')[-2] if '::' in nc else ''
                    key = op if op not in ('insert', 'get') else (op if owner == 'DashMap' and op == 'get' else f'{op}@{owner}')
                    if key == 'get@DashMap':
                        key = 'get'
                    if key not in allowed and not nc.startswith('<dashmap') :
                        bad.append((f, t, key))
    ctx.count('T2.dashmap-call-sites', n)
    ctx.ob('T2', 'parallel_state::ParallelStateView', 'reads-only-insert-if-absent', n >= 10 and not bad,
           '; '.join(f'{f.b["file"]}:{t["line"]} {k}' for f, t, k in bad[:3]),
           what='cache-filling reads may add an absent entry but never overwrite or remove one (a speculative read must not change what the state later serves)')


def T3_view_fields(ctx):
    st = ctx.facts.structs
    v = [k for k in st if k.endswith('parallel_state::ParallelStateView')]
    ok = len(v) == 1
    names = [f['name'] for f in st[v[0]]] if ok else []
    ctx.ob('T3', 'parallel_state::ParallelStateView', 'view-excludes-transition-and-bundle', ok and 'transition_state' not in names and 'bundle_state' not in names
           and not any('TransitionState' in f['ty'] or 'BundleState' in f['ty'] for f in st[v[0]]),
           f'fields {names}', what='workers share the view; transition aggregation and the bundle stay exclusively with ordered commit')
    sp = ctx.method('parallel_state::ParallelState<DB>', 'split_for_parallel')
    ok2 = False
    for p in feasible(sp.paths()):
        ret = [e for e in p.events if e.kind == 'ret'][0].d['value']
        if ret[0] == 'agg' and ret[1] == 'tuple':
            cm = ret[3][1]
            ok2 = cm[0] == 'agg' and cm[1].endswith('ParallelStateCommit') and mentions_field(cm, 'ParallelState.transition_state')
    ctx.ob('T3', sp, 'commit-half-owns-transition-state', ok2, '', site=sp.loc(sp.b['lo']))
    # commit(): transitions from apply_evm_state_inner are added to the transition state
    cf = [b for b in ctx.facts.production() if b['fn'].endswith('::commit') and 'ParallelStateCommit' in b['fn']]
    okc = False
    for b in cf:
        f = ctx.fn(b)
        for p in feasible(f.paths()):
            ap = [e for e in p.events if is_call(e, 'ParallelCacheState::apply_evm_state_inner')]
            ad = [e for e in p.events if e.kind == 'call' and e.d['callee'].endswith('TransitionState::add_transitions')]
            if ap and ad and mentions(ad[0].d['args'][1], ap[0].d['result']):
                okc = True
    ctx.ob('T3', 'ParallelStateCommit::commit', 'commit-applies-cache-then-records-transitions', okc, '',
           what='every committed journal state updates the cache and (when bundle updates are on) contributes its transitions')


def D1_finalized_account(ctx):
    f = ctx.fn("<account::FinalizedAccount<'a> as std::convert::From<&'a revm_state::Account>>::from")
    mp = set()
    for p in feasible(f.paths()):
        seq = []
        for a in p.events:
            if a.kind == 'atom' and a.d['term'][0] == 'call' and any(a.d['term'][1].endswith(x) for x in PREDS):
                seq.append((a.d['term'][1].split('::')[-1], a.d['outcome']))
            if a.kind == 'atom' and a.d['term'][0] == 'un' and a.d['term'][2][0] == 'call' and any(a.d['term'][2][1].endswith(x) for x in PREDS):
                seq.append((a.d['term'][2][1].split('::')[-1], 'false' if a.d['outcome'] == 'true' else 'true'))
        ret = [e for e in p.events if e.kind == 'ret'][0].d['value']
        mp.add((tuple(seq), variant_of(ret)))
    exp = {
        ((('is_touched', 'false'),), 'Unchanged'),
        ((('is_touched', 'true'), ('is_selfdestructed', 'true')), 'Deleted'),
        ((('is_touched', 'true'), ('is_selfdestructed', 'false'), ('is_created', 'true')), 'Created'),
        ((('is_touched', 'true'), ('is_selfdestructed', 'false'), ('is_created', 'false'), ('is_empty', 'true')), 'Deleted'),
        ((('is_touched', 'true'), ('is_selfdestructed', 'false'), ('is_created', 'false'), ('is_empty', 'false')), 'Updated'),
    }
    theirs = ctx.fn('ext::revm_database::CacheState::apply_account_state')
    b = decision_map(theirs, 'CacheAccount')
    revm_map = {'selfdestruct': 'Deleted', 'newly_created': 'Created', 'touch_empty_eip161': 'Deleted', 'change': 'Updated', None: 'Unchanged'}
    from_revm = {(seq, revm_map[m]) for seq, m in b if m is not None or seq == (('is_touched', 'false'),)}
    ctx.ob('D1', f, 'classification-table', mp == exp, f'got {sorted(map(str, mp - exp))[:3]} missing {sorted(map(str, exp - mp))[:3]}', site=f.loc(f.b['lo']),
           what='¬touched ⇒ Unchanged; selfdestructed ⇒ Deleted; created ⇒ Created; empty ⇒ Deleted; else Updated — in this priority (a created-then-destroyed account is Deleted)')
    ctx.ob('D1', f, 'classification-agrees-with-revm-commit-decision', from_revm == exp, f'revm-derived table: {sorted(map(str, from_revm))[:6]}', site=f.loc(f.b['lo']),
           what='the classification is the same decision revm\'s CacheState::apply_account_state makes on the locked revm version')


def BU_bundle(ctx):
    fns = [b for b in ctx.facts.production() if b['fn'].endswith('::parallel_apply_transitions_and_create_reverts') and b['kind'] == 'assoc' and 'BundleState' in b['fn']]
    if len(fns) != 1:
        raise AnchorLost('parallel_apply_transitions_and_create_reverts impl for BundleState')
    f = ctx.fn(fns[0])
    # second phase: whatever the parallel preparation produced is installed, under no further condition
    dropped = []
    n_inst = 0
    for p in [q for q in f.paths(max_visits=2) if q.end in ('return', 'cut')]:
        first = set()
        for k, a in enumerate(p.events):
            if a.kind != 'atom' or a.d['term'][0] != 'discr' or a.d['outcome'] != 'Some':
                continue
            x = strip(a.d['term'][1])
            if x[0] != 'field' or a.d['term'][1] in first:
                continue    # (the same decision is re-stated when the moved-out field's drop flag is consulted at the loop head)
            first.add(a.d['term'][1])
            nxt = p.events[k + 1:k + 9]
            if x[2].endswith('ProcessedTransition.contract'):
                n_inst += 1
                if not [e for e in nxt if e.kind == 'call' and e.d['callee'].endswith('::insert') and mentions_field(e.d['args'][0], 'BundleState.contracts')]:
                    dropped.append('contract')
            elif x[2].endswith('ProcessedTransition.account'):
                n_inst += 1
                # this iteration: up to the next item
                it = []
                for e in p.events[k + 1:]:
                    if e.kind == 'call' and e.d['callee'].endswith('::next'):
                        break
                    it.append(e)
                ins = [e for e in it if e.kind == 'call' and e.d['callee'].endswith('::insert') and mentions_field(e.d['args'][0], 'BundleState.state')]
                if not ins or not (mentions_field(ins[0].d['args'][1], '.address') and mentions_field(ins[0].d['args'][2], '.present')):
                    dropped.append('account')
                # its revert is looked at, and kept when there is one
                looked = [e for e in it if (e.kind == 'atom' and mentions_field(e.d['term'], '.revert')) or
                          (e.kind == 'call' and any(mentions_field(a_, '.revert') for a_ in e.d['args']))]
                if not looked:
                    dropped.append('revert (never looked at)')
                for m_, e in enumerate(it):
                    if e.kind == 'atom' and e.d['term'][0] == 'discr' and e.d['outcome'] == 'Some' and mentions_field(e.d['term'][1], '.revert'):
                        if not [y for y in it[m_ + 1:m_ + 9] if y.kind == 'call' and y.d['callee'].endswith(('::push', '::extend'))] and \
                                not [y for y in it if y.kind == 'call' and y.d['callee'].endswith('::extend') and any(mentions_field(a_, '.revert') for a_ in y.d['args'])]:
                            dropped.append('revert')
    ctx.ob('BU', f, 'prepared-transitions-are-installed', n_inst >= 3 and not dropped, f'decisions seen={n_inst}; not installed: {sorted(set(dropped))}', site=f.loc(f.b['lo']),
           what='each prepared contract / account / revert is inserted into the bundle exactly when it is present: a further condition drops a change from the bundle or from its reverts')
    bad = []
    n_del = n_par = 0
    for p in feasible(f.paths()):
        deleg = [e for e in p.events if e.kind == 'call' and e.d['callee'].endswith('BundleState::apply_transitions_and_create_reverts')]
        empties = [a for a in p.events if a.kind == 'atom' and ((a.d['term'][0] == 'call' and callee_matches(a.d['term'][1], '::is_empty')) or
                                                              (a.d['term'][0] == 'un' and a.d['term'][2][0] == 'call' and callee_matches(a.d['term'][2][1], '::is_empty')))]
        def is_empty_true(a):
            t = a.d['term']
            neg = False
            while t[0] == 'un':
                t = t[2]
                neg = not neg
            return (a.d['outcome'] == 'true') != neg, t[2][0]
        if deleg:
            n_del += 1
            if not any(not is_empty_true(a)[0] for a in empties):
                bad.append((p, 'delegates to revm although the bundle is empty'))
            if deleg[0].d['args'][1:] != (('arg', 2), ('arg', 3)):
                bad.append((p, 'delegation does not forward (transitions, retention)'))
            if [e for e in p.events if e.kind == 'call' and 'par_iter' in e.d['callee']]:
                bad.append((p, 'parallel build and delegation on one path'))
        else:
            n_par += 1
            fields = set()
            for a in empties:
                v, recv = is_empty_true(a)
                if not v:
                    bad.append((p, 'parallel build although part of the bundle is non-empty'))
                for s in subterms(recv):
                    if s[0] == 'field':
                        fields.add(s[2].split('.')[-1])
            if not {'state', 'contracts', 'reverts'} <= fields:
                bad.append((p, f'parallel build guarded only by emptiness of {sorted(fields)}'))
            pr = [e for e in p.events if e.kind == 'call' and e.d['callee'].endswith('Vec::<T, A>::push') or (e.kind == 'call' and norm_callee(e.d['callee']).endswith('Vec::push') and mentions_field(e.d['args'][0], 'BundleState.reverts'))]
            if not [e for e in p.events if e.kind == 'call' and norm_callee(e.d['callee']).endswith('Vec::push') and mentions_field(e.d['args'][0], 'BundleState.reverts')]:
                bad.append((p, 'no revert list pushed for the block'))
    ctx.ob('BU', f, 'non-empty-bundle-uses-revm-merge', n_del >= 1 and n_par >= 1 and not bad, '; '.join(sorted(set(w for _, w in bad))[:3]), site=f.loc(f.b['lo']),
           what='the two-phase builder is only equivalent to revm for an initially empty bundle (Vacant entries); any pre-populated part must go through revm\'s occupied-entry merge; exactly one revert list is pushed per block')
    # the map closure: uses revm's own per-transition helpers
    okh = set()
    for b in ctx.facts.code_under(f.name):
        if True:
            for bl in b['blocks']:
                t = bl['term']
                if t['k'] == 'call':
                    # called directly, or handed to a combinator as a function item (`map_or(0, AccountRevert::size_hint)`)
                    names = [t['callee']] + [a['fndef'] for a in t['args'] if a.get('k') == 'const' and 'fndef' in a]
                    for h in ('TransitionAccount::has_new_contract', 'TransitionAccount::present_bundle_account', 'TransitionAccount::create_revert', 'AccountRevert::size_hint', 'BundleAccount::size_hint', 'BundleRetention::includes_reverts'):
                        if any(n.endswith(h) for n in names):
                            okh.add(h.split('::')[-1] + '@' + h.split('::')[0])
    for bl in f.b['blocks']:
        t = bl['term']
        if t['k'] == 'call' and t['callee'].endswith('BundleRetention::includes_reverts'):
            okh.add('includes_reverts@BundleRetention')
    need = {'has_new_contract@TransitionAccount', 'present_bundle_account@TransitionAccount', 'create_revert@TransitionAccount', 'size_hint@AccountRevert', 'size_hint@BundleAccount', 'includes_reverts@BundleRetention'}
    ctx.ob('BU', f, 'builder-uses-revm-transition-helpers', need <= okh, f'missing {sorted(need - okh)}', site=f.loc(f.b['lo']),
           what='present account, revert, new contract and the two size hints come from revm\'s own TransitionAccount/BundleAccount/AccountRevert methods')
    # sibling: revm's Vacant branch uses the same helpers
    theirs = ctx.fn('ext::revm_database::BundleState::apply_transitions_and_create_reverts')
    used = set()
    for bl in theirs.b['blocks']:
        t = bl['term']
        if t['k'] == 'call':
            for h in ('TransitionAccount::has_new_contract', 'TransitionAccount::present_bundle_account', 'TransitionAccount::create_revert', 'AccountRevert::size_hint', 'BundleAccount::size_hint', 'BundleRetention::includes_reverts'):
                if t['callee'].endswith(h):
                    used.add(h.split('::')[-1] + '@' + h.split('::')[0])
    ctx.ob('BU', f, 'revm-vacant-branch-uses-the-same-helpers', need <= used, f'revm uses {sorted(used)}', site=f.loc(f.b['lo']),
           what='sibling check against the locked revm version: if revm changes how a vacant entry is built, the hand copy must follow')
    # accounting in the serial phase
    bad = []
    st_sz = rv_sz = ins = cins = 0
    for p in feasible(f.paths(max_visits=2)):
        for e in p.events:
            if e.kind == 'assign' and e.d['place'][0] == 'field' and e.d['place'][2].endswith('BundleState.state_size'):
                st_sz += 1
                if not mentions_field(e.d['value'], 'ProcessedAccount.state_size'):
                    bad.append('state_size')
            if e.kind == 'assign' and e.d['place'][0] == 'field' and e.d['place'][2].endswith('BundleState.reverts_size'):
                rv_sz += 1
                if not mentions_field(e.d['value'], 'ProcessedAccount.revert_size'):
                    bad.append('reverts_size')
            if e.kind == 'call' and norm_callee(e.d['callee']).endswith('::insert') and e.d['args'] and mentions_field(e.d['args'][0], 'BundleState.state'):
                ins += 1
            if e.kind == 'call' and norm_callee(e.d['callee']).endswith('::insert') and e.d['args'] and mentions_field(e.d['args'][0], 'BundleState.contracts'):
                cins += 1
    ctx.ob('BU', f, 'size-accounting-and-inserts', st_sz >= 1 and rv_sz >= 1 and ins >= 1 and cins >= 1 and not bad, f'state_size={st_sz} reverts_size={rv_sz} state.insert={ins} contracts.insert={cins} bad={bad[:2]}', site=f.loc(f.b['lo']),
           what='state_size / reverts_size accumulate the per-account hints; present accounts and new contracts are inserted')
    tb = [b for b in ctx.facts.production() if b['fn'].endswith('::parallel_take_bundle')]
    okt = False
    for b in tb:
        g = ctx.fn(b)
        for p in feasible(g.paths()):
            tk = [e for e in p.events if e.kind == 'call' and e.d['callee'].endswith('TransitionState::take') or (e.kind == 'call' and norm_callee(e.d['callee']).endswith('Option::map') and 'TransitionState::take' in show(e.d['args'][1]))]
            ap = [e for e in p.events if e.kind == 'call' and e.d['callee'].endswith('parallel_apply_transitions_and_create_reverts')]
            t2 = calls(p, 'ParallelState::take_bundle') or [e for e in p.events if e.kind == 'call' and norm_callee(e.d['callee']).endswith('::take_bundle')]
            if ap and t2 and idx_of(p, ap[0]) < idx_of(p, t2[0]) and ap[0].d['args'][2] == ('arg', 2):
                okt = True
    ctx.ob('BU', 'ParallelState::parallel_take_bundle', 'pending-transitions-merged-before-take', okt, '',
           what='extraction drains the pending transitions into the bundle (with the caller\'s retention) before taking it')


# ------------------------------------------------------------------------------------------------
# T6 / T7: the commit-side helpers that carry the journal output into the cache and the transition list


def _loop_items(p, src_pred):
    """`next()` calls on an iterator derived from a source satisfying src_pred, decided `Some` on this path:
    returns [(event index of the decision, item term)]"""
    out = []
    for i, e in enumerate(p.events):
        if e.kind != 'atom':
            continue
        t = e.d['term']
        if t[0] == 'discr' and t[1][0] == 'call' and t[1][1].endswith('::next') and e.d['outcome'] == 'Some' and any(src_pred(s) for s in subterms(t[1])):
            out.append((i, ('down', t[1], 'Some')))
    return out


def _projs(t):
    """field names along the projection spine of a term (outermost first), looking through derefs/copies"""
    out = []
    t = strip(t)
    while True:
        if t[0] == 'field':
            out.append(t[2] if t[2].startswith('tuple.') else t[2].split('::')[-1])
            t = t[1]
        elif t[0] in ('down', 'cast'):
            t = t[1]
        elif t[0] == 'un':
            t = t[2]
        elif t[0] == 'call' and is_transparent(t[1]) and t[2]:
            t = t[2][0]
        else:
            return out


def T6_slots_installed(ctx):
    """update_storage_slot(address, slots): whichever way the per-account slot map is found (already
    cached, created concurrently by a reader between the lookup and the entry call, or absent) every
    (slot, value) handed in is written into THAT account's map"""
    f = ctx.fn('parallel_state::ParallelCacheState::update_storage_slot')
    n_items, bad = 0, []
    arms = set()
    for p in feasible(f.paths()):
        ext = [e for e in p.events if e.kind == 'call' and e.d['callee'].endswith('::extend') and len(e.d['args']) >= 2 and mentions(e.d['args'][1], ('arg', 3))]
        items = _loop_items(p, lambda s: s == ('arg', 3))
        for e in ext:
            n_items += 1
            items = []
        # `storage.into_iter().collect::<DashMap<_, _>>()` (or from_iter) builds the fresh map with every slot in it
        col = [e for e in p.events if e.kind == 'call' and (e.d['callee'].endswith('::collect') or e.d['callee'].endswith('::from_iter')) and e.d['args'] and mentions(e.d['args'][0], ('arg', 3))]
        for e in col:
            n_items += 1
            inst = [x for x in p.events if x.kind == 'call' and callee_matches(x.d['callee'], ('VacantEntry::insert', 'DashMap::insert')) and
                    any(strip(a) == strip(e.d['result']) for a in x.d['args'][1:]) and
                    (mentions_field(x.d['args'][0], 'ParallelCacheState.storage') or
                     any(s[0] == 'call' and norm_callee(s[1]).endswith('DashMap::entry') and mentions_field(s[2][0], 'ParallelCacheState.storage') and strip(s[2][1]) == ('arg', 2)
                         for s in subterms(x.d['args'][0])))]
            if not inst:
                bad.append((p, idx_of(p, e), 'slots are collected into a fresh map that is never installed for the address'))
            else:
                arms.add('vacant')
        consumed = ext or col or [e for e in p.events if e.kind == 'call' and e.d['callee'].endswith('::next') and mentions(e.d['args'][0], ('arg', 3))] or \
            [a for a in p.events if a.kind == 'atom' and a.d['term'][0] == 'discr' and a.d['term'][1][0] == 'call' and a.d['term'][1][1].endswith('::next') and mentions(a.d['term'][1], ('arg', 3))]
        if not consumed:
            bad.append((p, len(p.events) - 1, 'this arm returns without writing the slots it was given'))
        for i, item in items:
            n_items += 1
            ins = [x for x in p.events[i:] if x.kind == 'call' and norm_callee(x.d['callee']).endswith('DashMap::insert') and len(x.d['args']) == 3 and
                   mentions(x.d['args'][1], item) and mentions(x.d['args'][2], item)]
            if not ins:
                bad.append((p, i, 'a slot taken from the argument is not inserted'))
                continue
            if not ('tuple.0' in _projs(ins[0].d['args'][1]) and 'tuple.1' in _projs(ins[0].d['args'][2])):
                bad.append((p, i, 'the (slot, value) pair is not inserted as key = slot, value = value'))
                continue
            tgt = ins[0].d['args'][0]
            from_account_map = any(s[0] == 'call' and norm_callee(s[1]).endswith(('DashMap::get', 'DashMap::entry', 'DashMap::get_mut')) and
                                   mentions_field(s[2][0], 'ParallelCacheState.storage') and strip(s[2][1]) == ('arg', 2) for s in subterms(tgt))
            fresh = tgt[0] == 'call' and norm_callee(tgt[1]).endswith(('DashMap::new', '::default', 'DashMap::with_capacity'))
            if from_account_map:
                arms.add('existing' if has_call(tgt, 'DashMap::get') or has_call(tgt, 'DashMap::get_mut') else 'occupied')
            elif fresh:
                inst = [x for x in p.events if x.kind == 'call' and callee_matches(x.d['callee'], ('VacantEntry::insert', 'DashMap::insert')) and
                        any(strip(a) == strip(tgt) for a in x.d['args'][1:]) and
                        (mentions_field(x.d['args'][0], 'ParallelCacheState.storage') or
                         any(s[0] == 'call' and norm_callee(s[1]).endswith('DashMap::entry') and mentions_field(s[2][0], 'ParallelCacheState.storage') and strip(s[2][1]) == ('arg', 2)
                             for s in subterms(x.d['args'][0])))]
                if not inst:
                    bad.append((p, i, 'slots are written into a fresh map that is never installed for the address'))
                else:
                    arms.add('vacant')
            else:
                bad.append((p, i, f'slots are inserted into {show(tgt)[:60]}, not into the slot map of the address argument'))
    ctx.count('T6.slot-iterations', n_items)
    ctx.ob('T6', f, 'every-slot-installed-in-every-arm', n_items >= 1 and not bad,
           '; '.join(sorted({f'{site(f, p.events[i])} {why}' for p, i, why in bad})[:3]) + f' arms={sorted(arms)}', site=f.loc(f.b['lo']),
           what='committed storage lives in the per-address slot side-map; a slot dropped in any arm (the map already cached, created meanwhile by a cache-filling reader, or absent) makes later reads serve the backing database value instead of the committed one')
    # T7: apply_evm_state_inner
    g = ctx.fn('parallel_state::ParallelCacheState::apply_evm_state_inner')
    bodies = [g] + [ctx.fn(c) for c in ctx.facts.closures_under(g.name)] if hasattr(ctx.facts, 'closures_under') else [g]
    n_app, bad7 = 0, []
    for body in bodies:
        for p in feasible(body.paths()):
            for e in p.events:
                if not (e.kind == 'call' and norm_callee(e.d['callee']).endswith('ParallelCacheState::apply_account_state')):
                    continue
                n_app += 1
                a_addr, a_acc = e.d['args'][1], e.d['args'][2]
                # address and account come from the same (address, account) pair
                def base(t):
                    t = strip(t)
                    while t[0] == 'field' and t[2].startswith('tuple.'):
                        return t[1]
                    return t
                if strip(a_addr) == strip(a_acc) or (base(a_addr) != base(a_acc) and not (a_addr[0] == 'arg' and a_acc[0] == 'arg')):
                    bad7.append((body, e, 'address and account are not the two halves of one journal entry'))
                res = e.d['result']
                some = [x for x in p.events if x.kind == 'atom' and option_fact(x) and strip(option_fact(x)[0]) == strip(res)]
                if some and option_fact(some[0])[1] == 'Some':
                    pay = [t for x in p.events for t in ([a for a in x.d['args']] if x.kind == 'call' and callee_matches(x.d['callee'], 'Vec::push') else ([x.d['value']] if x.kind == 'ret' else []))]
                    okp = any(any(s[0] == 'agg' and len(s) > 3 and any(strip(z) == strip(a_addr) for z in s[3]) and any(mentions(z, res) for z in s[3]) for s in subterms(t)) for t in pay)
                    if not okp:
                        bad7.append((body, e, 'a produced transition is not recorded together with its address'))
                    rets = [x for x in p.events if x.kind == 'ret']
                    pushes = [x for x in p.events if x.kind == 'call' and callee_matches(x.d['callee'], 'Vec::push')]
                    if body is g and pushes and rets and strip(rets[0].d['value']) != strip(pushes[0].d['args'][0]):
                        bad7.append((body, e, 'the returned list is not the list the transitions were pushed to'))
    ctx.count('T7.apply-account-state-calls', n_app)
    ctx.ob('T7', g, 'every-transition-recorded-with-its-address', n_app >= 1 and not bad7,
           '; '.join(sorted({f'{site(b, e)} {why}' for b, e, why in bad7})[:3]), site=g.loc(g.b['lo']),
           what='each touched account of the committed journal state is applied under its own address and every transition it yields reaches the transition state (bundle, reverts) under that address')


# ------------------------------------------------------------------------------------------------
# T8: what the lifecycle functions leave in the cache and hand back (survivors of the mutation sweep)


def _final_account(p):
    """what `self.account` holds when the path returns: 'None' (taken / assigned None), ('Some', term) or None if untouched"""
    state = None
    for e in p.events:
        if e.kind == 'call' and norm_callee(e.d['callee']).endswith(('Option::take', 'mem::take')) and e.d['args'] and \
                is_field(strip(e.d['args'][0]), 'CacheAccountInfo.account') or \
                (e.kind == 'call' and norm_callee(e.d['callee']).endswith(('Option::take', 'mem::take')) and e.d['args'] and is_field(strip(e.d['args'][0]), 'CacheAccount.account')):
            state = 'None'
        if e.kind == 'assign' and e.d['place'][0] == 'field' and e.d['place'][2].endswith(('CacheAccountInfo.account', 'CacheAccount.account')) and strip(e.d['place'][1]) == ('arg', 1):
            v = e.d['value']
            state = 'None' if variant_of(v) == 'None' else ('Some', v)
    return state


def T8_lifecycle_results(ctx):
    facts = ctx.facts
    # (a) the cached account after each lifecycle step
    want = {'selfdestruct': 'None', 'touch_empty_eip161': 'None', 'newly_created': 2, 'change': 2}
    for meth, w in want.items():
        f = ctx.method('parallel_state::CacheAccountInfo', meth)
        bad = []
        for p in feasible(f.paths()):
            st = _final_account(p)
            if w == 'None':
                if st != 'None':
                    bad.append(f'the cached account is {"left in place" if st is None else "set to a value"} (it must be gone)')
            else:
                if not (isinstance(st, tuple) and variant_of(st[1]) == 'Some' and mentions(st[1], ('arg', w))):
                    bad.append('the cached account is not replaced by the new info')
        ctx.ob('T8', f, 'cached-account-after-the-step', not bad, '; '.join(sorted(set(bad))), site=f.loc(f.b['lo']),
               what='destroying or empty-touching an account removes it from the cache (reads then see it absent); creating or changing it stores the new info — the transition alone is not what later reads consult')
    # the same on revm's side (sibling): if revm changes what it leaves behind, the copy must follow
    for meth, w in want.items():
        try:
            g = ctx.fn('ext::revm_database::states::CacheAccount::' + meth)
        except AnchorLost:
            try:
                g = ctx.fn('ext::revm_database::CacheAccount::' + meth)
            except AnchorLost:
                continue
        sts = set()
        for p in feasible(g.paths()):
            st = _final_account(p)
            sts.add('None' if st == 'None' else 'Some' if isinstance(st, tuple) else 'untouched')
        ctx.ob('T8', g, 'revm-leaves-the-same', sts == ({'None'} if w == 'None' else {'Some'}), f'revm CacheAccount::{meth} leaves account {sorted(sts)}', site=g.loc(g.b['lo']))
    # (b) account_info_change: the changed info is stored back
    f = ctx.method('parallel_state::CacheAccountInfo', 'account_info_change')
    bad = []
    for p in feasible(f.paths()):
        st = _final_account(p)
        if not (isinstance(st, tuple) and variant_of(st[1]) == 'Some'):
            bad.append('the changed account info is not stored back')
    ctx.ob('T8', f, 'changed-info-stored-back', not bad, '; '.join(sorted(set(bad))), site=f.loc(f.b['lo']))
    # increment / drain closures
    for meth, check in (('increment_balance', 'inc'), ('drain_balance', 'drain')):
        f = ctx.method('parallel_state::CacheAccountInfo', meth)
        ok = False
        detail = ''
        for c in facts.closures_under(f.name):
            cf = ctx.fn(c)
            for p in feasible(cf.paths()):
                w = assigns(p, 'AccountInfo.balance')
                ret = [e for e in p.events if e.kind == 'ret'][0].d['value']
                if check == 'inc':
                    ok = bool(w) and w[-1].d['value'][0] == 'call' and w[-1].d['value'][1].endswith('::saturating_add') and mentions_field(w[-1].d['value'][2][0], 'AccountInfo.balance') \
                        and any(s[0] == 'upvar' for s in subterms(w[-1].d['value'][2][1]))
                    detail = show(w[-1].d['value'])[:80] if w else 'balance not written'
                else:
                    ok = bool(w) and 'ZERO' in show(w[-1].d['value']) and mentions_field(ret, 'AccountInfo.balance')
                    detail = (show(w[-1].d['value'])[:40] if w else 'balance not written') + ' returns ' + show(ret)[:60]
        ctx.ob('T8', f, 'balance-step', ok, detail, site=f.loc(f.b['lo']),
               what='increment adds the amount to the balance (saturating, as revm); drain zeroes the balance and hands back what was there')
    # (c) apply_account_state: what each arm returns and installs
    f = ctx.fn('parallel_state::ParallelCacheState::apply_account_state')
    bad = []
    rows = set()
    for p in feasible(f.paths()):
        ret = [e for e in p.events if e.kind == 'ret'][0].d['value']
        step = [e for e in p.events if e.kind == 'call' and 'CacheAccountInfo' in e.d['callee'] and e.d['callee'].split('::')[-1] in ('selfdestruct', 'newly_created', 'touch_empty_eip161', 'change')]
        if not step:
            if variant_of(ret) != 'None':
                bad.append('an untouched account yields a transition')
            continue
        s = step[0]
        k = s.d['callee'].split('::')[-1]
        rows.add(k)
        if not mentions(ret, s.d['result']):
            bad.append(f'{k}: the transition returned is not the one the lifecycle step produced ({show(ret)[:50]})')
        if k in ('newly_created', 'change'):
            if variant_of(ret) != 'Some':
                bad.append(f'{k}: the transition is dropped')
            us = calls(p, 'ParallelCacheState::update_storage_slot')
            emp = [a for a in p.events if bool_fact(a) and bool_fact(a)[0][0] == 'call' and bool_fact(a)[0][1].endswith('::is_empty') and mentions(bool_fact(a)[0], s.d['result'])]
            nonempty = bool(emp) and emp[-1] is not None and bool_fact(emp[-1])[1] is False
            if nonempty and not (us and us[0].d['args'][1] == ('arg', 2) and mentions(us[0].d['args'][2], s.d['result'])):
                bad.append(f'{k}: the changed slots are not installed in the slot map of the address')
            if not emp:
                bad.append(f'{k}: the changed slots of the step are not examined')
        if k == 'newly_created':
            ci = [e for e in p.events if e.kind == 'call' and norm_callee(e.d['callee']).endswith(('::or_insert_with', '::or_insert', 'DashMap::insert')) and
                  (mentions_field(e.d['args'][0], 'ParallelCacheState.contracts'))]
            if not ci or not mentions_field(ci[0].d['args'][0], 'AccountInfo.code_hash') and not any(mentions_field(a, 'AccountInfo.code_hash') for a in ci[0].d['args']):
                bad.append('created: the new code is not entered in the contracts cache under its hash')
    ctx.ob('T8', f, 'arms-return-and-install-their-results', rows == {'selfdestruct', 'newly_created', 'touch_empty_eip161', 'change'} and not bad,
           '; '.join(sorted(set(bad))[:3]) + f' rows={sorted(rows)}', site=f.loc(f.b['lo']),
           what='each arm returns the transition of its own lifecycle step (the bundle is built from them), installs the changed slots of that step, and a created contract\'s code becomes readable by hash')
    # (d) db_storage: a slot of an account whose storage is known (destroyed / created in the block / absent) reads as zero
    g = ctx.method('parallel_state::ParallelStateView', 'db_storage')
    okz = n_known = 0
    badz = []
    for p in feasible(g.paths()):
        ret = [e for e in p.events if e.kind == 'ret'][0].d['value']
        if not (ret[0] == 'agg' and ret[2] == 'Ok'):
            continue
        fetch = [e for e in p.events if e.kind == 'call' and callee_matches(e.d['callee'], '::storage_ref') and mentions_field(e.d['args'][0], 'ParallelStateView.database')]
        hit = [a for a in p.events if option_fact(a) and option_fact(a)[1] == 'Some' and has_call(option_fact(a)[0], 'DashMap::get') and mentions_field(option_fact(a)[0], 'ParallelCacheState.storage')]
        if fetch:
            continue
        ins = [e for e in p.events if e.kind == 'call' and callee_matches(e.d['callee'], ('Entry::or_insert', 'VacantEntry::insert')) and any(a[0] == 'const' for a in e.d['args'][1:])]
        for e in ins:
            n_known += 1
            if not any(a[0] == 'const' and 'ZERO' in a[1] for a in e.d['args'][1:]):
                badz.append(show(e.d['args'][1])[:40])
    ctx.ob('T8', g, 'known-storage-reads-zero', n_known >= 1 and not badz, f'paths filling a slot without consulting the database={n_known}; non-zero fills: {badz[:2]}', site=g.loc(g.b['lo']),
           what='when the account\'s storage is known to the cache (destroyed, created in this block, or no account) an uncached slot is zero — never a database value and never anything else')
    # (e) the sequential path commits through the same machinery and keeps the transitions; drain_balances reports every balance
    cm = [b for b in facts.production() if b['fn'].endswith('DatabaseCommit>::commit') and 'ParallelState<DB>' in b['fn'] and 'ParallelStateCommit' not in b['fn']]
    okc = False
    for b in cm:
        cf = ctx.fn(b)
        for p in feasible(cf.paths()):
            ap = [e for e in p.events if e.kind == 'call' and norm_callee(e.d['callee']).endswith(('::apply_evm_state', '::apply_evm_state_inner'))]
            at = [e for e in p.events if e.kind == 'call' and norm_callee(e.d['callee']).endswith(('::apply_transition', 'TransitionState::add_transitions'))]
            if ap and at and mentions(at[0].d['args'][1], ap[0].d['result']) and ap[0].d['args'][1] == ('arg', 2):
                okc = True
    ctx.ob('T8', 'ParallelState::commit', 'sequential-commit-keeps-its-transitions', bool(cm) and okc, '', what='the sequential path commits through ParallelState itself; dropping the transitions there empties the bundle of every sequentially executed block')
    d = ctx.method('parallel_state::ParallelState<DB>', 'drain_balances')
    okd = False
    for p in [q for q in d.paths() if q.end in ('return', 'cut')]:
        dbs = calls(p, 'CacheAccountInfo::drain_balance')
        pu = [e for e in p.events if e.kind == 'call' and norm_callee(e.d['callee']).endswith('Vec::push')]
        if dbs:
            r = dbs[0].d['result']
            if sum(1 for e in pu if mentions(e.d['args'][1], r)) >= 2:
                okd = True
    ctx.ob('T8', d, 'drained-balances-and-transitions-collected', okd, '', site=d.loc(d.b['lo']))


def core_short(n):
    import core
    return core.short_fn(n)


def T9_transitions_forwarded(ctx):
    """wherever a function holds transitions and a transition state exists, the transitions reach it (and pending ones reach the bundle)"""
    facts = ctx.facts
    sinks = ('::add_transitions', '::apply_transitions_and_create_reverts', '::parallel_apply_transitions_and_create_reverts')
    n = 0
    bad = []
    for b in facts.production():
        if b['kind'] not in ('fn', 'assoc') or 'transition_state' not in json.dumps(b['blocks']):
            continue
        f = ctx.fn(b)
        try:
            ps = [p for p in feasible(f.paths(budget=50000)) if p.end == 'return']
        except PathBudget:
            continue
        seen = False
        for p in ps:
            facts_ = [of for of in (option_fact(a) for a in p.events if a.kind == 'atom') if of and of[1] in ('Some', 'None') and mentions_field(of[0], 'transition_state')]
            if not facts_:
                continue
            if facts_[-1][1] == 'Some':
                seen = True
                if not [e for e in p.events if e.kind == 'call' and e.d['callee'].endswith(sinks)]:
                    bad.append(core_short(b['fn']))
        if seen:
            n += 1
    ctx.count('T9.transition-forwarding-sites', n)
    ctx.ob('T9', 'parallel_state::ParallelState', 'transitions-reach-the-transition-state-whenever-there-is-one', n >= 3 and not bad,
           f'sites={n}; ' + '; '.join(sorted(set(bad))[:4]),
           what='commit, increment/drain balances, apply_transition and the two merge/take paths hand their transitions on under no other condition than "a transition state exists"; a dropped transition is a change the bundle and its reverts never see')

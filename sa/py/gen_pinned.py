#!/usr/bin/env python3
"""developer tool, run once on the reference tree: record the items (functions with signature and
callee multiset, struct fields, enum variants) of the pinned commit (+ the two fix: commits) so that a
later rename / move of a private item can be recognised and canonicalised (mirlib.Facts aliases)."""
import json, os, collections
import core, mirlib


def main():
    facts = mirlib.Facts(core.export_facts(), resolve_aliases=False)
    fns = {}
    for b in facts.production():
        if b['kind'] in ('closure',):
            continue
        callees = collections.Counter()
        # calls made by the closures of a function belong to it: moving code into or out of a closure is not a different function
        for bb in [b] + [c for c in facts.bodies if c['fn'].startswith(b['fn'] + '::{closure')]:
            for bl in bb['blocks']:
                t = bl['term']
                if not bl['cleanup'] and t['k'] == 'call':
                    callees[mirlib.norm_callee(t['callee'])] += 1
        fns[b['fn']] = {
            'kind': b['kind'], 'self_ty': b['self_ty'], 'file': b['file'],
            'sig': [l['ty'] for l in b['locals'][:b['argc'] + 1]],
            'callees': sorted(callees.items()),
        }
    out = {
        'functions': fns,
        'structs': {k: [(f['name'], f['ty']) for f in v] for k, v in facts.structs.items() if not k.startswith(('std::', 'core::', 'alloc::'))},
        'enums': {k: v for k, v in facts.enums.items()},
    }
    p = os.path.join(core.VERIF, 'sa', 'specs', 'pinned_items.json')
    json.dump(out, open(p, 'w'), indent=0, sort_keys=True)
    print(len(fns), 'functions', len(out['structs']), 'structs')


if __name__ == '__main__':
    main()

"""Rules over delegated_safety/* and executor.rs (C12, C13, parts of C06/C11)."""
import json
from ru import *


def Q1_guarded_create(ctx):
    f = ctx.fn('delegated_safety::instructions::guarded_create')
    bad = []
    rows = set()
    for p in feasible(f.paths()):
        ret = [e for e in p.events if e.kind == 'ret'][0].d['value']
        at = [a for a in p.events if a.kind == 'atom']
        st = [a for a in at if a.d['term'][0] == 'call' and a.d['term'][1].endswith('RuntimeFlag::is_static')]
        if not st or idx_of(p, st[0]) != min(idx_of(p, a) for a in at):
            bad.append((p, 'the static-context test is not the first decision'))
            continue
        def err(v):
            return ret[0] == 'agg' and ret[2] == 'Err' and variant_of(ret[3][0]) == v
        if st[0].d['outcome'] == 'true':
            rows.add('static')
            if not err('StateChangeDuringStaticCall') or len(at) != 1:
                bad.append((p, 'static context must fail with StateChangeDuringStaticCall before anything else'))
            continue
        c2 = [a for a in at if a.d['term'] == ('const', 'IS_CREATE2') or show(a.d['term']).endswith('IS_CREATE2')]
        pet = [a for a in at if a.d['term'][0] == 'call' and a.d['term'][1].endswith('SpecId::is_enabled_in') and 'PETERSBURG' in show(a.d['term'])]
        if c2 and c2[0].d['outcome'] == 'true' and pet and pet[0].d['outcome'] == 'false':
            rows.add('create2-pre-petersburg')
            if not err('NotActivated') or [e for e in p.events if e.kind == 'call' and e.d['callee'].endswith('Host::load_account_delegated')]:
                bad.append((p, 'CREATE2 before Petersburg must fail with NotActivated before loading anything'))
            continue
        if c2 and c2[0].d['outcome'] == 'false' and pet:
            bad.append((p, 'Petersburg gate applied to CREATE'))
        ld = [e for e in p.events if e.kind == 'call' and e.d['callee'].endswith('Host::load_account_delegated')]
        if len(ld) != 1 or not (ld[0].d['args'][1][0] == 'call' and ld[0].d['args'][1][1].endswith('InputsTr::target_address')):
            bad.append((p, 'the account checked for a delegation is not the frame\'s target_address'))
            continue
        lo = [of for of in (option_fact(a) for a in at) if of and strip(of[0]) == strip(ld[0].d['result'])]
        if lo and lo[0][1] == 'None':
            rows.add('load-failure')
            if not err('FatalExternalError'):
                bad.append((p, 'load failure must be FatalExternalError'))
            continue
        # the designator flag of THIS load, however its presence is tested (is_some / is_none / match / if let)
        dg = [of for of in (option_fact(a) for a in at) if of and of[1] in ('Some', 'None') and of[0][0] == 'field' and of[0][2].endswith('is_delegate_account_cold')
              and mentions(of[0], ld[0].d['result'])]
        if not dg:
            bad.append((p, 'delegation designator not tested'))
            continue
        delegated = dg[0][1] == 'Some'
        if delegated:
            rows.add('delegated')
            if not err('NotActivated') or [e for e in p.events if e.kind == 'call' and e.d['callee'].endswith('contract::create')]:
                bad.append((p, 'delegated context must halt with NotActivated and must not create'))
        else:
            rows.add('plain')
            cr = [e for e in p.events if e.kind == 'call' and e.d['callee'].endswith('contract::create')]
            if len(cr) != 1 or ret != cr[0].d['result'] or cr[0].d['args'] != (('arg', 1),) or not cr[0].d['generic'].startswith('[IS_CREATE2'):
                bad.append((p, 'non-delegated context must tail-call revm\'s create::<same IS_CREATE2>(context)'))
    ctx.ob('Q1', f, 'guard-table', rows == {'static', 'create2-pre-petersburg', 'load-failure', 'delegated', 'plain'} and not bad,
           '; '.join(sorted(set(w for _, w in bad))[:3]) + f' rows={sorted(rows)}', site=f.loc(f.b['lo']),
           what='static ⇒ StateChangeDuringStaticCall; CREATE2 ∧ pre-Petersburg ⇒ NotActivated; load failure ⇒ FatalExternalError; target_address carries a delegation ⇒ NotActivated; else revm\'s own create with the same IS_CREATE2')
    # sibling: revm's prologue makes the same first two decisions with the same results
    g = ctx.fn('ext::revm::revm_interpreter::instructions::contract::create')
    pro = set()
    for p in feasible(g.paths(budget=50000)):
        at = [a for a in p.events if a.kind == 'atom'][:3]
        ret = [e for e in p.events if e.kind == 'ret'][0].d['value']
        if at and at[0].d['term'][0] == 'call' and at[0].d['term'][1].endswith('RuntimeFlag::is_static') and at[0].d['outcome'] == 'true':
            pro.add(('static', variant_of(ret[3][0]) if ret[0] == 'agg' and ret[2] == 'Err' else None, len([a for a in p.events if a.kind == 'atom'])))
        if len(at) >= 3 and show(at[1].d['term']).endswith('IS_CREATE2') and at[1].d['outcome'] == 'true' and 'PETERSBURG' in show(at[2].d['term']) and at[2].d['outcome'] == 'false':
            pro.add(('c2', variant_of(ret[3][0]) if ret[0] == 'agg' and ret[2] == 'Err' else None, 3))
    ctx.ob('Q1', f, 'prologue-agrees-with-revm-create', pro == {('static', 'StateChangeDuringStaticCall', 1), ('c2', 'NotActivated', 3)}, f'revm prologue: {sorted(map(str, pro))}', site=f.loc(f.b['lo']),
           what='the guard repeats revm\'s own first two checks in the same order with the same results, so static-call and pre-Petersburg CREATE2 errors stay bit-identical')


def Q2_Q3_table(ctx):
    f = ctx.fn('delegated_safety::instructions::gravity_instructions')
    pairs = set()
    ok_base = False
    for p in feasible(f.paths()):
        for e in p.events:
            if e.kind == 'call' and e.d['callee'].endswith('EthInstructions::<WIRE, HOST>::insert_instruction') or (e.kind == 'call' and norm_callee(e.d['callee']).endswith('EthInstructions::insert_instruction')):
                op = show(e.d['args'][1]).split('::')[-1]
                ins = show(e.d['args'][2])
                m = re.search(r'guarded_create::<(true|false)', ins)
                pairs.add((op, m.group(1) if m else None))
                # the static gas of the replaced entries stays revm's (0: CREATE/CREATE2 charge dynamically inside the handler)
                if len(e.d['args']) > 3 and not (e.d['args'][3][0] == 'const' and re.match(r'^0(_u\d+|_usize)?$', e.d['args'][3][1])):
                    pairs.add((op, 'static-gas-' + show(e.d['args'][3])))
                if has_call(e.d['args'][0], 'new_mainnet_with_spec') and [c for c in calls_in(e.d['args'][0]) if c[1].endswith('new_mainnet_with_spec')][0][2] == (('arg', 1),):
                    ok_base = True
    ctx.ob('Q2', f, 'opcode-pairing', pairs == {('CREATE', 'false'), ('CREATE2', 'true')} and ok_base, f'{sorted(pairs)} base table for the selected spec={ok_base}', site=f.loc(f.b['lo']),
           what='CREATE ↔ guarded_create::<false>, CREATE2 ↔ guarded_create::<true>, on top of the mainnet table of the SAME spec (all other opcodes and gas costs untouched)')
    b = ctx.fn('scheduler::executor::build_evm')
    bad = []
    rows = set()
    for p in feasible(b.paths()):
        sw = [e for e in p.events if e.kind == 'assign' and e.d['place'][0] == 'field' and e.d['place'][2].endswith('.instruction')]
        flag = [a for a in p.events if a.kind == 'atom' and strip(a.d['term']) == ('arg', 5)]
        prague = [a for a in p.events if a.kind == 'atom' and a.d['term'][0] == 'call' and a.d['term'][1].endswith('SpecId::is_enabled_in') and 'PRAGUE' in show(a.d['term'])]
        on = bool(flag) and flag[0].d['outcome'] == 'true' and bool(prague) and prague[0].d['outcome'] == 'true'
        rows.add(on)
        if on != bool(sw):
            bad.append((p, f'forbid={flag[0].d["outcome"] if flag else None} prague={prague[0].d["outcome"] if prague else None} but table swapped={bool(sw)}'))
        if sw and not (has_call(sw[0].d['value'], 'gravity_instructions') and is_field(strip([c for c in calls_in(sw[0].d['value']) if c[1].endswith('gravity_instructions')][0][2][0]), 'CfgEnv.spec')):
            bad.append((p, 'swapped table is not gravity_instructions(cfg.spec)'))
        if prague and not is_field(strip(prague[0].d['term'][2][0]), 'CfgEnv.spec'):
            bad.append((p, 'Prague gate not on cfg.spec'))
    ctx.ob('Q3', b, 'table-swapped-iff-enabled-and-prague', rows == {True, False} and not bad, '; '.join(sorted(set(w for _, w in bad))[:3]), site=b.loc(b.b['lo']),
           what='the instruction table is replaced ⇔ forbid_delegated_create ∧ spec ≥ Prague; otherwise the engine is stock revm')
    # precompiles registered in build_evm (P4/G2)
    okp = False
    for p in feasible(b.paths()):
        ap = [e for e in p.events if e.kind == 'call' and e.d['callee'].endswith('PrecompilesMap::apply_precompile')]
        ta = [e for e in p.events if is_call(e, 'DynParallelPrecompile::to_alloy')]
        if ap and ta and mentions(ta[0].d['args'][0], ('arg', 4)):
            # the closure handed to apply_precompile installs the adapter (returns Some(adapter)), at the address of the same entry
            okcl = False
            for s_ in subterms(ap[0].d['args'][2] if len(ap[0].d['args']) > 2 else ('unk', '')):
                if s_[0] == 'closure' and s_[1] in ctx.facts.by:
                    cf_ = ctx.fn(ctx.facts.by[s_[1]])
                    rets = [[e for e in q.events if e.kind == 'ret'][0].d['value'] for q in feasible(cf_.paths())]
                    okcl = bool(rets) and all(variant_of(r) == 'Some' for r in rets) and any(mentions(c, ta[0].d['result']) or mentions(strip(c), strip(ta[0].d['result'])) for c in s_[2])
            addr_ok = len(ap[0].d['args']) > 1 and mentions(ap[0].d['args'][1], ('arg', 4))
            if okcl and addr_ok:
                okp = True
    ctx.ob('P4', b, 'custom-precompiles-registered-in-build_evm', okp, '', site=b.loc(b.b['lo']),
           what='both execution paths build their EVM through build_evm, which installs every custom precompile (through the restricted adapter) at its address')
    fs = ctx.fn('delegated_safety::config::DelegatedSafetyConfig::for_spec')
    mp = set()
    for p in feasible(fs.paths()):
        pr = [a for a in p.events if a.kind == 'atom' and a.d['term'][0] == 'call' and a.d['term'][1].endswith('SpecId::is_enabled_in') and 'PRAGUE' in show(a.d['term']) and a.d['term'][2][0] == ('arg', 2)]
        ret = [e for e in p.events if e.kind == 'ret'][0].d['value']
        mp.add((pr[0].d['outcome'] if pr else None, 'self' if ret == ('arg', 1) else 'disabled' if has_call(ret, 'DelegatedSafetyConfig::disabled') else 'other'))
    ctx.ob('Q3', fs, 'policy-inert-before-prague', mp == {('true', 'self'), ('false', 'disabled')}, f'{sorted(mp)}', site=fs.loc(fs.b['lo']))
    d = ctx.fn('delegated_safety::config::DelegatedSafetyConfig::disabled')
    okd = False
    for p in feasible(d.paths()):
        ret = [e for e in p.events if e.kind == 'ret'][0].d['value']
        okd = ret[0] == 'agg' and ret[3] == (('const', 'false'), ('const', 'false'))
    ctx.ob('Q3', d, 'disabled-means-both-off', okd, '', site=d.loc(d.b['lo']))
    bl = ctx.method('scheduler::Scheduler<DB>', 'build')
    okb = False
    bad_extra = []
    for p in feasible(bl.paths()):
        w = [e for e in p.events if e.kind == 'assign' and e.d['place'][0] == 'field' and e.d['place'][2].endswith('GrevmConfig.delegated_safety')]
        # first use of the policy: the planner is built iff reserve_delegated_balance (then / then_some / if)
        rp = [e for e in p.events if (e.kind == 'call' and callee_matches(e.d['callee'], ('::then', '::then_some')) and mentions_field(e.d['args'][0], 'reserve_delegated_balance'))
              or (e.kind == 'atom' and bool_fact(e) and mentions_field(bool_fact(e)[0], 'reserve_delegated_balance'))]
        if w and has_call(w[0].d['value'], 'DelegatedSafetyConfig::for_spec') and is_field(strip([c for c in calls_in(w[0].d['value']) if c[1].endswith('for_spec')][0][2][1]), 'CfgEnv.spec') \
                and rp and idx_of(p, rp[0]) > idx_of(p, w[0]):
            okb = True
        # the spec normalisation is the ONLY thing that may change the configured policy on its way into the scheduler
        extra = [e for e in p.events if e.kind == 'assign' and e.d['place'][0] == 'field' and
                 (e.d['place'][2].endswith(('DelegatedSafetyConfig.forbid_delegated_create', 'DelegatedSafetyConfig.reserve_delegated_balance')) or
                  (e.d['place'][2].endswith('GrevmConfig.delegated_safety') and e is not (w[0] if w else None)))]
        if extra:
            bad_extra.append(f'{site(bl, extra[0])} the policy is modified after (or besides) the per-spec normalisation')
    ctx.ob('Q3', bl, 'policy-normalised-before-use', okb and not bad_extra, '; '.join(sorted(set(bad_extra))[:2]), site=bl.loc(bl.b['lo']),
           what='Scheduler::build replaces the configured policy by for_spec(cfg.spec) before the reserve planner is created and before either path reads it')


def seq_of(fn, pats, ok_only=True):
    """ordered lifecycle call names on the all-Continue path(s) of fn"""
    out = set()
    for p in feasible(fn.paths()):
        if ok_only and any(a.kind == 'atom' and a.d['outcome'] == 'Break' for a in p.events):
            continue
        ret = [e for e in p.events if e.kind == 'ret'][0].d['value']
        if not (ret[0] == 'agg' and ret[2] == 'Ok'):
            continue
        seq = []
        for e in p.events:
            if e.kind == 'call':
                n = norm_callee(e.d['callee'])
                for pt in pats:
                    if n.endswith(pt):
                        seq.append(pt.split('::')[-1])
        out.add(tuple(seq))
    return out


LIFE = ('Handler::validate_against_state_and_deduct_caller', 'Handler::load_accounts', 'Handler::apply_eip7702_auth_list', 'JournalTr::checkpoint',
        'Handler::refund', 'post_execution::build_result_gas', 'Handler::eip7623_check_gas_floor', 'Handler::reimburse_caller', 'Handler::reward_beneficiary',
        'WithReserveHandler::enforce_reserve', 'BeneficiaryMode::apply')


def H1_lifecycle(ctx):
    hs = [b for b in ctx.facts.production() if 'WithReserveHandler' in b['fn'] and b['fn'].endswith('>::pre_execution')]
    if len(hs) != 1:
        raise AnchorLost('WithReserveHandler::pre_execution')
    mine = ctx.fn(hs[0])
    theirs = ctx.fn('ext::revm::revm_handler::Handler::pre_execution')
    a = seq_of(mine, LIFE)
    b = seq_of(theirs, LIFE)
    a2 = {tuple(x for x in s if x != 'checkpoint') for s in a}
    okc = all(s and s[-1] == 'checkpoint' and s.count('checkpoint') == 1 for s in a)
    ctx.ob('H1', mine, 'pre-execution-is-revm-plus-checkpoint', a2 == b and okc and len(b) == 1, f'grevm {sorted(a)} revm {sorted(b)}', site=mine.loc(mine.b['lo']),
           what='the reserve handler repeats revm\'s pre_execution (validate+deduct, load accounts, authorisation list) and takes exactly one checkpoint AFTER the authorisation list, so nonce bump, gas deduction and authorisation effects survive a reserve revert')
    # checkpoint stored in the cell; returned refund is the auth-list refund
    okr = False
    for p in feasible(mine.paths()):
        ret = [e for e in p.events if e.kind == 'ret'][0].d['value']
        st = [e for e in p.events if e.kind == 'call' and norm_callee(e.d['callee']).endswith('Cell::set') and mentions_field(e.d['args'][0], 'execution_checkpoint')]
        if ret[0] == 'agg' and ret[2] == 'Ok' and has_call(ret, 'Handler::apply_eip7702_auth_list') and st and has_call(st[0].d['args'][1], 'JournalTr::checkpoint'):
            okr = True
    ctx.ob('H1', mine, 'checkpoint-stored-and-refund-returned', okr, '', site=mine.loc(mine.b['lo']))
    hp = [b for b in ctx.facts.production() if 'WithReserveHandler' in b['fn'] and b['fn'].endswith('>::post_execution')]
    mine = ctx.fn(hp[0])
    theirs = ctx.fn('ext::revm::revm_handler::Handler::post_execution')
    a = seq_of(mine, LIFE)
    b = seq_of(theirs, LIFE)
    a2 = {tuple('reward_beneficiary' if x == 'apply' else x for x in s if x != 'enforce_reserve') for s in a}
    pos_ok = all('enforce_reserve' in s and s.index('enforce_reserve') == s.index('reimburse_caller') + 1 and s.index('apply') == s.index('enforce_reserve') + 1 for s in a)
    ctx.ob('H1', mine, 'post-execution-is-revm-plus-reserve-check', a2 == b and pos_ok and len(b) == 1, f'grevm {sorted(a)} revm {sorted(b)}', site=mine.loc(mine.b['lo']),
           what='revm\'s post_execution order (refund, result gas, 7623 floor, reimburse caller, beneficiary) with enforce_reserve inserted between reimbursement and the beneficiary step, which is replaced by BeneficiaryMode::apply')
    # NoReserveHandler overrides only reward_beneficiary
    nr = [b['fn'].split('::')[-1] for b in ctx.facts.production() if 'NoReserveHandler' in b['fn'] and ' as revm::revm_handler::Handler>' in b['fn']]
    ctx.ob('H1', 'NoReserveHandler', 'no-reserve-handler-overrides-only-the-beneficiary-hook', sorted(nr) == ['reward_beneficiary'], f'{sorted(nr)}',
           what='with the policy off the lifecycle is revm\'s default')
    wr = [b['fn'].split('::')[-1] for b in ctx.facts.production() if 'WithReserveHandler' in b['fn'] and ' as revm::revm_handler::Handler>' in b['fn']]
    ctx.ob('H1', 'WithReserveHandler', 'reserve-handler-overrides', sorted(wr) == ['post_execution', 'pre_execution'], f'{sorted(wr)}')


def H2_enforce(ctx):
    f = ctx.method('WithReserveHandler', 'enforce_reserve')
    bad = []
    rows = set()
    for p in feasible(f.paths()):
        tk = [e for e in p.events if e.kind == 'call' and norm_callee(e.d['callee']).endswith('Cell::take') and mentions_field(e.d['args'][0], 'execution_checkpoint')]
        hv = calls(p, 'WithReserveHandler::has_reserve_violation')
        if len(tk) != 1 or len(hv) != 1 or not mentions(hv[0].d['args'][2], tk[0].d['result']):
            bad.append((p, 'the execution checkpoint is not taken exactly once and handed to has_reserve_violation'))
            continue
        dec = [a for a in p.events if a.kind == 'atom' and a.d['outcome'] in ('true', 'false') and mentions(a.d['term'], hv[0].d['result'])]
        ret = [e for e in p.events if e.kind == 'ret'][0].d['value']
        if not dec:
            continue  # error propagation path
        rv = [e for e in p.events if e.kind == 'call' and e.d['callee'].endswith('JournalTr::checkpoint_revert')]
        cm = [e for e in p.events if e.kind == 'call' and e.d['callee'].endswith('JournalTr::checkpoint_commit')]
        if dec[0].d['outcome'] == 'false':
            rows.add('holds')
            if len(cm) != 1 or rv or not (ret[0] == 'agg' and ret[2] == 'Ok' and variant_of(ret[3][0]) == 'None'):
                bad.append((p, 'reserve holds ⇒ checkpoint_commit exactly once, Ok(None)'))
            continue
        if len(rv) != 1 or cm or not mentions(rv[0].d['args'][1], tk[0].d['result']):
            bad.append((p, 'violation ⇒ checkpoint_revert(the execution checkpoint) exactly once, no commit'))
            continue
        order = []
        for e in p.events:
            if e.kind == 'call':
                n = norm_callee(e.d['callee'])
                for pt in ('JournalTr::checkpoint_revert', 'handler::reserve_violation_result', 'handler::reapply_create_sender_nonce', 'Handler::refund',
                           'post_execution::build_result_gas', 'Handler::eip7623_check_gas_floor', 'Handler::reimburse_caller'):
                    if n.endswith(pt):
                        order.append(pt.split('::')[-1])
        isc = [a for a in p.events if a.kind == 'atom' and a.d['term'][0] == 'call' and a.d['term'][1].endswith('TxKind::is_create')]
        create = isc[0].d['outcome'] == 'true' if isc else None
        exp = ['checkpoint_revert', 'reserve_violation_result'] + (['reapply_create_sender_nonce'] if create else []) + ['refund', 'build_result_gas', 'eip7623_check_gas_floor', 'reimburse_caller']
        rows.add('violation:create' if create else 'violation:call')
        is_err_path0 = (ret[0] == 'call' and callee_matches(ret[1], '::from_residual')) or (ret[0] == 'agg' and ret[2] == 'Err' and has_call(ret, '::from_residual'))
        if (order != exp and not is_err_path0) or (is_err_path0 and order != exp[:len(order)]):
            bad.append((p, f'violation sequence {order} != {exp}'))
        # synthetic result assigned to *exec_result from the pre-refund execution gas
        rvr = calls(p, 'handler::reserve_violation_result')
        if rvr and rvr[0].d['args'] != (('arg', 4),):
            bad.append((p, 'synthetic REVERT is not built from the pre-refund execution gas'))
        w = [e for e in p.events if e.kind == 'assign' and rvr and e.d['value'] == rvr[0].d['result']]
        if not w or strip(w[0].d['place']) != ('arg', 3):
            bad.append((p, 'synthetic REVERT is not stored into the frame result'))
        rf = calls(p, 'Handler::refund')
        if rf and rf[0].d['args'][3] != ('arg', 6):
            bad.append((p, 'refund does not re-apply the authorisation refund'))
        okret = ret[0] == 'agg' and ret[2] == 'Ok' and variant_of(ret[3][0]) == 'Some' and has_call(ret, 'post_execution::build_result_gas')
        is_err_path = is_err_path0
        if not okret and not is_err_path:
            bad.append((p, 'violation path does not return the recomputed result gas'))
    ctx.ob('H2', f, 'enforce-reserve-sequence', {'holds', 'violation:create', 'violation:call'} <= rows and not bad, '; '.join(sorted(set(w for _, w in bad))[:3]) + f' rows={sorted(rows)}', site=f.loc(f.b['lo']),
           what='holds ⇒ commit the checkpoint; violation ⇒ revert it, force a REVERT result with the spent gas, re-bump the sender nonce for CREATE transactions, re-apply the authorisation refund, recompute result gas and floor, reimburse the caller again')
    r = ctx.fn('delegated_safety::handler::reserve_violation_result')
    ok = False
    for p in feasible(r.paths()):
        ret = [e for e in p.events if e.kind == 'ret'][0].d['value']
        sr = [e for e in p.events if e.kind == 'call' and e.d['callee'].endswith('Gas::set_refund') and e.d['args'][1] == ('const', '0_i64')]
        if sr and 'InstructionResult::Revert' in show(ret):
            ok = True
    ctx.ob('H2', r, 'synthetic-result-is-a-refundless-revert', ok, '', site=r.loc(r.b['lo']))
    n = ctx.fn('delegated_safety::handler::reapply_create_sender_nonce')
    ok = False
    for p in feasible(n.paths()):
        la = [e for e in p.events if e.kind == 'call' and e.d['callee'].endswith('JournalTr::load_account_mut')]
        bn = [e for e in p.events if e.kind == 'call' and e.d['callee'].endswith('::bump_nonce')]
        if la and bn and 'caller' in show(la[0].d['args'][1]):
            ok = True
    ctx.ob('H2', n, 'create-nonce-rebumped-through-the-journal', ok, '', site=n.loc(n.b['lo']))


def H3_violation_table(ctx):
    f = ctx.method('WithReserveHandler', 'has_reserve_violation')
    bad = []
    rows = set()
    for p in feasible(f.paths(max_visits=2)):
        ret = [e for e in p.events if e.kind == 'ret'][0].d['value']
        if not (ret[0] == 'agg' and ret[2] == 'Ok'):
            continue
        dd = [e for e in p.events if e.kind == 'call' and e.d['callee'].endswith('delegated_debits_since')]
        if len(dd) != 1 or dd[0].d['args'][1] != ('arg', 3):
            bad.append((p, 'candidates are not delegated_debits_since(the execution checkpoint)'))
            continue
        ra = calls(p, 'ReservePlanner::required_after')
        if not ra:
            rows.add('no-candidate')
            if ret[3][0] != ('const', 'false'):
                bad.append((p, 'no candidate ⇒ false'))
            continue
        a = ra[0].d['args']
        if not (is_field(strip(a[1]), 'WithReserveHandler.txid') and is_field(strip(a[2]), 'DelegatedDebit.address')):
            bad.append((p, 'future cost is not required_after(own txid, candidate address)'))
        z = [x for x in p.events if x.kind == 'atom' and x.d['term'][0] == 'call' and x.d['term'][1].endswith('::is_zero') and mentions(x.d['term'], ra[0].d['result'])]
        if z and z[0].d['outcome'] == 'true':
            rows.add('zero-future-cost')
            if ret[3][0] != ('const', 'false'):
                bad.append((p, 'zero future cost must be skipped'))
            continue
        # the deciding comparison, however spelled: final_balance REL M, with M = min(balance_before, future cost) given as a
        # `min` call or as the branch that picks the smaller one
        fut = strip(ra[0].d['result'])
        is_final = lambda t: is_field(strip(t), 'DelegatedDebit.final_balance')
        is_before = lambda t: is_field(strip(t), 'DelegatedDebit.balance_before')
        dec = None
        for x in p.events:
            n_ = norm_cmp(x) if x.kind == 'atom' else None
            if not n_:
                continue
            op, l, r = n_
            if is_final(r) and not is_final(l):
                op, l, r = CMP_FLIP[op], r, l
            if is_final(l):
                dec = (op, r, x)
        if dec is None:
            bad.append((p, 'balance comparison not found'))
            continue
        op, m, x = dec
        i_x = idx_of(p, x)
        m_ok = False
        if m[0] == 'call' and callee_matches(m[1], ('Ord::min', 'cmp::min')) and any(is_before(a) for a in m[2]) and any(strip(a) == fut for a in m[2]):
            m_ok = True
        elif strip(m) == fut:
            m_ok = holds_rel(p, i_x, lambda o, a, b: o in ('Lt', 'Le') and strip(a) == fut and is_before(b))
        elif is_before(m):
            m_ok = holds_rel(p, i_x, lambda o, a, b: o in ('Lt', 'Le') and is_before(a) and strip(b) == fut)
        if not m_ok or op not in ('Lt', 'Ge'):
            bad.append((p, f'comparison is final_balance {op} {show(m)[:80]} (expected final_balance < min(balance_before, future cost))'))
        viol = op == 'Lt'
        rows.add('violation' if viol else 'ok')
        if viol != (ret[3][0] == ('const', 'true')):
            bad.append((p, 'comparison outcome does not decide the result'))
    ctx.ob('H3', f, 'violation-table', {'no-candidate', 'zero-future-cost', 'violation', 'ok'} <= rows and not bad, '; '.join(sorted(set(w for _, w in bad))[:3]) + f' rows={sorted(rows)}', site=f.loc(f.b['lo']),
           what='for each surviving delegated debit: zero future cost ⇒ skip; final balance < min(balance before the first debit, cost of the account\'s later transactions strictly after this txid) ⇒ violation')


def H5_required_after(ctx):
    for owner in ('ReservePlanner', 'AccountReserveSchedule'):
        f = ctx.method('delegated_safety::reserve::' + owner, 'required_after')
        ok = False
        for p in feasible(f.paths()):
            for e in p.events:
                if e.kind == 'call' and e.d['callee'].endswith('::partition_point'):
                    cl = [s for s in subterms(e.d['args'][1]) if s[0] == 'closure']
                    if cl and cl[0][2] == (('arg', 2),):
                        cf = ctx.fn(ctx.facts.by[cl[0][1]])
                        for q in feasible(cf.paths()):
                            r = [x for x in q.events if x.kind == 'ret'][0].d['value']
                            if r[0] == 'bin' and r[1] == 'Le' and r[3][0] == 'upvar':
                                ok = True
        ctx.ob('H5', f, 'strictly-after-txid', ok, 'partition_point(|candidate| candidate <= txid) not found', site=f.loc(f.b['lo']),
               what='the reserve covers the account\'s transactions STRICTLY after the current one; `<` would count the running transaction\'s own cost again')
    b = ctx.method('delegated_safety::reserve::ReservePlanner', 'build_schedule')
    ok = False
    for p in live(b.paths()):
        sa = [e for e in p.events if e.kind == 'call' and e.d['callee'].endswith('::saturating_add')]
        mx = [e for e in p.events if e.kind == 'call' and e.d['callee'].endswith('::max_balance_spending')]
        rv = [e for e in p.events if e.kind == 'call' and e.d['callee'].endswith('::rev')]
        if sa and mx and rv and has_call(sa[0].d['args'][1], '::unwrap_or') and mentions(sa[0].d['args'][1], mx[0].d['result']):
            ok = True
    ctx.ob('H5', b, 'saturating-suffix-sums-of-max-cost', ok, '', site=b.loc(b.b['lo']),
           what='cost_from[i] = saturating sum over the account\'s transactions i.. of max_balance_spending (overflow ⇒ MAX)')
    si = ctx.method('delegated_safety::reserve::ReservePlanner', 'sender_index')
    okq = False
    for c in ctx.facts.closures_of(si.name):
        cf = ctx.fn(c)
        for p in live(cf.paths()):
            en = [e for e in p.events if e.kind == 'call' and e.d['callee'].endswith('::enumerate')]
            pu = [e for e in p.events if e.kind == 'call' and norm_callee(e.d['callee']).endswith('Vec::push')]
            if en and pu and 'TxEnv.caller' in json_show(p):
                okq = True
    ctx.ob('H5', si, 'index-keyed-by-caller-with-block-positions', okq, '', site=si.loc(si.b['lo']),
           what='txids are positions in the original block (independent of query order)')


def json_show(p):
    return ' '.join(show(a) for e in p.events if e.kind == 'call' for a in e.d['args'])


def H4_debits(ctx):
    fs = [b for b in ctx.facts.production() if b['fn'].endswith('::delegated_debits_since') and b['kind'] == 'assoc']
    if len(fs) != 1:
        raise AnchorLost('ReserveJournalExt::delegated_debits_since impl')
    f = ctx.fn(fs[0])
    ps = live(f.paths(max_visits=2))
    n = 0
    n_designator = [0]
    bad = []
    kinds = set()
    for p in ps:
        it = [e for e in p.events if e.kind == 'call' and e.d['callee'].endswith('::skip')]
        if it and not mentions_field(it[0].d['args'][1], 'JournalCheckpoint.journal_i'):
            bad.append('scan does not start at the checkpoint')
        for a in p.events:
            if a.kind == 'atom' and a.d['term'][0] == 'discr' and len(a.d['term']) > 2 and a.d['term'][2].endswith('JournalEntry') and a.d['outcome'] in ('BalanceTransfer', 'AccountDestroyed'):
                kinds.add(a.d['outcome'])
        for e in p.events:
            if e.kind == 'call' and e.d['callee'].endswith('Entry::or_insert') or (e.kind == 'call' and norm_callee(e.d['callee']).endswith('::or_insert') and 'entry' in show(e.d['args'][0])):
                n += 1
                i = idx_of(p, e)
                # the recorded source's current code was found to be an EIP-7702 designator on this path
                ent = [c for c in calls_in(e.d['args'][0]) if norm_callee(c[1]).endswith('::entry')]
                key = ent[0][2][1] if ent and len(ent[0][2]) > 1 else None
                isd = []
                for a in p.events[:i]:
                    bf = bool_fact(a)
                    if bf and bf[1] is True and bf[0][0] == 'call' and bf[0][1].endswith('Bytecode::is_eip7702') and mentions_field(bf[0], 'AccountInfo.code') \
                            and (key is None or mentions(strip(bf[0]), strip(key))):
                        isd.append(a)
                if not isd:
                    bad.append('a debit source is recorded without the delegation-designator test')
                else:
                    n_designator[0] += 1
    rp = [a for p in ps for a in p.events if a.kind == 'atom' and a.d['term'][0] == 'call' and a.d['term'][1].endswith('is_root_value_transfer')]
    ctx.ob('H4', f, 'debit-scan', n >= 1 and kinds == {'BalanceTransfer', 'AccountDestroyed'} and rp and not bad, f'first-debit inserts={n} sources={sorted(kinds)} root-transfer test={bool(rp)} {bad[:2]}', site=f.loc(f.b['lo']),
           what='surviving journal entries after the checkpoint are scanned; the root value transfer is excluded once; sources are BalanceTransfer.from and AccountDestroyed.address; only sources whose code is an EIP-7702 designator are kept, and the FIRST debit index is kept (or_insert)')
    # the root transfer is excluded ONCE: a second surviving transfer of the same shape (the delegated code re-entered and moved
    # exactly tx.value again) is a delegated debit like any other.  Decided over two loop iterations.
    twice = once_then_more = 0
    try:
        ps3 = [p for p in f.paths(max_visits=3, budget=400000) if p.end in ('return', 'cut')]
    except PathBudget:
        ps3 = None
    if ps3 is not None:
        for p in ps3:
            tr = [i for i, a in enumerate(p.events) if a.kind == 'atom' and bool_fact(a) and bool_fact(a)[1] is True and bool_fact(a)[0][0] == 'call'
                  and bool_fact(a)[0][1].endswith('is_root_value_transfer')]
            if len(tr) >= 2:
                twice += 1
            # the excluded transfer is skipped altogether: nothing is recorded for it before the scan moves on
            for i0 in tr:
                nxt = [j for j, a in enumerate(p.events) if j > i0 and a.kind == 'atom' and a.d['term'][0] == 'discr' and a.d['term'][1][0] == 'call' and a.d['term'][1][1].endswith('::next')]
                upto = nxt[0] if nxt else len(p.events)
                if [e for e in p.events[i0:upto] if e.kind == 'call' and norm_callee(e.d['callee']).endswith('::or_insert')]:
                    twice += 1
            if len(tr) == 1 and [a for a in p.events[tr[0]:] if a.kind == 'atom' and a.d['term'][0] == 'discr' and a.d['term'][1][0] == 'call' and a.d['term'][1][1].endswith('::next') and a.d['outcome'] == 'Some']:
                once_then_more += 1
    ctx.ob('H4', f, 'root-transfer-excluded-at-most-once', ps3 is not None and twice == 0 and once_then_more >= 1,
           f'paths excluding two root-shaped transfers={twice}; paths that exclude one and go on scanning={once_then_more}', site=f.loc(f.b['lo']),
           what='only the single top-level tx.value transfer is outside the policy; excluding every transfer of that shape hides a re-entrant delegated debit of exactly tx.value')
    ctx.ob('H4', f, 'designator-test-is-eip7702-code', n_designator[0] >= 1, f'{n_designator[0]} recorded source(s) guarded by Bytecode::is_eip7702 on their own code', site=f.loc(f.b['lo']))
    r = ctx.fn('delegated_safety::reserve::is_root_value_transfer')
    okr = False
    rows = set()
    for p in feasible(r.paths()):
        ret = [e for e in p.events if e.kind == 'ret'][0].d['value']
        rows.add(show(ret))
    ctx.ob('H4', r, 'root-transfer-recogniser', rows >= {'true', 'false'}, f'{sorted(rows)[:4]}', site=r.loc(r.b['lo']))
    bb = ctx.fn('delegated_safety::reserve::balance_before_entry')
    ops = collections.Counter()
    for p in live(bb.paths(max_visits=2)):
        for e in p.events:
            if e.kind == 'call' and (e.d['callee'].endswith('::saturating_add') or e.d['callee'].endswith('::saturating_sub')):
                ops[e.d['callee'].split('::')[-1]] += 1
        for e in p.events:
            if e.kind == 'call' and e.d['callee'].endswith('::rev'):
                ops['rev'] += 1
    ctx.ob('H4', bb, 'pre-debit-balance-reconstruction', ops['saturating_add'] >= 2 and ops['saturating_sub'] >= 2 and ops['rev'] >= 1, f'{dict(ops)}', site=bb.loc(bb.b['lo']),
           what='the balance before the first debit is the final balance with the surviving journal undone newest-first (debits added back, credits removed, BalanceChange restored)')


def je_fields(t):
    return sorted({s[2].split('.')[-1] for s in subterms(t) if s[0] == 'field' and 'JournalEntry::' in s[2]})


def tx_fields(t):
    return sorted({s[2].split('.')[-1] for s in subterms(t) if s[0] == 'field' and ('TxEnv.' in s[2] or 'TxKind' in s[2])})


def H4b_journal_tables(ctx):
    """exact per-entry tables of the journal undo and of the root-transfer recogniser"""
    bb = ctx.fn('delegated_safety::reserve::balance_before_entry')
    rows = set()
    for p in feasible(bb.paths(max_visits=2)):
        ent = [a for a in p.events if a.kind == 'atom' and a.d['term'][0] == 'discr' and len(a.d['term']) > 2 and a.d['term'][2].endswith('JournalEntry')]
        if not ent:
            continue
        var = ent[0].d['outcome']
        conds = {}
        for a in p.events:
            if a.kind == 'atom':
                n = norm_cmp(a)
                if n and (n[2] == ('arg', 3) or n[1] == ('arg', 3)):
                    other = n[1] if n[2] == ('arg', 3) else n[2]
                    for fld in je_fields(other):
                        conds.setdefault(fld, n[0])
        op = None
        # the running balance: the user variable initialised from the final balance (argument 4)
        acc = [e.d['place'][1] for e in p.events if e.kind == 'assign' and e.d['place'][0] == 'var' and e.d['value'] == ('arg', 4)]
        acc = acc[0] if acc else 'balance'
        for e in p.events:
            if e.kind == 'call' and e.d['callee'].endswith('::saturating_add'):
                op = ('add', tuple(je_fields(e.d['args'][1])))
            if e.kind == 'call' and e.d['callee'].endswith('::saturating_sub'):
                op = ('sub', tuple(je_fields(e.d['args'][1])))
            if e.kind == 'assign' and e.d['place'] == ('var', acc) and 'old_balance' in je_fields(e.d['value']):
                op = ('set', ('old_balance',))
        if op is None:
            # the reconstructed balance may be the value the (desugared) fold step returns instead of an assignment
            rv = [e for e in p.events if e.kind == 'ret']
            if rv and 'old_balance' in je_fields(rv[0].d['value']) and not term_calls(rv[0].d['value'], '::saturating_add') and not term_calls(rv[0].d['value'], '::saturating_sub'):
                op = ('set', ('old_balance',))
        rows.add((var, tuple(sorted(conds.items())), op[0] if op else None, op[1] if op else ()))
    exp_ops = {
        ('BalanceTransfer', 'add', ('balance',)), ('BalanceTransfer', 'sub', ('balance',)),
        ('AccountDestroyed', 'add', ('had_balance',)), ('AccountDestroyed', 'sub', ('had_balance',)), ('BalanceChange', 'set', ('old_balance',)),
    }
    got_ops = {(v, o, f) for v, c, o, f in rows if o}
    dir_ok = True
    for v, c, o, f in rows:
        d = dict(c)
        if v == 'BalanceTransfer' and o == 'add' and not (d.get('from') == 'Eq' and d.get('to') == 'Ne'):
            dir_ok = False
        if v == 'BalanceTransfer' and o == 'sub' and not (d.get('to') == 'Eq' and d.get('from') == 'Ne'):
            dir_ok = False
        if v == 'AccountDestroyed' and o == 'add' and d.get('address') != 'Eq':
            dir_ok = False
        if v == 'AccountDestroyed' and o == 'sub' and not (d.get('target') == 'Eq' and d.get('address') == 'Ne'):
            dir_ok = False
        if v == 'BalanceChange' and o == 'set' and d.get('address') != 'Eq':
            dir_ok = False
        # the converse: an entry that moved the account's balance IS undone (no further condition)
        if o is None:
            if (v == 'BalanceTransfer' and ((d.get('from') == 'Eq' and d.get('to') == 'Ne') or (d.get('to') == 'Eq' and d.get('from') == 'Ne'))) or \
                    (v == 'AccountDestroyed' and (d.get('address') == 'Eq' or (d.get('target') == 'Eq' and d.get('address') == 'Ne'))) or \
                    (v == 'BalanceChange' and d.get('address') == 'Eq'):
                dir_ok = False
    ctx.ob('H4', bb, 'journal-undo-table', got_ops == exp_ops and dir_ok, f'ops {sorted(map(str, got_ops))} direction-ok={dir_ok} rows={sorted(map(str, rows))}', site=bb.loc(bb.b['lo']),
           what='undoing the surviving journal: a transfer/destroy OUT of the account adds the amount back, one INTO it subtracts it, a BalanceChange restores old_balance; a swapped direction inflates or deflates the protected pre-debit balance')
    r = ctx.fn('delegated_safety::reserve::is_root_value_transfer')
    rows = set()
    for p in feasible(r.paths()):
        ret = [e for e in p.events if e.kind == 'ret'][0].d['value']
        conds = []
        for a in p.events:
            if a.kind == 'atom':
                n = norm_cmp(a)
                if n:
                    conds.append((tuple(je_fields(n[1]) + je_fields(n[2])), n[0], tuple(tx_fields(n[1]) + tx_fields(n[2]))))
                elif a.d['term'][0] == 'discr':
                    conds.append(('discr', a.d['outcome']))
        rv = show(ret)
        is_eq = (ret[0] == 'bin' and ret[1] == 'Eq') or (ret[0] == 'call' and ret[1].endswith('::eq'))
        rk = rv if rv in ('true', 'false') else ('eq(to,target)' if 'to' in je_fields(ret) and is_eq else rv[:30])
        rows.add((tuple(conds), rk))
    need = {
        ((('discr', '!BalanceTransfer'),), 'false'),
    }
    txt = sorted(map(str, rows))
    has_from_ne = any((('from',), 'Ne', ('caller',)) in c and rk == 'false' for c, rk in rows)
    has_val_ne = any((('balance',), 'Ne', ('value',)) in c and rk == 'false' for c, rk in rows)
    has_call = any(('discr', 'Call') in c and rk == 'eq(to,target)' and (('from',), 'Eq', ('caller',)) in c and (('balance',), 'Eq', ('value',)) in c for c, rk in rows)
    has_create = any(('discr', 'Create') in c and rk == 'true' and (('from',), 'Eq', ('caller',)) in c and (('balance',), 'Eq', ('value',)) in c for c, rk in rows)
    ctx.ob('H4', r, 'root-transfer-table', need <= rows and has_from_ne and has_val_ne and has_call and has_create and len(rows) == 5, f'{txt}'[:400], site=r.loc(r.b['lo']),
           what='the excluded transfer is exactly (BalanceTransfer ∧ from = tx.caller ∧ amount = tx.value ∧ (Call(target) ⇒ to = target | Create))')
    fs = [b for b in ctx.facts.production() if b['fn'].endswith('::delegated_debits_since') and b['kind'] == 'assoc']
    f = ctx.fn(fs[0])
    src = set()
    for p in live(f.paths(max_visits=2)):
        for i, e in enumerate(p.events):
            # a recorded debit source: first_debit.entry(KEY).or_insert(position)
            if not (e.kind == 'call' and norm_callee(e.d['callee']).endswith('::or_insert') and e.d['args']):
                continue
            ent_call = [c for c in calls_in(e.d['args'][0]) if norm_callee(c[1]).endswith('::entry')]
            if not ent_call or len(ent_call[0][2]) < 2:
                continue
            took = tuple(je_fields(ent_call[0][2][1]))
            # the journal-entry classification this source was derived from, and the conditions on
            # the entry's own fields decided between it and the insertion
            i0 = None
            for j in range(i - 1, -1, -1):
                a = p.events[j]
                if a.kind == 'atom' and a.d['term'][0] == 'discr' and len(a.d['term']) > 2 and a.d['term'][2].endswith('JournalEntry'):
                    i0 = j
                    break
            if i0 is None:
                continue
            variant = p.events[i0].d['outcome']
            guards = set()
            for x in p.events[i0 + 1:i]:
                if x.kind != 'atom':
                    continue
                n = norm_cmp(x)
                if n and n[0] in ('Ne', 'Eq') and je_fields(x.d['term']) and not tx_fields(x.d['term']):
                    guards.add(n[0] + ':' + ','.join(je_fields(x.d['term'])))
                bf = bool_fact(x)
                if bf and bf[0][0] == 'call' and bf[0][1].endswith('::is_zero') and je_fields(bf[0]):
                    guards.add(('zero' if bf[1] else 'nonzero') + ':' + ','.join(je_fields(bf[0])))
            src.add((variant, tuple(sorted(guards)), took))
    # the converse: a debit whose source was found delegated IS recorded (under no further condition)
    unrec = 0
    n_deleg = 0
    for p in live(f.paths(max_visits=2)):
        for i, a in enumerate(p.events):
            if a.kind != 'atom':
                continue
            bf = bool_fact(a)
            if bf and bf[1] is True and term_calls(bf[0], 'is_eip7702'):
                n_deleg += 1
                if not [x for x in p.events[i + 1:i + 10] if x.kind == 'call' and norm_callee(x.d['callee']).endswith('::or_insert')]:
                    unrec += 1
    ctx.ob('H4', f, 'delegated-debit-always-recorded', n_deleg >= 1 and unrec == 0, f'delegated sources decided on paths={n_deleg}, not recorded={unrec}', site=f.loc(f.b['lo']),
           what='every surviving debit out of an account whose code is an EIP-7702 designator becomes a reserve candidate')
    exp = {('BalanceTransfer', ('Ne:from,to', 'nonzero:balance'), ('from',)), ('AccountDestroyed', ('nonzero:had_balance',), ('address',))}
    ctx.ob('H4', f, 'debit-source-conditions', src == exp, f'{sorted(map(str, src))}'[:400], site=f.loc(f.b['lo']),
           what='a debit is a non-zero BalanceTransfer with from ≠ to (source = from) or an AccountDestroyed with non-zero had_balance (source = the destroyed address)')


def H6_reserve_small_tables(ctx):
    """small tables of the reserve policy that the larger rules take for granted (survivors of the mutation sweep)"""
    facts = ctx.facts
    # the per-account schedule: suffix sums start at zero, grow by each later transaction's maximum spending, and are stored
    b = ctx.method('delegated_safety::reserve::ReservePlanner', 'build_schedule')
    bad = []
    n_store = 0
    for p in [q for q in b.paths(max_visits=2) if q.end in ('return', 'cut')]:
        sa = [e for e in p.events if e.kind == 'call' and e.d['callee'].endswith('::saturating_add')]
        for e in sa:
            acc = e.d['args'][0]
            if not (acc[0] == 'const' and 'ZERO' in acc[1]) and not has_call(acc, '::saturating_add'):
                bad.append(f'the running suffix starts from {show(acc)[:40]} instead of zero')
            if not has_call(e.d['args'][1], '::max_balance_spending'):
                bad.append('the amount added is not the transaction\'s maximum balance spending')
        # stored: through `cost_from[i]`, or through the `&mut` items of an iterator over the cost vector
        st = [e for e in p.events if e.kind == 'assign' and (mentions_field(e.d['place'], 'AccountReserveSchedule.cost_from') or 'cost_from' in show(e.d['place']) or has_call(e.d['place'], '::index_mut')
                                                              or (e.d['place'][0] != 'var' and has_call(e.d['place'], '::iter_mut')))]
        for e in st:
            if has_call(e.d['value'], '::saturating_add'):
                n_store += 1
        if sa and not [e for e in st if has_call(e.d['value'], '::saturating_add')] and p.end == 'return':
            bad.append('a suffix sum is computed but not stored in the schedule')
    ctx.ob('H6', b, 'schedule-stores-suffix-sums-from-zero', n_store >= 1 and not bad, '; '.join(sorted(set(bad))), site=b.loc(b.b['lo']))
    # lookups: nothing later ⇒ zero
    for owner in ('ReservePlanner', 'AccountReserveSchedule'):
        f = ctx.method('delegated_safety::reserve::' + owner, 'required_after')
        bad = []
        n_zero = 0
        for p in feasible(f.paths()):
            ret = [e for e in p.events if e.kind == 'ret'][0].d['value']
            if ret[0] == 'const':
                n_zero += 1
                if 'ZERO' not in ret[1]:
                    bad.append(f'the "nothing later" answer is {ret[1][-12:]}')
                if owner == 'ReservePlanner':
                    unknown = any(of and of[1] == 'None' and has_call(of[0], '::get') for of in (option_fact(a) for a in p.events))
                    # partition_point never exceeds len: `== len` and `>= len` (a failed `< len`) are the same fact
                    none_later = holds_rel(p, len(p.events), lambda op, l, r: op in ('Eq', 'Ge') and has_call(l, '::partition_point') and has_call(r, '::len'))
                    if not unknown and not none_later:
                        bad.append('zero is answered although the sender has later transactions in the block')
            if owner == 'AccountReserveSchedule' and ret[0] != 'const':
                checked = has_call(ret, '::get') and has_call(ret, '::partition_point')
                if not checked and not holds_rel(p, len(p.events), lambda op, l, r: op == 'Lt' and has_call(l, '::partition_point') and has_call(r, '::len')):
                    bad.append('a cost is read without `index < cost_from.len()`')
        ctx.ob('H6', f, 'no-later-transaction-means-zero', n_zero >= 1 and not bad, '; '.join(sorted(set(bad))), site=f.loc(f.b['lo']),
               what='an account with no later transaction in the block (or unknown to the index) reserves nothing; anything else reverts its delegated transfers for no reason')
    # post_execution: the recomputed result gas of a reserve violation is what the handler returns
    pe = [b_ for b_ in facts.production() if b_['fn'].endswith('Handler>::post_execution') and 'WithReserveHandler' in b_['fn']]
    okg = False
    badg = []
    for b_ in pe:
        f = ctx.fn(b_)
        for p in feasible(f.paths()):
            ret = [e for e in p.events if e.kind == 'ret'][0].d['value']
            er = calls(p, 'WithReserveHandler::enforce_reserve')
            if not er or not (ret[0] == 'agg' and ret[2] == 'Ok'):
                continue
            d = [of for of in (option_fact(a) for a in p.events) if of and of[1] in ('Some', 'None') and mentions(of[0], er[0].d['result'])]
            if d and d[-1][1] == 'Some':
                if mentions(ret, er[0].d['result']):
                    okg = True
                else:
                    badg.append('a reserve violation recomputed the result gas but post_execution returns the original one')
            elif d and d[-1][1] == 'None':
                if mentions(ret, er[0].d['result']):
                    badg.append('no violation but the returned gas comes from enforce_reserve')
    ctx.ob('H6', 'WithReserveHandler::post_execution', 'violation-result-gas-is-returned', bool(pe) and okg and not badg, '; '.join(sorted(set(badg))),
           what='the charged top-level revert has its own gas accounting (refund discarded, authorisation refund re-applied); returning the pre-violation figures reports the wrong gas used')
    n = ctx.fn('delegated_safety::handler::reapply_create_sender_nonce')
    rows = set()
    for p in feasible(n.paths()):
        ret = [e for e in p.events if e.kind == 'ret'][0].d['value']
        bn = [bool_fact(a) for a in p.events if bool_fact(a) and bool_fact(a)[0][0] == 'call' and bool_fact(a)[0][1].endswith('::bump_nonce')]
        if bn:
            rows.add((bn[-1][1], variant_of(ret)))
    ctx.ob('H6', n, 'nonce-rebump-table', rows == {(True, 'Ok'), (False, 'Err')}, f'{sorted(rows)}', site=n.loc(n.b['lo']),
           what='bump_nonce() == false is the overflow case and must fail; success must not')
    # constructors and the policy builder
    want = {'disabled': ('false', 'false'), 'create_only': ('true', 'false'), 'reserve_only': ('false', 'true'), 'enabled': ('true', 'true')}
    badc = []
    for meth, (c, r) in want.items():
        f = ctx.method('delegated_safety::config::DelegatedSafetyConfig', meth)
        for p in feasible(f.paths()):
            ret = [e for e in p.events if e.kind == 'ret'][0].d['value']
            if ret[0] == 'agg' and ret[4]:
                fl = dict(zip(ret[4].split(','), ret[3]))
                got = (fl.get('forbid_delegated_create', ('const', '?'))[1], fl.get('reserve_delegated_balance', ('const', '?'))[1])
                if got != (c, r):
                    badc.append(f'{meth}() = create guard {got[0]}, reserve {got[1]}')
            else:
                badc.append(f'{meth}() does not build the policy literally')
    ctx.ob('H6', 'DelegatedSafetyConfig', 'constructor-table', not badc, '; '.join(badc), what='create_only / reserve_only / enabled / disabled mean what they say')
    w = ctx.method('config::GrevmConfig', 'with_delegated_safety')
    okw = False
    for p in feasible(w.paths()):
        ret = [e for e in p.events if e.kind == 'ret'][0].d['value']
        asg = [e for e in assigns(p, 'GrevmConfig.delegated_safety') if e.d['value'] == ('arg', 2)]
        if asg or (ret[0] == 'agg' and ret[4] and dict(zip(ret[4].split(','), ret[3])).get('delegated_safety') == ('arg', 2)):
            okw = True
    ctx.ob('H6', w, 'builder-installs-the-policy', okw, '', site=w.loc(w.b['lo']))
    m = ctx.method('beneficiary::Beneficiary', 'matches')
    okm = False
    for p in feasible(m.paths()):
        ret = [e for e in p.events if e.kind == 'ret'][0].d['value']
        okm = (ret[0] == 'bin' and ret[1] == 'Eq' or (ret[0] == 'call' and ret[1].endswith('::eq'))) and mentions_field(ret, 'Beneficiary.address') and mentions(ret, ('arg', 2))
    ctx.ob('H6', m, 'matches-is-address-equality', okm, '', site=m.loc(m.b['lo']), what='every beneficiary special case (history reads, deferred rewards, omitted Basic publication) hangs on this test')

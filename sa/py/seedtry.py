#!/usr/bin/env python3
"""run every property's rules against a scratch copy of the current tree with a patch applied (no evidence
is written, /repo is not touched).  usage: seedtry.py <patch.diff> [prop ...]"""
import sys, os, json
sys.path.insert(0, os.path.dirname(os.path.abspath(__file__)))
import core, mirlib, props, selftest

patch = os.path.abspath(sys.argv[1])
pids = sys.argv[2:] or sorted(props.PROPS)
case = dict(name='seedtry', kind='mutant', props=pids, edits=[], patch=patch)
slot = os.getpid() % 4
r = selftest.run_case(case, tag=f'seedtry-{os.getpid()}', target=selftest.worker_target(slot))
if r['status'] != 'ran':
    print(r)
    sys.exit(2)
any_ = False
for pid in pids:
    for k in r['failed'][pid]:
        any_ = True
        print('FAILED', k)
if not any_:
    print('NO CHECK FIRED')

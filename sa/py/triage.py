#!/usr/bin/env python3
"""developer tool: apply a patch to a scratch copy of /repo (never /repo itself), export facts once
(cached by patch name under .cache/), run one property's rules in-process and print every failing
obligation with its detail.
usage: triage.py <patch.diff> [PROP ...] [--rule NAME] [--keep]"""
import sys, os, shutil, subprocess, hashlib
sys.path.insert(0, os.path.dirname(os.path.abspath(__file__)))
import core, mirlib, props, selftest


def facts_for(patch):
    h = hashlib.sha256(open(patch, 'rb').read() + mirlib.src_hash(core.REPO).encode()).hexdigest()[:12]
    tag = 'triage-' + h
    out = os.path.join(core.CACHE, f'facts-{tag}.json')
    if os.path.exists(out):
        return out
    d, why = selftest.make_scratch([])
    try:
        subprocess.run(['git', 'init', '-q'], cwd=d, check=True)
        r = subprocess.run(['git', 'apply', os.path.abspath(patch)], cwd=d, capture_output=True, text=True)
        if r.returncode != 0:
            raise SystemExit('APPLY FAILED ' + r.stderr)
        shutil.rmtree(os.path.join(d, '.git'), ignore_errors=True)
        return core.export_facts(repo=d, tag=tag, target=selftest.worker_target(0))
    finally:
        shutil.rmtree(d, ignore_errors=True)


def main():
    args = sys.argv[1:]
    rule_f = None
    if '--rule' in args:
        i = args.index('--rule')
        rule_f = args[i + 1]
        del args[i:i + 2]
    patch, pids = args[0], args[1:] or sorted(props.PROPS)
    fp = facts_for(patch)
    facts = mirlib.Facts(fp)
    seen = {}
    for pid in pids:
        ctx = core.Ctx(pid, facts, 'quick', 0, fp)
        ctx.skip_rules = set(props.PROPS[pid].get('skip_rules', ()))
        for rule in props.PROPS[pid]['rules']:
            if rule_f and rule_f not in rule.__name__:
                continue
            ctx.guarded(rule.__name__, rule.__module__, lambda: rule(ctx))
        for o in ctx.obs:
            k = o.key.split('|', 1)[1]
            if not o.ok:
                if k not in seen:
                    seen[k] = (o, [])
                if pid not in seen[k][1]:
                    seen[k][1].append(pid)
    for k, (o, ps) in seen.items():
        print(f'FAILED {k}  under {",".join(ps)}\n   at {o.site}\n   {o.detail[:600]}')
    print(f'{len(seen)} distinct failing obligations')


if __name__ == '__main__':
    main()

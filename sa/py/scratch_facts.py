#!/usr/bin/env python3
"""export facts for the current tree + a patch into .cache/facts-<tag>.json (kept) for debugging rules with dump.py --facts=
usage: scratch_facts.py <patch.diff> <tag>"""
import sys, os, shutil
sys.path.insert(0, os.path.dirname(os.path.abspath(__file__)))
import core, selftest
patch, tag = os.path.abspath(sys.argv[1]), sys.argv[2]
d, why = selftest.make_scratch([], patch=patch)
if d is None:
    print(why); sys.exit(2)
try:
    fp = core.export_facts(repo=d, tag=tag, target=selftest.worker_target(3))
    print(fp)
finally:
    shutil.rmtree(d, ignore_errors=True)

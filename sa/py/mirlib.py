"""E1/E2 core: MIR facts -> CFG, path-sensitive symbolic walk, events, guard liveness, call graph.

Nothing here executes grevm code.  A "path" is an acyclic-by-edge walk through the non-cleanup
CFG of one MIR body (every CFG edge is taken at most once per path, so a loop body is traversed at
most once and the code after the loop is reached with the body's effects applied).  Along a path
we keep a symbolic environment local -> term; switches on constants follow the constant, switches
on a term already decided on this path follow the earlier decision (unless the memory it was read
from was written in between).  The output of a walk is a list of `Path` objects, each an ordered
list of events:
    atom   (a decision: term, outcome)
    call   (callee, argument terms, destination, guards held)
    assign (place term, value term)         -- writes through a projection or to a user variable
    acquire/release (lock guard events)
    ret    (returned term)
Terms are nested tuples; `show(term)` renders them canonically without line numbers or local
indices: parameters are `$N`, fields are `Type.field`, callees are def paths.
"""
import json, re, collections, hashlib, os, sys

# ------------------------------------------------------------------------------------------------
# facts


class Facts:
    def __init__(self, path, resolve_aliases=True):
        with open(path) as f:
            d = json.load(f)
        self.aliases = {'functions': {}, 'fields': {}, 'types': {}}
        if resolve_aliases:
            try:
                import aliases
                d, self.aliases = aliases.canonicalise(d)
            except FileNotFoundError:
                pass
        self.meta = d['meta']
        self.enums = {k: {int(v): n for v, n in vs} for k, vs in d['enums'].items()}
        self.structs = d['structs']
        self.bodies = d['bodies']
        self.by = {}
        for b in self.bodies:
            self.by[b['fn']] = b
        self._fn = {}
        self._cg = None
        self.known = None      # set of normalised production function names at the pinned commit
        self.inline_new = True
        self._inst = [0]
        kp = os.path.join(os.path.dirname(os.path.dirname(os.path.abspath(__file__))), 'specs', 'known_functions.txt')
        if os.path.exists(kp):
            self.known = set(l.strip() for l in open(kp) if l.strip() and not l.startswith('#'))

    # -- body selection ------------------------------------------------------------------------
    @staticmethod
    def is_test(name, body=None):
        if '::tests::' in name or name.startswith('tests::') or '::tests' == name[-7:]:
            return True
        if name.startswith('test_utils::') or '::test_utils::' in name:
            return True
        if body is not None and (body['file'].startswith('src/test_utils') or body['file'].endswith('/tests.rs')):
            return True
        return False

    def production(self):
        """bodies of crate grevm that are production code (no cfg(test), no test_utils, no ext)"""
        out = []
        for b in self.bodies:
            if b['kind'] == 'ext' or b['kind'] == 'promoted':
                continue
            if self.is_test(b['fn'], b):
                continue
            out.append(b)
        return out

    def find(self, suffix, kind=None, allow_many=False):
        """bodies whose def path ends with `suffix` (production + ext), promoted excluded"""
        hits = [b for b in self.bodies if b['kind'] != 'promoted' and
                (b['fn'] == suffix or b['fn'].endswith('::' + suffix) or b['fn'].endswith(suffix))
                and not self.is_test(b['fn'], b)]
        if kind:
            hits = [b for b in hits if b['kind'] == kind]
        if allow_many:
            return hits
        if len(hits) != 1:
            raise AnchorLost(f"function anchor `{suffix}` resolves to {len(hits)} bodies: {[h['fn'] for h in hits][:5]}")
        return hits[0]

    def method(self, type_sub, method, allow_many=False):
        """production body of method `method` whose impl self type (or def path) contains type_sub"""
        hits = [b for b in self.bodies if b['kind'] in ('assoc', 'fn') and b['fn'].endswith('::' + method)
                and (type_sub in b['self_ty'] or type_sub in b['fn']) and not self.is_test(b['fn'], b)]
        if allow_many:
            return hits
        if len(hits) != 1:
            raise AnchorLost(f"method anchor `{type_sub}`::`{method}` resolves to {len(hits)} bodies: {[h['fn'] for h in hits][:5]}")
        return hits[0]

    def fn(self, name_or_body):
        b = name_or_body if isinstance(name_or_body, dict) else self.find(name_or_body)
        if b['fn'] not in self._fn:
            self._fn[b['fn']] = Fn(self, b)
        return self._fn[b['fn']]

    def is_new_fn(self, callee):
        """a crate function that did not exist at the pinned commit (e.g. a helper extracted by a
        refactor): calls to it are analysed through (inlined), so rules anchored on the caller keep
        seeing the events"""
        if not self.inline_new or self.known is None:
            return False
        b = self.by.get(callee)
        if b is None or b['kind'] not in ('fn', 'assoc') or self.is_test(callee, b):
            return False
        return norm_callee(callee) not in self.known

    def rcg(self):
        if getattr(self, '_rcg', None) is None:
            r = collections.defaultdict(set)
            for a, cs in self.callgraph().items():
                for c in cs:
                    r[c].add(a)
            self._rcg = r
        return self._rcg

    def owners(self, name, _seen=()):
        """short names of the pinned-commit functions responsible for code in `name`: the function
        itself (closures attributed to their parent), or — for a helper that did not exist at the
        pinned commit — the functions that call it"""
        base = re.sub(r'(::\{closure#\d+\})+$', '', name)
        if self.is_new_fn(base):
            res = set()
            for c in self.rcg().get(base, ()):
                if c != name and c not in _seen:
                    res |= self.owners(c, _seen + (name,))
            if res:
                return res
        return {base.split('::')[-1]}

    def owner_bodies(self, name, _seen=()):
        """full names of the pinned-commit functions through which `name` is analysed"""
        base = re.sub(r'(::\{closure#\d+\})+$', '', name)
        if self.is_new_fn(base):
            res = set()
            for c in self.rcg().get(base, ()):
                if c != name and c not in _seen:
                    res |= self.owner_bodies(c, _seen + (name,))
            if res:
                return res
        return {name}

    def _helpers_of(self, parent_fn):
        """new (post-pinned-commit) helper functions that are analysed through `parent_fn`"""
        if not hasattr(self, '_helpers'):
            self._helpers = {}
        if parent_fn not in self._helpers:
            base = re.sub(r'(::\{closure#\d+\})+$', '', parent_fn)
            hs = set()
            for b in self.bodies:
                if b['kind'] in ('promoted', 'ext', 'closure'):
                    continue
                if self.is_new_fn(b['fn']):
                    obs = {re.sub(r'(::\{closure#\d+\})+$', '', o) for o in self.owner_bodies(b['fn'])}
                    if base in obs and b['fn'] != base:
                        hs.add(b['fn'])
            self._helpers[parent_fn] = hs
        return self._helpers[parent_fn]

    def closures_of(self, parent_fn):
        """closures written directly in `parent_fn`, or directly in a new helper analysed through it"""
        ps = {parent_fn} | self._helpers_of(parent_fn)
        return [b for b in self.bodies if b['kind'] == 'closure' and b['parent'] in ps]

    def code_under(self, parent_fn):
        """bodies other than `parent_fn` itself whose code belongs to it: nested closures, helpers
        added after the pinned commit that are reached only from it, and their closures"""
        hs = self._helpers_of(parent_fn)
        return self.closures_under(parent_fn) + [b for b in self.bodies if b['fn'] in hs and b['kind'] not in ('promoted', 'closure')]

    def closures_under(self, parent_fn):
        """closures nested at any depth in `parent_fn` or in a new helper analysed through it"""
        ps = tuple(x + '::' for x in ({parent_fn} | self._helpers_of(parent_fn)))
        return [b for b in self.bodies if b['kind'] == 'closure' and b['fn'].startswith(ps)]

    # -- call graph ----------------------------------------------------------------------------
    def callgraph(self):
        """fn -> set of callee def paths (direct calls + closures constructed in the body, which we
        count as potentially called)"""
        if self._cg is None:
            cg = collections.defaultdict(set)
            for b in self.bodies:
                if b['kind'] == 'promoted':
                    continue
                for bl in b['blocks']:
                    if bl['cleanup']:
                        continue
                    t = bl['term']
                    if t['k'] == 'call':
                        cg[b['fn']].add(t['callee'])
                        for a in t['args']:
                            if a['k'] == 'const' and 'fndef' in a:
                                cg[b['fn']].add(a['fndef'])
                    for st in bl['stmts']:
                        rv = st['rv']
                        if rv['k'] == 'agg' and rv['adt'].startswith('closure:'):
                            cg[b['fn']].add(rv['adt'][len('closure:'):])
                        if rv['k'] == 'use' and rv['o']['k'] == 'const' and 'fndef' in rv['o']:
                            cg[b['fn']].add(rv['o']['fndef'])
            self._cg = cg
        return self._cg

    def reach(self, start, stop=()):
        """transitive callees of `start` (def path), not expanding through names in `stop`"""
        cg = self.callgraph()
        seen = set()
        st = [start]
        while st:
            n = st.pop()
            for c in cg.get(n, ()):
                if c in seen:
                    continue
                seen.add(c)
                if c in stop:
                    continue
                st.append(c)
        return seen

    def callers_of(self, pred):
        """[(caller fn, block, term)] for every non-cleanup call whose callee satisfies pred"""
        out = []
        for b in self.bodies:
            if b['kind'] == 'promoted':
                continue
            for bl in b['blocks']:
                if bl['cleanup']:
                    continue
                t = bl['term']
                if t['k'] == 'call' and pred(t['callee']):
                    out.append((b, bl, t))
        return out


class AnchorLost(Exception):
    pass


# ------------------------------------------------------------------------------------------------
# terms

TRANSPARENT_CALLS = (
    'std::ops::Deref>::deref', 'std::ops::DerefMut>::deref_mut', 'std::ops::Deref::deref',
    'std::ops::DerefMut::deref_mut',
    'std::clone::Clone>::clone', 'std::clone::Clone::clone', 'std::convert::AsRef', 'std::borrow::Borrow',
    'std::convert::AsMut', 'std::borrow::BorrowMut',
    '<std::sync::Arc<T, A> as std::ops::Deref>::deref',
)


def is_transparent(callee):
    if callee.endswith('as std::clone::Clone>::clone') or callee == 'std::clone::Clone::clone':
        return True
    if callee.endswith('as std::ops::Deref>::deref') or callee.endswith('as std::ops::DerefMut>::deref_mut'):
        return True
    if callee in ('std::ops::Deref::deref', 'std::ops::DerefMut::deref_mut'):
        return True
    if callee.endswith('>::as_ref') and 'std::convert::AsRef' in callee:
        return True
    if callee.endswith('::as_ref') and callee.startswith('std::option::Option'):
        return False
    return False


def short(callee):
    """callee def path without generic clutter: keep the last two path segments"""
    c = re.sub(r'<[^<>]*>', '', callee)
    c = re.sub(r'<[^<>]*>', '', c)
    c = re.sub(r'<[^<>]*>', '', c)
    c = c.replace('::::', '::')
    parts = [p for p in c.split('::') if p]
    return '::'.join(parts[-2:]) if len(parts) >= 2 else c


def show(t, depth=0):
    if depth > 14:
        return '…'
    k = t[0]
    if k == 'arg':
        return f'${t[1]}'
    if k == 'const':
        return t[1]
    if k == 'field':
        return f'{show(t[1], depth+1)}.{t[2].split("::")[-1]}'
    if k == 'index':
        return f'{show(t[1], depth+1)}[{show(t[2], depth+1)}]'
    if k == 'bin':
        return f'{t[1]}({show(t[2], depth+1)},{show(t[3], depth+1)})'
    if k == 'un':
        return f'{t[1]}({show(t[2], depth+1)})'
    if k == 'discr':
        return f'discr({show(t[1], depth+1)})'
    if k == 'call':
        return f'{short(t[1])}({",".join(show(a, depth+1) for a in t[2])})'
    if k == 'agg':
        nm = t[1].split('::')[-1] + ('::' + t[2] if t[2] else '')
        if not t[3]:
            return nm
        return nm + '{' + ','.join(show(a, depth+1) for a in t[3]) + '}'
    if k == 'closure':
        return f'closure[{t[1].split("::")[-1]}]({",".join(show(a, depth+1) for a in t[2])})'
    if k == 'unk':
        return f'?{t[1]}'
    if k == 'down':
        return f'{show(t[1], depth+1)}@{t[2]}'
    if k == 'upvar':
        return f'upvar:{t[1]}'
    if k == 'fnitem':
        return t[1]
    if k == 'cast':
        return show(t[1], depth+1)
    return str(t)


def mentions(t, sub):
    """does term t contain sub as a sub-term"""
    if t == sub:
        return True
    for x in t[1:]:
        if isinstance(x, tuple):
            if x and isinstance(x[0], str) and x[0] in ('arg', 'const', 'field', 'index', 'bin', 'un', 'discr',
                                                        'call', 'agg', 'closure', 'unk', 'down', 'upvar', 'cast', 'fnitem'):
                if mentions(x, sub):
                    return True
            else:
                for y in x:
                    if isinstance(y, tuple) and mentions(y, sub):
                        return True
    return False


def subterms(t):
    yield t
    for x in t[1:]:
        if isinstance(x, tuple):
            if x and isinstance(x[0], str) and x[0] in ('arg', 'const', 'field', 'index', 'bin', 'un', 'discr',
                                                        'call', 'agg', 'closure', 'unk', 'down', 'upvar', 'cast', 'fnitem'):
                yield from subterms(x)
            else:
                for y in x:
                    if isinstance(y, tuple):
                        yield from subterms(y)


def calls_in(t):
    return [s for s in subterms(t) if s[0] == 'call']


def strip_uids(t):
    """same term with call instance ids removed (for comparing across paths/functions)"""
    if not isinstance(t, tuple):
        return t
    if t and t[0] == 'call':
        return ('call', t[1], tuple(strip_uids(a) for a in t[2]))
    return tuple(strip_uids(x) if isinstance(x, tuple) else x for x in t)


GUARD_TYPES = [
    ('parking_lot::lock_api::MutexGuard', 'mutex'),
    ('parking_lot::lock_api::RwLockReadGuard', 'rwlock-read'),
    ('parking_lot::lock_api::RwLockWriteGuard', 'rwlock-write'),
    ('std::sync::MutexGuard', 'mutex'),
    ('std::sync::RwLockReadGuard', 'rwlock-read'),
    ('std::sync::RwLockWriteGuard', 'rwlock-write'),
    ('dashmap::mapref::one::RefMut', 'dashmap-refmut'),
    ('dashmap::mapref::one::Ref', 'dashmap-ref'),
    ('dashmap::Entry', 'dashmap-entry'),
    ('dashmap::mapref::entry::Entry', 'dashmap-entry'),
    ('dashmap::OccupiedEntry', 'dashmap-entry'),
    ('dashmap::VacantEntry', 'dashmap-entry'),
    ('dashmap::mapref::entry::OccupiedEntry', 'dashmap-entry'),
    ('dashmap::mapref::entry::VacantEntry', 'dashmap-entry'),
]


def guard_kind(ty):
    """kind of lock guard directly owned by a value of this type (Option<guard>, tuples containing a
    guard and Result<guard,..> count: they own it)"""
    for pre, kind in GUARD_TYPES:
        if pre in ty:
            # a reference to a guard does not own it
            if ty.startswith('&'):
                return None
            return kind
    return None


# ------------------------------------------------------------------------------------------------
# events / paths


class Ev:
    __slots__ = ('kind', 'bb', 'line', 'd', 'held', 'mac')

    def __init__(self, kind, bb, line, held=(), mac=None, **d):
        self.kind = kind
        self.bb = bb
        self.line = line
        self.d = d
        self.held = held
        self.mac = mac

    def __getattr__(self, k):
        try:
            return self.d[k]
        except KeyError:
            raise AttributeError(k)

    def __repr__(self):
        if self.kind == 'atom':
            return f'ATOM[{self.line}] {show(self.d["term"])} == {self.d["outcome"]}'
        if self.kind == 'call':
            return f'CALL[{self.line}] {short(self.d["callee"])}({", ".join(show(a) for a in self.d["args"])})'
        if self.kind == 'assign':
            return f'ASSIGN[{self.line}] {show(self.d["place"])} := {show(self.d["value"])}'
        if self.kind == 'ret':
            return f'RET[{self.line}] {show(self.d["value"])}'
        if self.kind in ('acquire', 'release'):
            return f'{self.kind.upper()}[{self.line}] {self.d.get("cls")} {show(self.d["on"]) if self.d.get("on") else ""}'
        return f'{self.kind.upper()}[{self.line}] {self.d}'


class Path:
    __slots__ = ('events', 'end', 'blocks')

    def __init__(self, events, end, blocks):
        self.events = events
        self.end = end          # 'return' | 'unreachable' | 'stop' | 'diverge' | 'cut'
        self.blocks = blocks

    def calls(self, pat=None):
        return [e for e in self.events if e.kind == 'call' and (pat is None or callee_matches(e.d['callee'], pat))]

    def atoms(self):
        return [e for e in self.events if e.kind == 'atom']

    def first_index(self, pred):
        for i, e in enumerate(self.events):
            if pred(e):
                return i
        return None


_NORM = {}


def norm_callee(c):
    """def path with generic argument lists removed: `Mutex::<R, T>::lock` -> `Mutex::lock`,
    `<Vec<T, A> as Index<I>>::index` -> `<Vec as Index>::index`, `<impl S<DB>>::f` -> `<impl S>::f`"""
    r = _NORM.get(c)
    if r is not None:
        return r
    out = []
    i = 0
    n = len(c)

    def parse(i, top):
        # returns (string, next index) for a sequence up to the matching '>' (or end when top)
        buf = []
        while i < n:
            ch = c[i]
            if ch == '<':
                inner, j = parse(i + 1, False)
                keep = (' as ' in inner) or inner.startswith('impl ') or (not buf or buf[-1] in ('', ' ') or ''.join(buf).endswith(('(', ',', ' ', '&')))
                prev = ''.join(buf)
                if (' as ' in inner or inner.startswith('impl ')) and (prev == '' or prev.endswith('::') or prev.endswith(' ') or prev.endswith('(')):
                    buf.append('<' + inner + '>')
                else:
                    # generic argument list: drop it, and a preceding '::' turbofish
                    if prev.endswith('::'):
                        buf = [prev[:-2]]
                i = j
                continue
            if ch == '>':
                if top:
                    buf.append(ch)
                    i += 1
                    continue
                return ''.join(buf), i + 1
            buf.append(ch)
            i += 1
        return ''.join(buf), i

    r, _ = parse(0, True)
    _NORM[c] = r
    return r


def callee_matches(callee, pat):
    if isinstance(pat, (list, tuple, set, frozenset)):
        return any(callee_matches(callee, p) for p in pat)
    if hasattr(pat, 'search'):
        return pat.search(callee) is not None
    if _cm(callee, pat):
        return True
    nc = norm_callee(callee)
    return nc != callee and _cm(nc, pat)


def _cm(callee, pat):
    if pat.startswith('='):
        return callee == pat[1:]
    if pat.startswith('~'):
        return pat[1:] in callee
    return callee.endswith(pat) or (pat in callee and pat.endswith('::'))


TRACK_DROP_TYPES = ('CancelOnPanic',)


def simplify_proj(t):
    """project through an aggregate that substitution put under a field / downcast"""
    if t[0] != 'field':
        return t
    base, pr = t[1], t[2]
    if base[0] == 'closure' and pr.startswith('upvar:') and len(base) > 3:
        names = base[3].split('\x1f') if base[3] else []
        if pr[6:] in names and names.index(pr[6:]) < len(base[2]):
            return base[2][names.index(pr[6:])]
    if base[0] == 'agg' and base[4]:
        fname = pr.split('.')[-1]
        names = base[4].split(',')
        if fname in names and names.index(fname) < len(base[3]):
            return base[3][names.index(fname)]
    if base[0] == 'agg' and base[1] == 'tuple' and pr.startswith('tuple.'):
        i = int(pr.split('.')[1])
        if i < len(base[3]):
            return base[3][i]
    if base[0] == 'down' and base[1][0] == 'agg' and base[1][2] == base[2] and base[1][4]:
        fname = pr.split('.')[-1]
        names = base[1][4].split(',')
        if fname in names and names.index(fname) < len(base[1][3]):
            return base[1][3][names.index(fname)]
    return t


def subst_term(t, amap, inst):
    if not isinstance(t, tuple) or not t:
        return t
    if t[0] == 'arg' and len(t) == 2 and isinstance(t[1], int):
        return amap.get(t[1], ('unk', f'arg{t[1]}'))
    if t[0] == 'upvar' and len(t) == 2 and t in amap:
        return amap[t]
    if t[0] == 'call' and len(t) == 4:
        return ('call', t[1], tuple(subst_term(a, amap, inst) for a in t[2]), (inst,) + tuple(t[3]))
    r = tuple(subst_term(x, amap, inst) if isinstance(x, tuple) else x for x in t)
    if r[0] == 'field':
        r = simplify_proj(r)
    return r


def subst_guard(g, amap, inst):
    return (g[0], subst_term(g[1], amap, inst) if g[1] is not None else None, (inst,) + tuple(g[2]))


def _rw(t, heap):
    if not isinstance(t, tuple) or not t:
        return t
    if t[0] == 'field' and t in heap:
        return heap[t]
    if t[0] in ('const', 'arg', 'upvar', 'unk', 'fnitem'):
        return t
    if t[0] == 'call' and len(t) == 4:
        return ('call', t[1], tuple(_rw(a, heap) for a in t[2]), t[3])
    return tuple(_rw(x, heap) if isinstance(x, tuple) else x for x in t)


def heap_rewrite(evs, retv, heap):
    """events of an inlined helper with reads of places the caller has written replaced by the written values; a place the
    helper itself writes stops being rewritten from then on"""
    heap = dict(heap)
    out = []
    for e in evs:
        d = {}
        for k, v in e.d.items():
            if k in ('term', 'value', 'result', 'on'):
                d[k] = _rw(v, heap) if isinstance(v, tuple) else v
            elif k == 'args':
                d[k] = tuple(_rw(a, heap) for a in v)
            else:
                d[k] = v
        ne = Ev(e.kind, e.bb, e.line, e.held, e.mac, **d)
        out.append(ne)
        if e.kind == 'assign' and e.d['place'] in heap:
            heap[e.d['place']] = d.get('value', e.d['value'])
    return out, _rw(retv, heap) if isinstance(retv, tuple) else retv


def _unq(t, q):
    if not isinstance(t, tuple) or not t:
        return t
    if t[0] == 'quote' and len(t) == 2 and t[1] in q:
        return q[t[1]]
    return tuple(_unq(x, q) if isinstance(x, tuple) else x for x in t)


def unquote(evs, retv, q):
    out = []
    for e in evs:
        d = {k: (_unq(v, q) if isinstance(v, tuple) else v) for k, v in e.d.items()}
        ne = Ev(e.kind, e.bb, e.line, tuple(_unq(g, q) if isinstance(g, tuple) else g for g in e.held), e.mac, **d)
        out.append(ne)
    return out, _unq(retv, q) if isinstance(retv, tuple) else retv


def set_field(agg, field, value):
    """aggregate term with one named field replaced (None when the term is not a literal aggregate with that field)"""
    if not (isinstance(agg, tuple) and agg and agg[0] == 'agg' and len(agg) > 4 and agg[4]):
        return None
    names = agg[4].split(',')
    fname = field.split('.')[-1]
    if fname not in names or len(names) != len(agg[3]):
        return None
    i = names.index(fname)
    return (agg[0], agg[1], agg[2], tuple(value if j == i else x for j, x in enumerate(agg[3])), agg[4])


def instantiate_path(cp, args, inst, caller_held, callee, amap=None, writes=None):
    """events of callee path `cp` with its parameters replaced by the caller's argument terms.
    `writes` (a list) receives (parameter index, new value) for every assignment through a parameter
    itself (`*param = v`), so the caller can update the local a `&mut` argument points to"""
    if amap is None:
        amap = {i + 1: a for i, a in enumerate(args)}
    out = []
    retv = ('unk', 'ret')
    ret_held = caller_held
    # (terms of the callee are relative to the values its parameters had at entry — its own heap has already resolved reads
    # that follow its writes — so substitution always uses the entry values; `cur` only accumulates what the parameters
    # point to at exit)
    cur = {}
    for e in cp.events:
        if writes is not None and e.kind == 'assign' and e.d['place'][0] == 'arg':
            v_ = subst_term(e.d['value'], amap, inst)
            cur[e.d['place'][1]] = v_
            writes.append((e.d['place'][1], v_))
        elif writes is not None and e.kind == 'assign' and e.d['place'][0] == 'field' and e.d['place'][1][0] == 'arg' and isinstance(e.d['place'][1][1], int):
            # `param.field = v` through a `&mut` parameter: the caller's aggregate gets the new field
            k = e.d['place'][1][1]
            newv = subst_term(e.d['value'], amap, inst)
            base = cur.get(k, amap.get(k))
            upd = set_field(base, e.d['place'][2], newv) if base is not None else None
            if upd is not None:
                cur[k] = upd
                writes.append((k, upd))
        d = {}
        for k, v in e.d.items():
            if k in ('term', 'value', 'place', 'result', 'on'):
                d[k] = subst_term(v, amap, inst) if isinstance(v, tuple) else v
            elif k == 'args':
                d[k] = tuple(subst_term(a, amap, inst) for a in v)
            elif k == 'guard':
                d[k] = subst_guard(v, amap, inst)
            else:
                d[k] = v
        held = tuple(caller_held) + tuple(subst_guard(g, amap, inst) for g in e.held)
        if e.kind == 'ret':
            retv = d['value']
            ret_held = held
            continue
        # a block number of the callee must never be mistaken for one of the caller
        ne = Ev(e.kind, ('inl', callee, e.bb), e.line, held, e.mac, **d)
        ne.d['inlined_from'] = callee
        out.append(ne)
    return out, retv, ret_held


OPT = 'std::option::Option'
RES = 'std::result::Result'
NONE_TERM = ('agg', OPT, 'None', (), '')
UNIT_TERM = ('const', '()')


def mk_some(v):
    return ('agg', OPT, 'Some', (v,), '0')


def mk_ok(v):
    return ('agg', RES, 'Ok', (v,), '0')


def mk_err(v):
    return ('agg', RES, 'Err', (v,), '0')


def payload(x, adt, variant):
    if x[0] == 'agg' and x[2] == variant and len(x[3]) == 1:
        return x[3][0]
    return ('field', ('down', x, variant), f'{adt}::{variant}.0')


def combinator_plan(callee, args):
    """std combinators that take a callable are control flow in disguise: returns
    (subject, adt | 'bool', [(label, action)]) with action ('val', term) or ('app', callable, [args], wrap),
    so that `x.map_or(d, f)` and `match x { Some(v) => f(v), None => d }` give the same paths"""
    nc = norm_callee(callee)
    ident = lambda v: v
    if nc.startswith(OPT + '::') and nc.count('::') == 3 and args:
        m = nc.split('::')[-1]
        x = args[0]
        S = payload(x, OPT, 'Some')
        if m == 'map' and len(args) == 2:
            return x, OPT, [('Some', ('app', args[1], [S], mk_some)), ('None', ('val', NONE_TERM))]
        if m == 'and_then' and len(args) == 2:
            return x, OPT, [('Some', ('app', args[1], [S], ident)), ('None', ('val', NONE_TERM))]
        if m == 'map_or' and len(args) == 3:
            return x, OPT, [('Some', ('app', args[2], [S], ident)), ('None', ('val', args[1]))]
        if m == 'map_or_else' and len(args) == 3:
            return x, OPT, [('Some', ('app', args[2], [S], ident)), ('None', ('app', args[1], [], ident))]
        if m == 'unwrap_or_else' and len(args) == 2:
            return x, OPT, [('Some', ('val', S)), ('None', ('app', args[1], [], ident))]
        if m == 'ok_or_else' and len(args) == 2:
            return x, OPT, [('Some', ('val', mk_ok(S))), ('None', ('app', args[1], [], mk_err))]
        if m == 'unwrap_or' and len(args) == 2:
            return x, OPT, [('Some', ('val', S)), ('None', ('val', args[1]))]
        if m == 'ok_or' and len(args) == 2:
            return x, OPT, [('Some', ('val', mk_ok(S))), ('None', ('val', mk_err(args[1])))]
        if m == 'is_some_and' and len(args) == 2:
            return x, OPT, [('Some', ('app', args[1], [S], ident)), ('None', ('val', ('const', 'false')))]
        if m == 'is_none_or' and len(args) == 2:
            return x, OPT, [('Some', ('app', args[1], [S], ident)), ('None', ('val', ('const', 'true')))]
        if m == 'or_else' and len(args) == 2:
            return x, OPT, [('Some', ('val', x)), ('None', ('app', args[1], [], ident))]
        if m == 'filter' and len(args) == 2 and args[1][0] == 'closure':
            return x, OPT, [('Some', ('app', args[1], [S], ident, (lambda it: mk_some(it), NONE_TERM), S)), ('None', ('val', NONE_TERM))]
    if nc.startswith(RES + '::') and nc.count('::') == 3 and args:
        m = nc.split('::')[-1]
        x = args[0]
        O, E = payload(x, RES, 'Ok'), payload(x, RES, 'Err')
        if m == 'map' and len(args) == 2:
            return x, RES, [('Ok', ('app', args[1], [O], mk_ok)), ('Err', ('val', mk_err(E)))]
        if m == 'map_err' and len(args) == 2:
            return x, RES, [('Ok', ('val', mk_ok(O))), ('Err', ('app', args[1], [E], mk_err))]
        if m == 'and_then' and len(args) == 2:
            return x, RES, [('Ok', ('app', args[1], [O], ident)), ('Err', ('val', mk_err(E)))]
        if m == 'map_or_else' and len(args) == 3:
            return x, RES, [('Ok', ('app', args[2], [O], ident)), ('Err', ('app', args[1], [E], ident))]
        if m == 'map_or' and len(args) == 3:
            return x, RES, [('Ok', ('app', args[2], [O], ident)), ('Err', ('val', args[1]))]
        if m == 'unwrap_or_else' and len(args) == 2:
            return x, RES, [('Ok', ('val', O)), ('Err', ('app', args[1], [E], ident))]
        if m == 'or_else' and len(args) == 2:
            return x, RES, [('Ok', ('val', mk_ok(O))), ('Err', ('app', args[1], [E], ident))]
        if m == 'is_ok_and' and len(args) == 2:
            return x, RES, [('Ok', ('app', args[1], [O], ident)), ('Err', ('val', ('const', 'false')))]
        if m == 'is_err_and' and len(args) == 2:
            return x, RES, [('Ok', ('val', ('const', 'false'))), ('Err', ('app', args[1], [E], ident))]
    if 'core::bool::' in callee and callee.endswith('::then_some') and len(args) == 2:
        return args[0], 'bool', [('true', ('val', mk_some(args[1]))), ('false', ('val', NONE_TERM))]
    if 'core::bool::' in callee and callee.endswith('::then') and len(args) == 2:
        return args[0], 'bool', [('true', ('app', args[1], [], mk_some)), ('false', ('val', NONE_TERM))]
    # iter.for_each(f): the loop `for x in iter { f(x) }`, analysed like a loop body (zero or one iteration per path)
    if nc.endswith('Iterator>::for_each') or nc.endswith('Iterator::for_each'):
        if len(args) == 2 and args[1][0] == 'closure':
            return args[0], 'foreach', [('Some', ('app', args[1], [None], lambda v: UNIT_TERM)), ('None', ('val', UNIT_TERM))]
    # iter.any(p) / iter.all(p) / iter.find(p): the early-exit loop they abbreviate (zero or one iteration per path); the
    # predicate's verdict is a decision of the path, exactly as `if p(x) { return .. }` would be
    for meth, on_none, on_true, on_false in (('any', ('const', 'false'), lambda it: ('const', 'true'), ('const', 'false')),
                                             ('all', ('const', 'true'), lambda it: ('const', 'true'), ('const', 'false')),
                                             ('find', NONE_TERM, lambda it: mk_some(it), NONE_TERM)):
        if (nc.endswith('Iterator>::' + meth) or nc.endswith('Iterator::' + meth)) and len(args) == 2 and args[1][0] == 'closure':
            return args[0], 'foreach', [('Some', ('app', args[1], [None], lambda v: v, (on_true, on_false))), ('None', ('val', on_none))]
    # iter.fold(init, f): `let mut acc = init; for x in iter { acc = f(acc, x) }` (zero or one iteration per path)
    if (nc.endswith('Iterator>::fold') or nc.endswith('Iterator::fold')) and len(args) == 3 and args[2][0] == 'closure':
        return args[0], 'foreach', [('Some', ('app', args[2], [args[1], None], lambda v: v)), ('None', ('val', args[1]))]
    # a local closure called directly: f(a, b)
    if re.search(r'ops::Fn(Once|Mut)?>?::call(_once|_mut)?$', nc) and len(args) == 2 and args[0][0] == 'closure':
        tup = args[1]
        if tup[0] == 'agg' and tup[1] == 'tuple':
            return None, 'direct', [('', ('app', args[0], list(tup[3]), ident))]
    return None


class PathBudget(Exception):
    pass


IGNORED_CALL_PREFIXES = (
    'scheduler::metrics::', 'metrics::', 'tracing', 'std::fmt', 'core::fmt', 'std::time::Instant',
    'tracing_core', 'std::panicking', 'core::panicking', 'std::rt::',
)


def is_noise_call(callee):
    c = callee.lstrip('<')
    if 'ExecuteMetricsCollector' in callee:
        return True
    for p in IGNORED_CALL_PREFIXES:
        if c.startswith(p):
            return True
    if 'tracing::' in callee or 'tracing_core::' in callee:
        return True
    return False


class Fn:
    def __init__(self, facts, body):
        self.facts = facts
        self.b = body
        self.name = body['fn']
        self.blocks = {x['bb']: x for x in body['blocks'] if not x['cleanup']}
        self.lname = {l['i']: l['name'] for l in body['locals']}
        self.lty = {l['i']: l['ty'] for l in body['locals']}
        self.argc = body['argc']
        self.is_closure = body['kind'] == 'closure'
        self._succ = {}
        for bb, x in self.blocks.items():
            self._succ[bb] = self._succ_of(x['term'])
        # closure upvar names (debug info places on _1)
        self.upvar_names = {}
        for d in body.get('dbg', []):
            p = d['p']
            if p['local'] == 1:
                fs = [x for x in p['proj'] if x.startswith('upvar:')]
                if fs:
                    self.upvar_names[fs[0]] = d['name']

    # -- cfg -----------------------------------------------------------------------------------
    def _succ_of(self, t):
        k = t['k']
        if k == 'goto':
            return [(None, t['t'])]
        if k == 'switch':
            return [(v, tt) for v, tt in t['targets']] + [('otherwise', t['otherwise'])]
        if k in ('call', 'drop', 'assert'):
            return [(None, t['t'])] if t['t'] >= 0 else []
        return []

    def succ(self, bb):
        return [t for _, t in self._succ.get(bb, []) if t in self.blocks]

    def call_blocks(self, pat):
        return [bb for bb, x in sorted(self.blocks.items())
                if x['term']['k'] == 'call' and callee_matches(x['term']['callee'], pat)]

    def loc(self, bb_or_line):
        return f"{self.b['file']}:{bb_or_line}"

    # -- symbolic walk -------------------------------------------------------------------------
    def place_term(self, p, env, heap=None):
        loc = p['local']
        if loc in env:
            t = env[loc]
        elif 1 <= loc <= self.argc:
            t = ('arg', loc)
        else:
            t = ('unk', self.lname.get(loc) or f'_{loc}')
        for pr in p['proj']:
            if pr == '*':
                continue
            if pr.startswith('as:'):
                t = ('down', t, pr[3:])
                continue
            if pr.startswith('['):
                m = re.match(r'\[_(\d+)\]', pr)
                if m:
                    i = int(m.group(1))
                    it = env.get(i, ('unk', self.lname.get(i) or f'_{i}'))
                    t = ('index', t, it)
                else:
                    t = ('index', t, ('const', pr))
                continue
            if pr.startswith('upvar:'):
                # closure capture: name of the captured variable (by-ref/by-value marker stripped)
                t = ('upvar', self.upvar_names.get(pr, pr[6:]))
                continue
            # field
            if t[0] == 'agg' and t[4]:
                fname = pr.split('.')[-1]
                if fname in t[4].split(','):
                    i = t[4].split(',').index(fname)
                    if i < len(t[3]):
                        t = t[3][i]
                        continue
            if t[0] == 'agg' and t[1] == 'tuple' and pr.startswith('tuple.'):
                i = int(pr.split('.')[1])
                if i < len(t[3]):
                    t = t[3][i]
                    continue
            if t[0] == 'down' and t[1][0] == 'agg' and t[1][2] == t[2] and t[1][4]:
                fname = pr.split('.')[-1]
                if fname in t[1][4].split(','):
                    i = t[1][4].split(',').index(fname)
                    if i < len(t[1][3]):
                        t = t[1][3][i]
                        continue
            t = ('field', t, pr)
            if heap and t in heap:
                t = heap[t]
        return t

    def op_term(self, o, env, heap=None):
        if o['k'] == 'const':
            v = o['v']
            if v.startswith('const '):
                v = v[6:]
            # promoted constants: resolve to the value they hold
            if 'promoted' in o or '::promoted[' in v:
                pv = self.promoted_value(o.get('promoted', v))
                if pv is not None:
                    return pv
            if 'fndef' in o:
                # a function item used as a value: ('fnitem', path, ctor adt | '', ctor variant | '')
                return ('fnitem', v, o.get('ctor_adt', ''), o.get('ctor_variant', ''))
            # a named constant of the crate (`const BLOCK_START: usize = 0`) stands for its value
            cb = self.facts.by.get(v)
            if cb is not None and cb.get('kind') == 'const':
                cv = self.facts._const_vals.get(v, False) if hasattr(self.facts, '_const_vals') else False
                if cv is False:
                    if not hasattr(self.facts, '_const_vals'):
                        self.facts._const_vals = {}
                    self.facts._const_vals[v] = None
                    cv = self.promoted_value(v)
                    # only plain values (numbers, orderings, unit variants) are substituted
                    if cv is not None and not (cv[0] == 'const' or (cv[0] == 'agg' and not cv[3])):
                        cv = None
                    self.facts._const_vals[v] = cv
                if cv is not None:
                    return cv
            return ('const', v)
        if o['k'] in ('copy', 'move'):
            return self.place_term(o['p'], env, heap)
        return ('unk', 'other')

    def promoted_value(self, name):
        b = self.facts.by.get(name)
        if not b:
            return None
        f = Fn(self.facts, b)
        ps = f.paths(budget=50)
        if len(ps) != 1:
            return None
        for e in ps[0].events:
            if e.kind == 'ret':
                return e.d['value']
        return None

    def rv_term(self, rv, env, heap=None):
        k = rv['k']
        if k == 'use':
            return self.op_term(rv['o'], env, heap)
        if k in ('ref', 'rawptr'):
            return self.place_term(rv['p'], env, heap if k != 'ref' or not rv.get('mut') else heap)
        if k == 'bin':
            return ('bin', rv['op'], self.op_term(rv['l'], env, heap), self.op_term(rv['r'], env, heap))
        if k == 'un':
            return ('un', rv['op'], self.op_term(rv['o'], env, heap))
        if k == 'cast':
            return self.op_term(rv['o'], env, heap)
        if k == 'discr':
            return ('discr', self.place_term(rv['p'], env, heap), rv.get('adt', ''))
        if k == 'agg':
            if rv['adt'].startswith('closure:'):
                cb_ = self.facts.by.get(rv['adt'][8:])
                return ('closure', rv['adt'][8:], tuple(self.op_term(o, env, heap) for o in rv['ops']), '\x1f'.join(cb_.get('caps', [])) if cb_ else '')
            return ('agg', rv['adt'], rv.get('variant', ''), tuple(self.op_term(o, env, heap) for o in rv['ops']),
                    ','.join(rv.get('fields', [])))
        return ('unk', k + ':' + str(rv.get('v', ''))[:40])

    def desugar_branches(self, plan, memo, bb, t, held, max_visits, _depth, desugar):
        """branches of a std combinator call: [(events, result value, end, memo)] or None when a
        callable is not analysable (then the call stays a call)"""
        facts = self.facts
        subject, adt, branches = plan
        # all callables must be closures with bodies, or function items
        for _, act in branches:
            if act[0] == 'app':
                f = act[1]
                if f[0] == 'closure':
                    if f[1] not in facts.by:
                        return None
                elif f[0] == 'fnitem':
                    pass
                elif adt == 'direct' and f[0] == 'callee-closure':
                    pass
                else:
                    return None
        if adt == 'foreach':
            # subject := the `next()` of the iterator at this call site
            n = facts._inst[0] = facts._inst[0] + 1
            nxt = ('call', 'std::iter::Iterator::next', (subject,), (bb, 'foreach', n))
            item = ('field', ('down', nxt, 'Some'), OPT + '::Some.0')
            branches = [(lab, ((act[0], act[1], [item if a is None else a for a in act[2]], act[3]) + tuple(act[4:5]) + ((item,) if len(act) > 4 else ())) if act[0] == 'app' else act)
                        for lab, act in branches]
            subject, adt = nxt, OPT
        if adt == 'direct':
            dterm, key, known = None, None, ''
            canon = lambda lab: lab
        elif adt == 'bool':
            dterm = subject
            key, flipped = canon_decision(dterm)
            okey, omap = option_decision(dterm)
            if okey is not None:
                key, flipped = okey, False
            cv = const_value(dterm)
            known = None if cv is None else ('true' if cv == 1 else 'false')
            canon = (lambda lab: omap.get(lab, lab)) if okey is not None and omap else ((lambda lab: flip_label(lab)) if flipped else (lambda lab: lab))
        else:
            dterm = ('discr', subject, adt)
            key = ('od', option_subject(subject))
            known = known_variant(('discr', key[1], adt), facts)
            canon = lambda lab: lab
        res = []
        for lab, act in branches:
            if known is not None and lab != known:
                continue
            cl = canon(lab)
            if known is None and key in memo and not memo_compatible(memo[key], cl):
                continue
            m2 = memo
            evs = []
            if known is None:
                m2 = dict(memo)
                m2[key] = memo_update(memo.get(key), cl)
                if not (key in memo and memo[key][0] == 'eq'):
                    # (a decision this path already took is not reported twice)
                    evs.append(Ev('atom', bb, t['line'], held, t.get('mac'), term=dterm, outcome=lab, via=t['callee']))
            if act[0] == 'val':
                res.append((evs, act[1], 'return', m2))
                continue
            _, f, fargs, wrap = act[:4]
            decide = act[4] if len(act) > 4 else None
            decide_item = act[5] if len(act) > 5 else None
            if f[0] == 'fnitem':
                if f[2]:
                    # a constructor used as a function
                    v = ('agg', f[2], f[3], tuple(fargs), ','.join(str(i) for i in range(len(fargs))))
                    res.append((evs, wrap(v), 'return', m2))
                    continue
                n = facts._inst[0] = facts._inst[0] + 1
                v = ('call', f[1], tuple(fargs), (bb, 'fnitem', n))
                ev = Ev('call', bb, t['line'], held, t.get('mac'), callee=f[1], args=tuple(fargs), decl='', generic='',
                        local=norm_callee(f[1]) in facts.by or f[1] in facts.by, result=v, via=t['callee'])
                res.append((evs + ([ev] if not is_noise_call(f[1]) else []), wrap(v), 'return', m2))
                continue
            cname = f[1]
            if f[0] == 'callee-closure':
                f = f[2]
            cb = facts.by[cname]
            cf = facts.fn(cb)
            try:
                cps = cf.paths(budget=3000, max_visits=max_visits, _depth=_depth + 1, desugar=desugar)
            except PathBudget:
                return None
            if len(cps) > 64:
                return None
            amap = {1: f}
            for i, a in enumerate(fargs):
                amap[2 + i] = a
            for i, c in enumerate(cb.get('caps', [])):
                if f[0] == 'closure' and i < len(f[2]):
                    amap[('upvar', cf.upvar_names.get('upvar:' + c, c))] = f[2][i]
                else:
                    # the closure value is not known here (e.g. itself a capture of an enclosing
                    # closure): leave a projection that resolves once it is substituted
                    amap[('upvar', cf.upvar_names.get('upvar:' + c, c))] = ('field', f, 'upvar:' + c)
            for cp in cps:
                facts._inst[0] += 1
                evs2, retv, _rh = instantiate_path(cp, (), facts._inst[0], held, cname, amap=amap)
                if cp.end != 'return':
                    if cp.end in ('diverge', 'cut'):
                        res.append((evs + evs2, None, cp.end, m2))
                    continue
                m3 = decisions_feasible(evs2, m2, facts)
                if m3 is None:
                    continue
                if decide is not None:
                    tv, fv = decide[0](decide_item), decide[1]
                    cv = const_value(retv)
                    if cv is not None:
                        res.append((evs + evs2, tv if cv == 1 else fv, 'return', m3))
                    else:
                        for lab2, val2 in (('true', tv), ('false', fv)):
                            res.append((evs + evs2 + [Ev('atom', bb, t['line'], held, t.get('mac'), term=retv, outcome=lab2, via=t['callee'])], val2, 'return', m3))
                    continue
                res.append((evs + evs2, wrap(retv), 'return', m3))
        return res

    def paths(self, start=0, stop=None, budget=200000, env0=None, keep_noise=False, stop_at_calls=None, max_visits=2, _depth=0, desugar=True):
        """enumerate paths from block `start`; `stop(bb)` ends a path (before executing bb) with
        end='stop'."""
        out = []
        count = [0]
        facts = self.facts
        blocks = self.blocks

        def held_of(guards):
            return tuple(sorted(set(guards.values())))

        def walk(bb, env, memo, used, events, guards, trail, heap):
            # iterative on straight-line code, recursive on branches
            while True:
                if trail.count(bb) >= max_visits:
                    out.append(Path(events, 'cut', trail))
                    return
                if bb not in blocks:
                    out.append(Path(events, 'diverge', trail))
                    return
                if stop is not None and stop(bb) and trail:
                    out.append(Path(events, 'stop', trail + [bb]))
                    return
                x = blocks[bb]
                trail = trail + [bb]
                for st in x['stmts']:
                    lhs = st['lhs']
                    rv = st['rv']
                    if rv['k'] == 'setdiscr':
                        pt = self.place_term(lhs, env)
                        events = events + [Ev('assign', bb, st['line'], held_of(guards), st.get('mac'),
                                              place=pt, value=('agg', rv['ty'], rv['variant'], (), ''))]
                        continue
                    val = self.rv_term(rv, env, heap)
                    if not lhs['proj']:
                        loc = lhs['local']
                        env = dict(env)
                        env[loc] = val
                        # `_t = &mut L` / reborrows / moves of such a reference: remember which local it points to
                        tgt = None
                        if rv['k'] in ('ref', 'rawptr'):
                            rp = rv['p']
                            if not rp['proj']:
                                tgt = rp['local']
                            elif rp['proj'] == ['*']:
                                tgt = env.get(('ref', rp['local']))
                        elif rv['k'] == 'use' and rv['o']['k'] in ('move', 'copy') and not rv['o']['p']['proj']:
                            tgt = env.get(('ref', rv['o']['p']['local']))
                        if tgt is not None:
                            env[('ref', loc)] = tgt
                        elif ('ref', loc) in env:
                            del env[('ref', loc)]
                        # guard moves
                        if rv['k'] == 'use' and rv['o']['k'] == 'move' and rv['o']['p']['local'] in guards \
                                and (not rv['o']['p']['proj'] or guard_kind(self.lty.get(loc, ''))):
                            guards = dict(guards)
                            guards[loc] = guards.pop(rv['o']['p']['local'])
                        elif rv['k'] == 'agg':
                            for o in rv['ops']:
                                if o['k'] == 'move' and not o['p']['proj'] and o['p']['local'] in guards:
                                    guards = dict(guards)
                                    guards[loc] = guards.pop(o['p']['local'])
                        if self.lname.get(loc):
                            events = events + [Ev('assign', bb, st['line'], held_of(guards), st.get('mac'),
                                                  place=('var', self.lname[loc]), value=val)]
                            # a write to a user variable invalidates memoised decisions on it: handled
                            # by env replacement (terms are values, not names)
                    else:
                        pt = self.place_term(lhs, env, None)
                        events = events + [Ev('assign', bb, st['line'], held_of(guards), st.get('mac'),
                                              place=pt, value=val)]
                        heap = dict(heap)
                        heap[pt] = val
                        # invalidate memo entries that read this place
                        if memo:
                            memo = {k: v for k, v in memo.items() if not mentions(k, pt)}
                        base = lhs['local']
                        if base in env and not any(p == '*' for p in lhs['proj']):
                            # field write into a local aggregate: a literal aggregate gets the new field (a context struct
                            # threaded through a loop keeps its other fields), anything else loses its precise value
                            env = dict(env)
                            upd = set_field(env[base], lhs['proj'][0], val) if len(lhs['proj']) == 1 and isinstance(lhs['proj'][0], str) else None
                            env[base] = upd if upd is not None else ('unk', self.lname.get(base) or f'_{base}')
                t = x['term']
                k = t['k']
                if k == 'goto':
                    bb = t['t']
                    continue
                if k == 'return':
                    rt = env.get(0, ('unk', 'ret'))
                    events = events + [Ev('ret', bb, t['line'], held_of(guards), value=rt)]
                    count[0] += 1
                    if count[0] > budget:
                        raise PathBudget(self.name)
                    out.append(Path(events, 'return', trail))
                    return
                if k in ('unreachable', 'resume', 'other'):
                    out.append(Path(events, 'unreachable', trail))
                    return
                if k == 'assert':
                    # overflow/bounds checks: follow the success edge only (the failure edge panics)
                    bb = t['t']
                    continue
                if k == 'drop':
                    p = t['p']
                    if not p['proj'] and any(x in self.lty.get(p['local'], '') for x in TRACK_DROP_TYPES):
                        events = events + [Ev('drop', bb, t['line'], held_of(guards), ty=self.lty[p['local']],
                                              name=self.lname.get(p['local'], ''))]
                    if not p['proj'] and p['local'] in guards:
                        g = guards[p['local']]
                        guards = dict(guards)
                        del guards[p['local']]
                        events = events + [Ev('release', bb, t['line'], held_of(guards), guard=g, cls=g[0], on=g[1])]
                    bb = t['t']
                    continue
                if k == 'call':
                    callee = t['callee']
                    args = tuple(self.op_term(a, env, heap) for a in t['args'])
                    dest = t['dest']
                    plan = combinator_plan(callee, args) if desugar and _depth < 4 and t['t'] >= 0 else None
                    if plan is None and desugar and _depth < 4 and t['t'] >= 0 and len(args) == 2 and facts.by.get(callee, {}).get('kind') == 'closure' \
                            and args[1][0] == 'agg' and args[1][1] == 'tuple':
                        # a local closure called directly (resolved to its body): f(a, b)
                        fclo = args[0] if args[0][0] == 'closure' and args[0][1] == callee else ('callee-closure', callee, args[0])
                        plan = (None, 'direct', [('', ('app', fclo, list(args[1][3]), lambda v: v))])
                    if plan is not None:
                        branches = self.desugar_branches(plan, memo, bb, t, held_of(guards), max_visits, _depth, desugar)
                        if branches is not None:
                            # a guard moved into the combinator (a temporary like map.get(k).is_some_and(..))
                            # lives while the callable runs and is released when the combinator returns
                            moved_g = [a['p']['local'] for a in t['args'] if a['k'] == 'move' and not a['p']['proj'] and a['p']['local'] in guards]
                            rel_after = []
                            if moved_g:
                                guards = dict(guards)
                                for m in moved_g:
                                    g = guards.pop(m)
                                    rel_after.append(Ev('release', bb, t['line'], held_of(guards), guard=g, cls=g[0], on=g[1], moved=callee))
                            for evs2, val2, end2, memo2 in branches:
                                if end2 != 'return':
                                    out.append(Path(events + evs2, end2, trail))
                                    continue
                                evs2 = evs2 + rel_after
                                env2 = dict(env)
                                heap2 = heap
                                for e2 in evs2:
                                    if e2.kind == 'assign' and e2.d['place'][0] != 'var':
                                        if heap2 is heap:
                                            heap2 = dict(heap)
                                        heap2[e2.d['place']] = e2.d['value']
                                evs3 = list(evs2)
                                if not dest['proj']:
                                    env2[dest['local']] = val2
                                else:
                                    pt = self.place_term(dest, env)
                                    evs3.append(Ev('assign', bb, t['line'], held_of(guards), place=pt, value=val2))
                                walk(t['t'], env2, memo2, used, events + evs3, guards, trail, heap2)
                                if count[0] > budget:
                                    raise PathBudget(self.name)
                            return
                    # guard ownership transfer into the callee
                    moved = [a['p']['local'] for a in t['args']
                             if a['k'] == 'move' and not a['p']['proj'] and a['p']['local'] in guards]
                    rel_events = []
                    if moved:
                        guards = dict(guards)
                        for m in moved:
                            g = guards.pop(m)
                            if callee.startswith('std::mem::drop') or callee.startswith('core::mem::drop'):
                                rel_events.append(Ev('release', bb, t['line'], held_of(guards), guard=g, cls=g[0], on=g[1]))
                            else:
                                # moved into a callee that returns a value: if the destination type
                                # owns a guard, the guard lives on in the destination
                                if not dest['proj'] and guard_kind(self.lty.get(dest['local'], '')):
                                    guards[dest['local']] = g
                                else:
                                    rel_events.append(Ev('release', bb, t['line'], held_of(guards), guard=g, cls=g[0], on=g[1], moved=callee))
                    folded = fold_call(callee, args)
                    if is_transparent(callee) and args:
                        val = args[0]
                        ev = None
                    elif folded is not None:
                        val = folded
                        ev = None
                    else:
                        n = sum(1 for e in events if e.kind == 'call' and e.bb == bb)
                        val = ('call', callee, args, (bb, n))
                        ev = Ev('call', bb, t['line'], held_of(guards), t.get('mac'), callee=callee, args=args,
                                decl=t.get('decl', ''), generic=t.get('generic', ''), local=t.get('local', False),
                                result=val)
                    if ev is not None and (keep_noise or not is_noise_call(callee)):
                        events = events + [ev]
                    events = events + rel_events
                    if not dest['proj']:
                        env = dict(env)
                        env[dest['local']] = val
                        if ev is None and args and self.lname.get(dest['local']) and 'clone::Clone' in callee:
                            # `let copy = place.clone();` makes no call event (clone is transparent): record WHEN the copy was taken
                            events = events + [Ev('assign', bb, t['line'], held_of(guards), t.get('mac'), place=('var', self.lname[dest['local']]), value=val, copied=True)]
                        gk = guard_kind(self.lty.get(dest['local'], ''))
                        if gk and dest['local'] not in guards and not is_transparent(callee):
                            on = args[0] if args else None
                            g = (gk, on, (bb,))
                            guards = dict(guards)
                            guards[dest['local']] = g
                            events = events + [Ev('acquire', bb, t['line'], held_of(guards), guard=g, cls=gk, on=on,
                                                  callee=callee, ty=self.lty.get(dest['local'], ''))]
                    else:
                        pt = self.place_term(dest, env)
                        events = events + [Ev('assign', bb, t['line'], held_of(guards), place=pt, value=val)]
                    if t['t'] < 0:
                        out.append(Path(events, 'diverge', trail))
                        return
                    if _depth < 3 and ev is not None and facts.is_new_fn(callee):
                        cf = facts.fn(facts.by[callee])
                        # a closure handed to the helper is known here: the helper's own `f(x)` is then analysed through, with the
                        # closure's captures kept as opaque quotes while the helper's paths are computed (they are caller terms)
                        qtable, env_c = {}, {}
                        for ai, a_ in enumerate(args):
                            if isinstance(a_, tuple) and a_ and a_[0] == 'closure' and a_[1] in facts.by and ai + 1 <= cf.argc:
                                qs = []
                                for cap in a_[2]:
                                    facts._inst[0] += 1
                                    qtable[facts._inst[0]] = cap
                                    qs.append(('quote', facts._inst[0]))
                                env_c[ai + 1] = (a_[0], a_[1], tuple(qs)) + tuple(a_[3:])
                        try:
                            cps = cf.paths(budget=3000, max_visits=max_visits, _depth=_depth + 1, desugar=desugar, env0=env_c or None)
                        except PathBudget:
                            cps = None
                        if cps is not None and len(cps) <= 256:
                            held_here = held_of(guards)
                            for cp in cps:
                                facts._inst[0] += 1
                                inst = facts._inst[0]
                                pwrites = []
                                evs2, retv, ret_held = instantiate_path(cp, args, inst, held_here, callee, writes=pwrites)
                                # what the caller stored through a place before the call is what the helper reads from it
                                if qtable:
                                    evs2, retv = unquote(evs2, retv, qtable)
                                    pwrites = [(pi_, _unq(pv_, qtable)) for pi_, pv_ in pwrites]
                                # (only fields OF a by-reference argument: `helper(&mut state)` reading `state.f` after the caller
                                # wrote `state.f`; an argument that is itself a value read earlier is a snapshot and stays as it is)
                                if heap:
                                    sub = {k_: v_ for k_, v_ in heap.items() if isinstance(k_, tuple) and k_ and k_[0] == 'field' and any(k_[1] == a_ for a_ in args)}
                                    if sub:
                                        evs2, retv = heap_rewrite(evs2, retv, sub)
                                # decisions the helper took on its parameters may be decided by the
                                # caller's arguments or by what this path already knows
                                memo_i = decisions_feasible(evs2, memo, facts)
                                if memo_i is None:
                                    continue
                                if cp.end != 'return':
                                    if cp.end in ('diverge', 'cut'):
                                        out.append(Path(events + evs2, cp.end, trail))
                                    continue
                                env2 = dict(env)
                                heap2 = dict(heap)
                                for e2 in evs2:
                                    if e2.kind == 'assign' and e2.d['place'][0] != 'var':
                                        heap2[e2.d['place']] = e2.d['value']
                                # `helper(&mut local, ..)`: what the helper stored through the reference is the local's new value
                                for pi, pv in pwrites:
                                    if 1 <= pi <= len(t['args']):
                                        ao = t['args'][pi - 1]
                                        if ao['k'] in ('move', 'copy') and not ao['p']['proj']:
                                            tl = env.get(('ref', ao['p']['local']))
                                            if tl is not None:
                                                env2[tl] = pv
                                g2 = dict(guards)
                                if not dest['proj']:
                                    env2[dest['local']] = retv
                                    new_g = [g for g in ret_held if g not in held_here]
                                    if new_g and guard_kind(self.lty.get(dest['local'], '')):
                                        g2[dest['local']] = new_g[0]
                                    elif dest['local'] in g2 and not guard_kind(self.lty.get(dest['local'], '')):
                                        pass
                                walk(t['t'], env2, memo_i, used, events + evs2, g2, trail, heap2)
                                if count[0] > budget:
                                    raise PathBudget(self.name)
                            return
                    # NOTE: decisions are memoised by term.  A callee that mutates memory which the
                    # path re-reads and re-branches on would need the memo entry dropped here; the
                    # crate has no such re-read (checked when the rules were written), and dropping
                    # entries on every call creates infeasible paths (flag decided twice, differently).
                    bb = t['t']
                    continue
                if k == 'switch':
                    dterm = self.op_term(t['d'], env, heap)
                    targets = t['targets']
                    otherwise = t['otherwise']
                    # logging-enabled tests of the tracing macros: follow the disabled edge only
                    if t.get('mac') and 'tracing::' in show(dterm) and t['dty'] == 'bool':
                        dterm = ('const', 'false')
                    # constant?
                    cv = const_value(dterm)
                    if cv is not None:
                        nxt = otherwise
                        for v, tt in targets:
                            if v == cv:
                                nxt = tt
                        bb = nxt
                        continue
                    # known variant?
                    kv = known_variant(dterm, facts)
                    labels = self.switch_labels(t, dterm)
                    if kv is not None:
                        nxt = None
                        for (v, tt), lab in zip(targets, labels[:-1]):
                            if lab == kv:
                                nxt = tt
                        if nxt is None:
                            nxt = otherwise
                        bb = nxt
                        continue
                    key, flipped = canon_decision(dterm)
                    okey, omap = option_decision(dterm)
                    if okey is not None:
                        key, flipped = okey, False
                    else:
                        omap = None
                    canon = (lambda lab: omap.get(lab, lab)) if omap else ((lambda lab: flip_label(lab)) if flipped else (lambda lab: lab))
                    if okey is not None and okey[0] == 'od':
                        # the tested Option/Result was built on this path (possibly by an inlined helper)
                        kv2 = known_variant(('discr', okey[1], ''), facts)
                        if kv2 is not None:
                            nxt = [tt for (v, tt), lab in zip(targets, labels[:-1]) if canon(lab) == kv2]
                            if not nxt and canon(labels[-1]) == kv2 or not nxt and labels[-1].startswith('!'):
                                nxt = [otherwise]
                            if nxt:
                                bb = nxt[0]
                                continue
                    choices = [(lab, tt) for (v, tt), lab in zip(targets, labels[:-1])] + [(labels[-1], otherwise)]
                    if key in memo:
                        choices = [(lab, tt) for lab, tt in choices if memo_compatible(memo[key], canon(lab))]
                    branches = []
                    for lab, tt in choices:
                        if tt not in blocks:
                            continue
                        e = (bb, tt, lab)
                        if used.get(e, 0) >= max_visits - 1:
                            continue
                        branches.append((lab, tt, e))
                    if not branches:
                        out.append(Path(events, 'cut', trail))
                        return
                    for lab, tt, e in branches:
                        m2 = dict(memo)
                        m2[key] = memo_update(memo.get(key), canon(lab))
                        ev = Ev('atom', bb, t['line'], held_of(guards), t.get('mac'), term=dterm, outcome=lab)
                        u2 = dict(used)
                        u2[e] = u2.get(e, 0) + 1
                        g2 = guards
                        if lab in ('None', 'Err') and dterm[0] == 'discr' and guards:
                            # an Option<guard>/Result<guard,_> that turned out empty owns no guard
                            gone = [l for l in guards if env.get(l) == dterm[1]]
                            if gone:
                                g2 = {l: g for l, g in guards.items() if l not in gone}
                        walk(tt, env, m2, u2, events + [ev], g2, trail, heap)
                        if count[0] > budget:
                            raise PathBudget(self.name)
                    return
                out.append(Path(events, 'unreachable', trail))
                return

        sys.setrecursionlimit(20000)
        walk(start, dict(env0 or {}), {}, {}, [], {}, [], {})
        return out

    def switch_labels(self, t, dterm):
        """labels for each explicit target + the otherwise label"""
        vals = [v for v, _ in t['targets']]
        if t['dty'] == 'bool':
            # targets: [[0, bb_false]], otherwise = true
            labs = ['false' if v == 0 else 'true' for v in vals]
            other = 'true' if 0 in vals else 'false'
            return labs + [other]
        if dterm[0] == 'discr':
            en = self.facts.enums.get(dterm[2] if len(dterm) > 2 else '', None)
            if en:
                labs = [en.get(v, str(v)) for v in vals]
                rest = [n for d, n in sorted(en.items()) if d not in vals]
                other = rest[0] if len(rest) == 1 else '!' + '|'.join(labs)
                return labs + [other]
        labs = [str(v) for v in vals]
        return labs + ['!' + '|'.join(labs)]


_OPT_PEEL = ('Option::as_ref', 'Option::as_mut', 'Option::as_deref', 'Option::as_deref_mut', 'Result::as_ref', 'Result::as_mut')


def option_subject(x):
    """the Option/Result value whose emptiness `x` shares (as_ref & co. keep the variant)"""
    while x[0] == 'call' and len(x[2]) == 1 and any(norm_callee(x[1]).endswith(n) for n in _OPT_PEEL):
        x = x[2][0]
    return x


def is_bool_then(callee):
    return 'core::bool::' in callee and (callee.endswith('::then_some') or callee.endswith('::then'))


def option_decision(t):
    k, m = _option_decision(t)
    if k is not None and k[1][0] == 'call' and len(k[1][2]) == 2 and is_bool_then(k[1][1]):
        # Some-ness of `b.then_some(x)` / `b.then(f)` IS the boolean b
        bk, fl = canon_decision(k[1][2][0])
        to_b = {'Some': 'false' if fl else 'true', 'None': 'true' if fl else 'false'}
        if not m:
            return bk, to_b
        return bk, {lab: to_b.get(v, v) for lab, v in m.items()}
    return k, m


def _option_decision(t):
    """(memo key, label map) so that `match x {Some..}`, `x.is_some()`, `x.is_none()`, `x?` (and the
    Result forms) share ONE decision per path; (None, None) when t is not such a test"""
    neg = False
    while t[0] == 'un' and t[1] == 'Not':
        t = t[2]
        neg = not neg
    if t[0] == 'call' and len(t[2]) == 1:
        nc = norm_callee(t[1])
        for nm, tv, fv in (('Option::is_some', 'Some', 'None'), ('Option::is_none', 'None', 'Some'),
                           ('Result::is_ok', 'Ok', 'Err'), ('Result::is_err', 'Err', 'Ok')):
            if nc.endswith(nm):
                if neg:
                    tv, fv = fv, tv
                return ('od', option_subject(t[2][0])), {'true': tv, 'false': fv}
        return None, None
    if neg:
        return None, None
    if t[0] == 'discr':
        x = t[1]
        adt = t[2] if len(t) > 2 else ''
        if x[0] == 'call' and len(x[2]) == 1 and (norm_callee(x[1]).endswith('Try>::branch') or norm_callee(x[1]).endswith('Try::branch')):
            c = x[1]
            if 'option::Option<' in c.split(' as ')[0]:
                return ('od', option_subject(x[2][0])), {'Continue': 'Some', 'Break': 'None'}
            if 'result::Result<' in c.split(' as ')[0]:
                return ('od', option_subject(x[2][0])), {'Continue': 'Ok', 'Break': 'Err'}
            return None, None
        if adt.endswith('option::Option') or adt.endswith('result::Result'):
            return ('od', option_subject(x)), {}
    return None, None


def flip_label(lab):
    return {'true': 'false', 'false': 'true'}.get(lab, lab)


_CMP_CANON = {'Ne': ('Eq', True), 'Eq': ('Eq', False), 'Ge': ('Lt', True), 'Lt': ('Lt', False), 'Le': ('Gt', True), 'Gt': ('Gt', False)}


def canon_decision(t):
    """(memo key, flipped?) so that `a != b`, `!(a == b)` and `a == b` share one decision"""
    flipped = False
    while t[0] == 'un' and t[1] == 'Not':
        t = t[2]
        flipped = not flipped
    if t[0] == 'bin' and t[1] in _CMP_CANON:
        op, fl = _CMP_CANON[t[1]]
        l, r = t[2], t[3]
        if op == 'Eq' and repr(strip_uids(l)) > repr(strip_uids(r)):
            l, r = r, l
        return ('cmp', op, l, r), flipped != fl
    if t[0] == 'call' and len(t[2]) == 2:
        c = t[1]
        for nm, (op, fl) in (('::ne', ('Eq', True)), ('::eq', ('Eq', False)), ('::lt', ('Lt', False)), ('::ge', ('Lt', True)), ('::gt', ('Gt', False)), ('::le', ('Gt', True))):
            if c.endswith(nm) and ('PartialEq' in c or 'PartialOrd' in c or 'cmp' in c):
                l, r = t[2]
                if op == 'Eq' and repr(strip_uids(l)) > repr(strip_uids(r)):
                    l, r = r, l
                return ('cmp', op, strip_call_uid(l), strip_call_uid(r)), flipped != fl
    return t, flipped


def strip_call_uid(t):
    return t


def memo_compatible(know, lab):
    kind, v = know
    if lab.startswith('!'):
        ex = set(lab[1:].split('|'))
        return v not in ex if kind == 'eq' else True
    return v == lab if kind == 'eq' else lab not in v


def memo_update(know, lab):
    if lab.startswith('!'):
        ex = frozenset(lab[1:].split('|'))
        if know is None:
            return ('ne', ex)
        return know if know[0] == 'eq' else ('ne', know[1] | ex)
    return ('eq', lab)


def fold_call(callee, args):
    """evaluate a few pure std calls on values built on this path"""
    if not args:
        # `#[derive(Default)]` on a small verdict struct: the defaults of bool and Option are literals
        if callee == '<bool as std::default::Default>::default':
            return ('const', 'false')
        if callee.startswith('<std::option::Option<') and callee.endswith(' as std::default::Default>::default'):
            return NONE_TERM
        return None
    a = args[0]
    if a[0] == 'agg' and a[1].endswith('option::Option') and a[2] == 'None':
        nc = norm_callee(callee)
        if nc.endswith('Option::is_none_or'):
            return ('const', 'true')
        if nc.endswith('Option::is_some_and'):
            return ('const', 'false')
        if nc.endswith('Option::map_or') and len(args) == 3:
            return args[1]
        if nc.endswith('Option::unwrap_or') and len(args) == 2:
            return args[1]
    if a[0] == 'agg' and a[1].endswith('option::Option'):
        nc0 = norm_callee(callee)
        if nc0.endswith('Option::unwrap_or_default'):
            return a[3][0] if a[2] == 'Some' and len(a[3]) == 1 else ('const', 'Default::default()')
        if nc0.endswith('Option::unwrap_or') and len(args) == 2 and a[2] == 'Some' and len(a[3]) == 1:
            return a[3][0]
        if callee.endswith('::is_none'):
            return ('const', 'true' if a[2] == 'None' else 'false')
        if callee.endswith('::is_some'):
            return ('const', 'true' if a[2] == 'Some' else 'false')
    nc = norm_callee(callee)
    if is_bool_then(callee) and callee.endswith('::then_some') and len(args) == 2:
        cvb = const_value(a)
        if cvb == 1:
            return mk_some(args[1])
        if cvb == 0:
            return NONE_TERM
    if (nc.endswith('FromResidual>::from_residual') or nc.endswith('FromResidual::from_residual')) and a[0] == 'agg':
        # `?` re-raising an error value built on this path (by an inlined helper): Err(e) stays Err(e)
        # (the From conversion of the payload is not modelled), None stays None
        if a[1].endswith('result::Result') and a[2] == 'Err' and len(a[3]) == 1:
            return ('agg', RES, 'Err', a[3], '0')
        if a[1].endswith('option::Option') and a[2] == 'None':
            return NONE_TERM
    if nc.endswith('Try>::branch') or nc.endswith('Try::branch'):
        # `?` applied to the value an inlined helper returned through its own `?`, or to a value built
        # on this path
        if a[0] == 'call' and (norm_callee(a[1]).endswith('FromResidual>::from_residual') or norm_callee(a[1]).endswith('::from_residual')) and a[2]:
            return ('agg', 'std::ops::ControlFlow', 'Break', (a[2][0],), '0')
        if a[0] == 'agg' and a[1].endswith('result::Result') and len(a[3]) == 1:
            if a[2] == 'Ok':
                return ('agg', 'std::ops::ControlFlow', 'Continue', (a[3][0],), '0')
            if a[2] == 'Err':
                return ('agg', 'std::ops::ControlFlow', 'Break', (a,), '0')
        if a[0] == 'agg' and a[1].endswith('option::Option'):
            if a[2] == 'Some' and len(a[3]) == 1:
                return ('agg', 'std::ops::ControlFlow', 'Continue', (a[3][0],), '0')
            if a[2] == 'None':
                return ('agg', 'std::ops::ControlFlow', 'Break', (a,), '0')
    if len(args) == 2 and (callee.endswith('PartialEq>::eq') or callee.endswith('PartialEq::eq')
                           or callee.endswith('PartialEq>::ne') or callee.endswith('PartialEq::ne')):
        b = args[1]
        if a[0] == 'agg' and b[0] == 'agg' and a[1] == b[1] and a[2] and b[2]:
            if a[2] != b[2]:
                eq = False
            elif not a[3] and not b[3]:
                eq = True
            else:
                return None
            if callee.endswith('ne'):
                eq = not eq
            return ('const', 'true' if eq else 'false')
    return None


def same_value_read(term):
    return False


PURE_CALLEE_PATTERNS = (
    'std::cmp::', 'core::cmp::', '::is_some', '::is_none', '::is_empty', '::len', '::contains', '::get',
    '::is_ok', '::is_err', 'std::ops::Index', '::as_ref', '::iter', '::eq', '::ne', '::is_zero', '::load',
    '::into_iter', 'std::ops::Try', '::branch', '::is_aborted', '::index', '::finality_idx', '::committed_idx',
)


def is_pure_callee(callee):
    return any(p in callee for p in PURE_CALLEE_PATTERNS)


def lin(t):
    """t as (base term or None, integer offset) through +/- constants"""
    if t[0] == 'const':
        m = re.match(r'^(-?\d+)_?[iu]?(8|16|32|64|128|size)?$', t[1])
        if m:
            return (None, int(m.group(1)))
        m = re.search(r'<impl u(8|16|32|64|128|size)>::(MAX|MIN)$', t[1])
        if m:
            bits = 64 if m.group(1) == 'size' else int(m.group(1))
            return (None, (1 << bits) - 1 if m.group(2) == 'MAX' else 0)
        return (t, 0)
    if t[0] == 'field' and t[2].startswith('tuple.0') and t[1][0] == 'bin' and t[1][1] in ('AddWithOverflow', 'SubWithOverflow'):
        t = ('bin', 'Add' if t[1][1].startswith('Add') else 'Sub', t[1][2], t[1][3])
    if t[0] == 'bin' and t[1] in ('Add', 'Sub', 'AddUnchecked', 'SubUnchecked'):
        lb, lk = lin(t[2])
        rb, rk = lin(t[3])
        if t[1].startswith('Add'):
            if rb is None:
                return (lb, lk + rk)
            if lb is None:
                return (rb, lk + rk)
        else:
            if rb is None:
                return (lb, lk - rk)
            if lb is not None and strip_uids(lb) == strip_uids(rb):
                return (None, lk - rk)
    return (t, 0)


def _label_ok(label, value):
    if label.startswith('!'):
        return value not in label[1:].split('|')
    return label == value


def decisions_feasible(evs, memo, facts):
    """re-evaluate the decision atoms of an instantiated helper path: returns the caller's knowledge
    extended by them, or None when one of them contradicts a constant, a value built on the path, or
    an earlier decision"""
    m = dict(memo)
    for e in evs:
        if e.kind != 'atom':
            continue
        t, o = e.d['term'], e.d['outcome']
        cv = const_value(t)
        if cv is not None:
            if o in ('true', 'false'):
                if (o == 'true') != (cv == 1):
                    return None
            elif not _label_ok(o, str(cv)):
                return None
            continue
        kv = known_variant(t, facts)
        if kv is not None:
            if not _label_ok(o, kv):
                return None
            continue
        key, flipped = canon_decision(t)
        okey, omap = option_decision(t)
        if okey is not None:
            lab = omap.get(o, o) if omap else o
            key = okey
            if okey[0] == 'od':
                kv2 = known_variant(('discr', okey[1], ''), facts)
                if kv2 is not None:
                    if not _label_ok(lab, kv2):
                        return None
                    continue
        else:
            lab = flip_label(o) if flipped else o
        if key in m and not memo_compatible(m[key], lab):
            return None
        m[key] = memo_update(m.get(key), lab)
    return m


def _lit_variant(t):
    """variant name when t is the discriminant of a literal enum value (built on the path or an enum constant)"""
    if t[0] == 'discr':
        x = t[1]
        if x[0] == 'agg' and x[2]:
            return x[2]
        if x[0] == 'const' and '::' in x[1] and not x[1].split('::')[-1][:1].isdigit():
            return x[1].split('::')[-1]
    return None


def const_value(t):
    if t[0] == 'bin' and t[1] in ('Eq', 'Ne'):
        # two literal enum values compared through their discriminants (derived PartialEq on unit-like enums)
        va, vb = _lit_variant(t[2]), _lit_variant(t[3])
        if va is not None and vb is not None:
            return 1 if (va == vb) == (t[1] == 'Eq') else 0
    if t[0] == 'bin' and t[1] in ('Eq', 'Ne', 'Lt', 'Le', 'Gt', 'Ge'):
        lb, lk = lin(t[2])
        rb, rk = lin(t[3])
        same = (lb is None and rb is None) or (lb is not None and rb is not None and strip_uids(lb) == strip_uids(rb))
        if same:
            r = {'Eq': lk == rk, 'Ne': lk != rk, 'Lt': lk < rk, 'Le': lk <= rk, 'Gt': lk > rk, 'Ge': lk >= rk}[t[1]]
            return 1 if r else 0
    if t[0] == 'const':
        v = t[1]
        if v == 'true':
            return 1
        if v == 'false':
            return 0
        m = re.match(r'^(-?\d+)_?[iu]?(8|16|32|64|128|size)?$', v)
        if m:
            return int(m.group(1))
    if t[0] == 'un' and t[1] == 'Not':
        c = const_value(t[2])
        if c in (0, 1):
            return 1 - c
    return None


def known_variant(t, facts):
    """discriminant of an aggregate we built on this path, or of an enum constant"""
    if t[0] == 'discr':
        x = t[1]
        if x[0] == 'agg' and x[2]:
            return x[2]
        if x[0] == 'call' and x[1].endswith('::from_residual') and ' as ' in x[1]:
            # the value `?` returns early with: None for Option, Err(..) for Result
            self_ty = x[1].split(' as ')[0]
            if 'option::Option<' in self_ty:
                return 'None'
            if 'result::Result<' in self_ty:
                return 'Err'
        if x[0] == 'const':
            v = x[1].split('::')[-1]
            en = facts.enums.get(t[2]) if len(t) > 2 else None
            if en and v in en.values():
                return v
    return None


# ------------------------------------------------------------------------------------------------
# helpers over paths


def fmt_path(p, only=None):
    return '\n'.join('    ' + repr(e) for e in p.events if only is None or e.kind in only)


def atom_key(e):
    return show(strip_uids(e.d['term']))


def src_hash(repo='/repo'):
    h = hashlib.sha256()
    files = []
    for root, dirs, fs in os.walk(os.path.join(repo, 'src')):
        dirs.sort()
        for f in sorted(fs):
            files.append(os.path.join(root, f))
    for f in ('Cargo.toml', 'Cargo.lock'):
        files.append(os.path.join(repo, f))
    for f in files:
        try:
            with open(f, 'rb') as fh:
                h.update(f.encode())
                h.update(b'\0')
                h.update(fh.read())
        except OSError:
            h.update(b'missing:' + f.encode())
    return h.hexdigest()


def pretty_path(p, kinds=None, argnames=None):
    """display only: replace terms bound to user variables by «name»"""
    alias = {}
    lines = []

    def sh(t, depth=0):
        if depth > 12:
            return '…'
        st = strip_uids(t)
        if st in alias:
            return '«' + alias[st] + '»'
        k = t[0]
        if k == 'arg':
            return (argnames or {}).get(t[1], f'${t[1]}')
        if k == 'const':
            return t[1]
        if k == 'field':
            return f'{sh(t[1], depth+1)}.{t[2].split("::")[-1].split(".")[-1]}'
        if k == 'index':
            return f'{sh(t[1], depth+1)}[{sh(t[2], depth+1)}]'
        if k == 'bin':
            return f'{t[1]}({sh(t[2], depth+1)},{sh(t[3], depth+1)})'
        if k == 'un':
            return f'{t[1]}({sh(t[2], depth+1)})'
        if k == 'discr':
            return f'discr({sh(t[1], depth+1)})'
        if k == 'call':
            return f'{short(t[1])}({",".join(sh(a, depth+1) for a in t[2])})'
        if k == 'agg':
            nm = t[1].split('::')[-1] + ('::' + t[2] if t[2] else '')
            return nm + ('{' + ','.join(sh(a, depth+1) for a in t[3]) + '}' if t[3] else '')
        if k == 'closure':
            return f'closure[{t[1].split("::")[-1]}]({",".join(sh(a, depth+1) for a in t[2])})'
        if k == 'down':
            return f'{sh(t[1], depth+1)}@{t[2]}'
        return show(t)

    for e in p.events:
        if e.kind == 'assign' and e.d['place'][0] == 'var':
            v = strip_uids(e.d['value'])
            txt = f'  let {e.d["place"][1]} = {sh(e.d["value"])}   [{e.line}]'
            if v[0] not in ('const', 'arg') and not (v[0] == 'agg' and not v[3]):
                alias[v] = e.d['place'][1]
            if kinds is None or 'assign' in kinds:
                lines.append(txt)
            continue
        if kinds is not None and e.kind not in kinds:
            continue
        if e.kind == 'atom':
            lines.append(f'  ? {sh(e.d["term"])} == {e.d["outcome"]}   [{e.line}]')
        elif e.kind == 'call':
            lines.append(f'  call {short(e.d["callee"])}({", ".join(sh(a) for a in e.d["args"])})   [{e.line}] held={len(e.held)}')
        elif e.kind == 'assign':
            lines.append(f'  {sh(e.d["place"])} := {sh(e.d["value"])}   [{e.line}]')
        elif e.kind == 'ret':
            lines.append(f'  return {sh(e.d["value"])}')
        elif e.kind in ('acquire', 'release'):
            lines.append(f'  {e.kind} {e.d["cls"]} {sh(e.d["on"]) if e.d.get("on") else ""}   [{e.line}]')
    return '\n'.join(lines)

#!/usr/bin/env python3
"""run every rule on one mutant of the sweep: sweep_one.py <mutant id> ..."""
import sys, os, json
sys.path.insert(0, os.path.dirname(os.path.abspath(__file__)))
import mutsweep
muts = {m['id']: m for m in mutsweep.load('mutants.jsonl')}
for i, mid in enumerate(sys.argv[1:]):
    r = mutsweep.run_one(muts[mid], 3)
    print(mid, '|', muts[mid]['old'].strip()[:60], '->', muts[mid]['new'].strip()[:50])
    print('   ', r.get('status'), r.get('reported') or r.get('why'))

#!/usr/bin/env python3
"""setup_cmd: build the driver and warm the dependency cache with one export (offline)"""
import sys, os
sys.path.insert(0, os.path.dirname(os.path.abspath(__file__)))
import core
core.build_driver(force=False)
p = core.export_facts()
print('facts at', p)

"""Rules over ordered_commit.rs, fallback.rs, control.rs::post_execute and the error arm of
execute_task (C03, C04; N11/B4 shared with C02/C07)."""
from ru import *


def S2_N11_commit(ctx):
    f = ctx.method("ordered_commit::OrderedCommitter<'a, DB>", 'commit')
    ps = feasible(f.paths())
    bad = []
    rows = collections.Counter()
    n_expected = {True: 0, False: 0}
    for p in ps:
        ret = [e for e in p.events if e.kind == 'ret'][0].d['value']
        dis = [a for a in p.events if a.kind == 'atom' and is_field(strip(a.d['term']), 'OrderedCommitter.disable_nonce_check')]
        if not dis:
            bad.append((p, 'disable_nonce_check not consulted'))
            continue
        disabled = dis[0].d['outcome'] == 'true'
        reads = [e for e in p.events if e.kind == 'call' and e.d['callee'].endswith('::basic_ref') and e.d['args'][1:] and is_field(strip(e.d['args'][1]), 'TxEnv.caller')]
        commits = [e for e in p.events if e.kind == 'call' and norm_callee(e.d['callee']).endswith('::commit') and mentions_field(e.d['args'][0], 'OrderedCommitter.state')]
        pushes = calls(p, 'OrderedCommitOutput::push')
        kind = None
        if ret[0] == 'agg' and ret[2] == 'Ok':
            kind = variant_of(ret[3][0])
        elif ret[0] == 'agg' and ret[2] == 'Err':
            kind = 'Err'
        elif ret[0] == 'call' and callee_matches(ret[1], '::from_residual'):
            kind = 'Err?'
        rows[(disabled, kind)] += 1
        if disabled:
            if reads:
                bad.append((p, 'nonce read although the check is disabled'))
            if kind == 'NeedsSequentialFallback':
                bad.append((p, 'fallback although the nonce check is disabled'))
        else:
            if len(reads) != 1:
                bad.append((p, 'caller account not read exactly once from the committed state'))
                continue
            rd = reads[0]
            out = [a for a in p.events if a.kind == 'atom' and a.d['term'][0] == 'discr' and a.d['term'][1] == rd.d['result']]
            if not out:
                bad.append((p, 'basic_ref result not decided'))
                continue
            if out[0].d['outcome'] == 'Err':
                ok = kind == 'Err' and ret[3][0][0] == 'agg' and ret[3][0][1].endswith('GrevmError')
                if ok:
                    ge = dict(zip(ret[3][0][4].split(','), ret[3][0][3]))
                    ok = ge['txid'] == ('arg', 2) and ge['error'][0] == 'agg' and ge['error'][2] == 'Database' and mentions(ge['error'], rd.d['result'])
                if not ok or commits or pushes:
                    bad.append((p, 'database error on the nonce read is not returned as Err{txid, Database(e)} before any commit'))
                continue
            # expected nonce: the read account's nonce, 0 for an absent account (however it is spelled:
            # map_or(0, |i| i.nonce), match, if let ...)
            info_f = [of for of in (option_fact(a) for a in p.events) if of and of[1] in ('Some', 'None') and mentions(of[0], rd.d['result'])]
            present = info_f[-1][1] == 'Some' if info_f else None
            rdr = strip(rd.d['result'])

            def expected_ok(l):
                if present is True:
                    return is_field(l, 'AccountInfo.nonce') and mentions(l, rdr)
                if present is False:
                    return l == ('const', '0_u64')
                return False
            # how tx.nonce relates to the expected nonce on this path, however the comparison is spelled
            # (`cmp` + match on Ordering, ==, !=, <, > ...): (relation with tx.nonce on the left, event index, expected-side ok)
            rels = []
            for i_a, a in enumerate(p.events):
                if a.kind != 'atom':
                    continue
                t = a.d['term']
                if t[0] == 'discr' and t[1][0] == 'call' and t[1][1].endswith('::cmp') and len(t[1][2]) == 2:
                    x, y = strip(t[1][2][0]), strip(t[1][2][1])
                    o = a.d['outcome']
                    m = {'Equal': 'Eq', 'Greater': 'Gt', 'Less': 'Lt', '!Equal': 'Ne'}.get(o)
                    if is_field(x, 'TxEnv.nonce') and m:
                        rels.append((m, i_a, expected_ok(y)))
                    elif is_field(y, 'TxEnv.nonce') and m:
                        rels.append((CMP_FLIP[m], i_a, expected_ok(x)))
                    continue
                n_ = norm_cmp(a)
                if n_:
                    op, l, r = n_
                    if (r[0] == 'const' and 'MAX' in r[1]) or (l[0] == 'const' and 'MAX' in l[1]):
                        continue
                    if is_field(l, 'TxEnv.nonce'):
                        rels.append((op, i_a, expected_ok(r)))
                    elif is_field(r, 'TxEnv.nonce'):
                        rels.append((CMP_FLIP[op], i_a, expected_ok(l)))
            if present is None or any(not okx for _, _, okx in rels):
                bad.append((p, 'expected nonce is not the committed account nonce (0 when the account is absent)'))
                continue
            if rels:
                n_expected[present] += 1
            both_max = holds_rel(p, len(p.events), lambda op, l, r: op == 'Eq' and is_field(l, 'TxEnv.nonce') and r[0] == 'const' and 'MAX' in r[1]) and \
                holds_rel(p, len(p.events), lambda op, l, r: op == 'Eq' and expected_ok(l) and r[0] == 'const' and 'MAX' in r[1])
            # the overflow case must have been ruled OUT on a committing path (not merely "not seen"): one of the two
            # MAX tests was decided false. An absent account has the literal expected nonce 0, which cannot be MAX.
            max_excluded = holds_rel(p, len(p.events), lambda op, l, r: op == 'Ne' and (is_field(l, 'TxEnv.nonce') or expected_ok(l)) and r[0] == 'const' and 'MAX' in r[1])
            if kind == 'Committed':
                if both_max or not any(m == 'Eq' for m, _, _ in rels):
                    bad.append((p, 'committed without tx.nonce == committed nonce (or with the MAX/MAX overflow case)'))
                elif present is True and not max_excluded:
                    bad.append((p, 'committed although tx.nonce = committed nonce = u64::MAX was never ruled out (revm saturates the increment instead of rejecting)'))
                if commits and rels and idx_of(p, commits[0]) < max(i_a for _, i_a, _ in rels):
                    bad.append((p, 'state.commit before the nonce decision'))
            elif kind == 'NeedsSequentialFallback':
                if not (both_max or any(m in ('Gt', 'Lt', 'Ne') for m, _, _ in rels)):
                    bad.append((p, 'fallback without a nonce mismatch'))
            elif kind in ('Err', 'Err?'):
                pass
            else:
                bad.append((p, f'unexpected return {show(ret)[:80]}'))
        # N11: effects
        if kind == 'Committed':
            if len(commits) != 1 or len(pushes) != 1:
                bad.append((p, f'Committed path with {len(commits)} state.commit and {len(pushes)} output.push'))
            elif not mentions(ret, pushes[0].d['result']):
                bad.append((p, 'returned boundary is not the one produced by output.push'))
            else:
                st = commits[0].d['args'][1]
                if not has_call(st, 'SpeculativeResult::into_commit_parts'):
                    bad.append((p, 'committed state is not the speculative result\'s state'))
                if not has_call(pushes[0].d['args'][1], 'SpeculativeResult::into_commit_parts'):
                    bad.append((p, 'pushed outcome is not the speculative result\'s result'))
        else:
            if commits or pushes:
                bad.append((p, f'{kind} path commits state or pushes an outcome'))
    need = {(False, 'Committed'), (False, 'NeedsSequentialFallback'), (False, 'Err'), (True, 'Committed')}
    ctx.ob('S2', f, 'nonce-table', need <= set(rows) and not bad, '; '.join(sorted(set(w for _, w in bad))[:4]) + f' rows={dict(rows)}', site=f.loc(f.b['lo']),
           what='check disabled ⇒ no nonce read; DB error ⇒ Err{txid, Database}; tx.nonce=MAX ∧ state=MAX, Greater, Less ⇒ NeedsSequentialFallback with nothing committed; Equal ⇒ commit; absent account ⇒ expected nonce 0')
    ctx.ob('N11', f, 'commit-and-push-exactly-once', not [w for _, w in bad if 'Committed path' in w or 'commits state' in w or 'returned boundary' in w or 'speculative' in w],
           '; '.join(sorted(set(w for _, w in bad if 'ommit' in w))[:3]), site=f.loc(f.b['lo']),
           what='the Committed outcome applies the speculative state and pushes its result exactly once; every other exit applies neither')
    ctx.ob('S2', f, 'expected-nonce-is-account-nonce', n_expected[True] >= 1 and n_expected[False] >= 1,
           f'paths comparing against the account nonce={n_expected[True]}, against 0 for an absent account={n_expected[False]}', site=f.loc(f.b['lo']))


def B4_reward_fold(ctx):
    f = ctx.method("ordered_commit::OrderedCommitter<'a, DB>", 'commit')
    bad = []
    n = 0
    n_none = 0
    for p in feasible(f.paths()):
        ret = [e for e in p.events if e.kind == 'ret'][0].d['value']
        if not (ret[0] == 'agg' and ret[2] == 'Ok' and variant_of(ret[3][0]) == 'Committed'):
            continue
        dr = [a for a in p.events if a.kind == 'atom' and a.d['term'][0] == 'discr' and has_call(a.d['term'][1], 'SpeculativeResult::into_commit_parts')
              and a.d['outcome'] in ('Some', 'None')]
        if not dr:
            bad.append((p, 'deferred reward presence not decided'))
            continue
        commit_i = [i for i, e in enumerate(p.events) if e.kind == 'call' and norm_callee(e.d['callee']).endswith('::commit') and mentions_field(e.d['args'][0], 'OrderedCommitter.state')]
        if dr[0].d['outcome'] == 'None':
            n_none += 1
            if calls(p, 'DeferredBeneficiaryReward::apply_to'):
                bad.append((p, 'reward applied although none was deferred'))
            continue
        n += 1
        ck = [i for i, a in enumerate(p.events) if a.kind == 'atom' and a.d['term'][0] == 'call' and callee_matches(a.d['term'][1], '::contains_key') and mentions_field(a.d['term'][2][1], 'OrderedCommitter.beneficiary')]
        rd = [i for i, e in enumerate(p.events) if e.kind == 'call' and e.d['callee'].endswith('::basic_ref') and is_field(strip(e.d['args'][1]), 'OrderedCommitter.beneficiary')]
        ap = [i for i, e in enumerate(p.events) if is_call(e, 'DeferredBeneficiaryReward::apply_to')]
        mt = [i for i, e in enumerate(p.events) if is_call(e, 'Account::mark_touch')]
        ins = [i for i, e in enumerate(p.events) if e.kind == 'call' and norm_callee(e.d['callee']).endswith('::insert') and len(e.d['args']) == 3 and is_field(strip(e.d['args'][1]), 'OrderedCommitter.beneficiary')]
        if not (rd and ap and mt and ins and commit_i):
            bad.append((p, f'fold steps missing: read={bool(rd)} apply={bool(ap)} touch={bool(mt)} insert={bool(ins)}'))
            continue
        if not (rd[0] < ap[0] < ins[0] < commit_i[0] and mt[0] < ins[0] or (rd[0] < ap[0] < ins[0] < commit_i[0] and mt[0] < commit_i[0])):
            bad.append((p, 'fold order is not read → apply_to → (mark_touch) → insert → state.commit'))
        a = p.events[ap[0]]
        if not (mentions(a.d['args'][1], p.events[rd[0]].d['result']) and has_call(a.d['args'][0], 'SpeculativeResult::into_commit_parts')):
            bad.append((p, 'apply_to is not (deferred reward).apply_to(committed beneficiary info)'))
        # the committed info reaches apply_to as read: only the balance may change (nonce, code hash AND the code itself are kept —
        # in-block code such as an EIP-7702 designator lives only in the cached account)
        extra = sorted({short(c[1]) for c in calls_in(a.d['args'][1]) if not c[1].endswith('::basic_ref') and not is_transparent(c[1])})
        if extra:
            bad.append((p, f'the committed beneficiary info is transformed on its way into apply_to ({extra[0]})'))
        between = [x for x in p.events[ap[0] + 1:ins[0]] if x.kind == 'call' and mentions(x.d['args'][0] if x.d['args'] else ('const', ''), a.d['result'])
                   and not callee_matches(x.d['callee'], ('Account::mark_touch', '::from', '::into', '::insert')) and not is_transparent(x.d['callee'])]
        if between:
            bad.append((p, f'the credited account is transformed before it is inserted ({short(between[0].d["callee"])})'))
        i_e = p.events[ins[0]]
        if not (mentions(i_e.d['args'][2], a.d['result']) and has_call(i_e.d['args'][0], 'SpeculativeResult::into_commit_parts')):
            bad.append((p, 'inserted account is not built from apply_to\'s result into the tx state'))
        # touched account must be the inserted one
        m = p.events[mt[0]]
        if not mentions(m.d['args'][0], a.d['result']):
            bad.append((p, 'mark_touch on a different account'))
        if ck and not (ck[0] < ins[0]):
            bad.append((p, 'beneficiary-in-state assertion after the insert'))
    ctx.ob('B4', f, 'deferred-reward-fold', n >= 1 and n_none >= 1 and not bad, '; '.join(sorted(set(w for _, w in bad))[:3]), site=f.loc(f.b['lo']),
           what='a deferred reward is credited exactly once: committed beneficiary info → checked-add apply_to → touched account inserted into the transaction state → state.commit; untouched accounts are ignored by commit, a missing insert loses the fee')
    g = ctx.method('DeferredBeneficiaryReward', 'apply_to')
    bad = []
    for p in feasible(g.paths()):
        ca = [e for e in p.events if e.kind == 'call' and callee_matches(e.d['callee'], '::checked_add')]
        ud = [e for e in p.events if e.kind == 'call' and callee_matches(e.d['callee'], ('::unwrap_or_default', '::unwrap_or'))]
        absent_handled = bool(ud) or any(of and strip(of[0]) == ('arg', 2) for of in (option_fact(a) for a in p.events))
        if len(ca) != 1 or not absent_handled:
            bad.append(p)
            continue
        some = [a for a in p.events if a.kind == 'atom' and a.d['term'][0] == 'discr' and a.d['term'][1] == ca[0].d['result']]
        w = assigns(p, 'AccountInfo.balance')
        if some and some[0].d['outcome'] == 'Some' and not (w and mentions(w[0].d['value'], ca[0].d['result'])):
            bad.append(p)
        if some and some[0].d['outcome'] == 'None' and w and not all(is_field(strip(x.d['value']), 'AccountInfo.balance') for x in w):
            # (on overflow the balance stays: no write, or the old balance written back)
            bad.append(p)
        if not (is_field(strip(ca[0].d['args'][0]), 'AccountInfo.balance') and is_field(strip(ca[0].d['args'][1]), 'DeferredBeneficiaryReward.0')):
            bad.append(p)
    ctx.ob('B3', g, 'checked-add-on-default-account', not bad, f'{len(bad)} deviating path(s)', site=g.loc(g.b['lo']),
           what='revm credits with checked_add (overflow leaves the balance unchanged) and materialises an absent account from the default')


def S1_nonce_flags(ctx):
    pe = ctx.method('scheduler::Scheduler<DB>', 'parallel_execute_inner')
    bad = []
    n = 0
    for p in feasible(pe.paths()):
        for e in calls(p, 'OrderedCommitter::new'):
            n += 1
            if not is_field(strip(e.d['args'][2]), 'CfgEnv.disable_nonce_check') or not mentions_field(e.d['args'][2], 'Scheduler.cfg'):
                bad.append(('committer does not get the configured disable_nonce_check', e))
            if not is_field(strip(e.d['args'][0]), 'BlockEnv.beneficiary'):
                bad.append(('committer beneficiary is not env.beneficiary', e))
    ctx.ob('S1', pe, 'committer-uses-configured-nonce-check', n >= 1 and not bad, '; '.join(w for w, _ in bad[:2]), site=pe.loc(pe.b['lo']),
           what='the commit-time nonce re-check is the only nonce check of the parallel path; building the committer with `true` makes every nonce error pass')
    # worker closure: cfg.disable_nonce_check = true before GrevmExecutor::new(.., cfg, ..)
    cls = ctx.facts.closures_under(pe.name)
    okw = False
    badw = []
    for c in cls:
        cf = ctx.fn(c)
        for p in feasible(cf.paths()):
            ge = [e for e in p.events if e.kind == 'call' and norm_callee(e.d['callee']).endswith('GrevmExecutor::new')]
            if not ge:
                continue
            i = idx_of(p, ge[0])
            w = [e for e in p.events[:i] if e.kind == 'assign' and e.d['place'][0] == 'field' and e.d['place'][2].endswith('CfgEnv.disable_nonce_check')]
            if w and w[-1].d['value'] == ('const', 'true'):
                okw = True
            else:
                badw.append(p)
            a = ge[0].d['args']
            if not (mentions_field(a[2], 'Scheduler.env') and mentions_field(a[3], 'Scheduler.custom_precompiles')
                    and mentions_field(a[4], 'GrevmConfig.delegated_safety') and mentions_field(a[5], 'Scheduler.reserve_planner')):
                badw.append(p)
    ctx.ob('S1', pe, 'workers-run-with-nonce-check-disabled', okw and not badw, f'{len(badw)} deviating path(s)', site=pe.loc(pe.b['lo']),
           what='speculative attempts must not reject on nonces of uncommitted predecessors; the committed-state check decides')
    # sequential path: reject_nonce_overflow gets the configured flag; evm built with self.cfg
    rf = ctx.method('scheduler::Scheduler<DB>', 'replay_uncommitted_suffix')
    cls = ctx.facts.closures_under(rf.name)
    ok = False
    for c in cls:
        cf = ctx.fn(c)
        for p in feasible(cf.paths()):
            for e in calls(p, 'reject_nonce_overflow'):
                if is_field(strip(e.d['args'][1]), 'CfgEnv.disable_nonce_check'):
                    ok = True
    okb = False
    for p in feasible(rf.paths()):
        for e in calls(p, 'executor::build_evm'):
            if is_field(strip(e.d['args'][1]), 'Scheduler.cfg'):
                okb = True
    ctx.ob('S1', rf, 'sequential-path-uses-configured-nonce-check', ok and okb, f'reject_nonce_overflow flag={ok} build_evm(self.cfg)={okb}', site=rf.loc(rf.b['lo']))


def S5_sequential_suffix(ctx):
    f = ctx.method('scheduler::Scheduler<DB>', 'execute_sequential_suffix')
    bad = []
    rows = set()
    for p in feasible(f.paths()):
        cm = [e for e in p.events if e.kind == 'call' and re.search(r'Fn(Mut|Once)?::call(_mut|_once)?$', e.d['callee']) and strip(e.d['args'][0]) == ('arg', 3)]
        if not cm:
            continue
        res = cm[0].d['result']
        a0 = cm[0].d['args'][1]
        # (txid, &self.txs[txid]) with the loop index
        ok_args = a0[0] == 'agg' and a0[1] == 'tuple' and has_call(a0[3][1], '::index') and mentions_field(a0[3][1], 'Scheduler.txs') and mentions(a0[3][1], a0[3][0])
        if not ok_args:
            bad.append((p, 'transact not called with (txid, &self.txs[txid])'))
        outs = [a.d['outcome'] for a in p.events if a.kind == 'atom' and a.d['term'][0] == 'discr' and mentions(a.d['term'][1], res)]
        push = [e for e in p.events if e.kind == 'call' and norm_callee(e.d['callee']).endswith('Vec::push')]
        ret = [e for e in p.events if e.kind == 'ret'][0].d['value']
        rf = dict(zip(ret[4].split(','), ret[3])) if ret[0] == 'agg' else {}
        if 'Ok' in outs:
            rows.add('Ok')
            ok = push and push[0].d['args'][1][0] == 'agg' and push[0].d['args'][1][2] == 'Executed' and mentions(push[0].d['args'][1], res)
            if not ok:
                bad.append((p, 'Ok result not recorded as Executed(result)'))
        elif 'Err' in outs and 'Transaction' in outs:
            rows.add('Transaction')
            ok = push and push[0].d['args'][1][0] == 'agg' and push[0].d['args'][1][2] == 'Skipped' and mentions(push[0].d['args'][1], res)
            if not ok:
                bad.append((p, 'invalid transaction not recorded as Skipped(same error)'))
            if rf.get('error') and variant_of(rf['error']) == 'Some' and mentions(rf['error'], res):
                bad.append((p, 'invalid transaction returned as an error'))
        elif 'Err' in outs:
            rows.add('Other')
            err = rf.get('error')
            ok = err is not None and variant_of(err) == 'Some'
            if ok:
                ge = err[3][0]
                gf = dict(zip(ge[4].split(','), ge[3])) if ge[0] == 'agg' else {}
                ok = gf.get('txid') is not None and strip(gf['txid']) == strip(a0[3][0]) and mentions(gf.get('error', ('unk', '')), res)
            if not ok or push:
                bad.append((p, 'fatal error not returned as {outcomes so far, GrevmError{txid: loop index, error}}'))
        if rf and not has_call(rf.get('outcomes', ('unk', '')), 'Vec::with_capacity'):
            bad.append((p, 'returned outcomes are not the accumulated vector'))
    ctx.ob('S5', f, 'suffix-replay-table', rows == {'Ok', 'Transaction', 'Other'} and not bad, '; '.join(sorted(set(w for _, w in bad))[:3]) + f' rows={sorted(rows)}', site=f.loc(f.b['lo']),
           what='Ok ⇒ Executed; Err(Transaction(e)) ⇒ Skipped(e) and continue; any other Err ⇒ stop and return the completed prefix with GrevmError{txid: that index}')
    # the replay closure: commit only on Ok
    rf_ = ctx.method('scheduler::Scheduler<DB>', 'replay_uncommitted_suffix')
    cls = ctx.facts.closures_under(rf_.name)
    # closures handed to std combinators are analysed inline in their parent's paths
    inlined = set()
    per = {}
    for c in cls:
        cf = ctx.fn(c)
        per[c['fn']] = feasible(cf.paths())
        for p in per[c['fn']]:
            for e in p.events:
                if e.d.get('inlined_from'):
                    inlined.add(e.d['inlined_from'])
    bad = []
    ok_commits = 0
    is_commit = lambda e: e.kind == 'call' and e.d['callee'].endswith('::commit') and ('DatabaseCommit' in e.d['callee'] or 'ParallelState' in e.d['callee'])
    for c in cls:
        if c['fn'] in inlined:
            continue
        cf = ctx.fn(c)
        for p in per[c['fn']]:
            runs = [e for e in p.events if is_call(e, 'GrevmHandler::run') or (e.kind == 'call' and norm_callee(e.d['callee']).endswith('GrevmHandler::run'))]
            for i, e in enumerate(p.events):
                if not is_commit(e):
                    continue
                decided_ok = False
                for a in p.events[:i]:
                    of = option_fact(a)
                    if of and of[1] == 'Ok' and runs and strip(of[0]) == strip(runs[0].d['result']):
                        decided_ok = True
                if decided_ok:
                    ok_commits += 1
                else:
                    bad.append((cf, e))
    ctx.ob('S5', rf_, 'state-committed-only-for-executed-transactions', ok_commits >= 1 and not bad,
           f'commits control-dependent on the handler result being Ok={ok_commits}; other commits={[site(f2, e) for f2, e in bad][:2]}', site=rf_.loc(rf_.b['lo']),
           what='a skipped (invalid) or failed transaction must leave the state untouched: db.commit(state) is control-dependent on the Ok result')
    # E4: results.extend(outcomes) dominates the error return
    bad = []
    n = 0
    for p in feasible(rf_.paths()):
        ess = calls(p, 'fallback::execute_sequential_suffix') or [e for e in p.events if e.kind == 'call' and norm_callee(e.d['callee']).endswith('::execute_sequential_suffix')]
        if not ess:
            continue
        n += 1
        ext = [e for e in p.events if e.kind == 'call' and e.d['callee'].endswith('::extend') and mentions_field(e.d['args'][0], 'Scheduler.results')]
        ret = [e for e in p.events if e.kind == 'ret'][0].d['value']
        # the replay's error decides the return value: Some(e) ⇒ Err(e), None ⇒ Ok
        facts_ = [of for of in (option_fact(a) for a in p.events) if of and mentions(of[0], ess[0].d['result']) and mentions_field(of[0], 'SequentialReplayOutput.error')]
        if facts_ and facts_[-1][1] == 'Some':
            ret_ok = ret[0] == 'agg' and ret[2] == 'Err' and mentions(ret, ess[0].d['result'])
        elif facts_ and facts_[-1][1] == 'None':
            ret_ok = ret[0] == 'agg' and ret[2] == 'Ok'
        else:
            ret_ok = mentions(ret, ess[0].d['result'])
        if len(ext) != 1 or not mentions(ext[0].d['args'][1], ess[0].d['result']) or not ret_ok:
            bad.append(p)
        if ess and strip(ess[0].d['args'][1]) != strip(('call', 'scheduler::ordered_commit::CommittedPrefixEnd::index', (('arg', 2),))):
            bad.append(p)
    ctx.ob('E4', rf_, 'replayed-prefix-installed-before-error-return', n >= 1 and not bad, f'{len(bad)} deviating path(s)', site=rf_.loc(rf_.b['lo']),
           what='outcomes of the transactions replayed before a fatal error must be appended to results (exact prefix), and the error propagated; replay starts at the committed boundary')


def S6_nonce_overflow(ctx):
    f = ctx.fn('scheduler::fallback::reject_nonce_overflow')
    bad = []
    n_err = 0
    for p in feasible(f.paths()):
        ret = [e for e in p.events if e.kind == 'ret'][0].d['value']
        dis = [a for a in p.events if a.kind == 'atom' and strip(a.d['term']) == ('arg', 2)]
        is_err = ret[0] == 'agg' and ret[2] == 'Err'
        if is_err:
            n_err += 1
            ok = dis and dis[0].d['outcome'] == 'false'
            ok = ok and holds_rel(p, len(p.events), lambda op, l, r: op == 'Eq' and is_field(l, 'TxEnv.nonce') and r[0] == 'const' and 'MAX' in r[1])
            ok = ok and holds_rel(p, len(p.events), lambda op, l, r: op == 'Eq' and has_call(l, '::basic_ref') and r[0] == 'const' and 'MAX' in r[1])
            ok = ok and any(s[0] == 'agg' and s[2] == 'NonceOverflowInTransaction' for s in subterms(ret))
            if not ok:
                bad.append(p)
        if dis and dis[0].d['outcome'] == 'true' and (is_err or calls(p, '::basic_ref')):
            bad.append(p)
    ctx.ob('S6', f, 'nonce-overflow-table', n_err == 1 and not bad, f'err paths={n_err} bad={len(bad)}', site=f.loc(f.b['lo']),
           what='NonceOverflowInTransaction ⇔ nonce check enabled ∧ tx.nonce = MAX ∧ state nonce = MAX (revm saturates instead of rejecting)')


def E2_post_execute(ctx):
    f = ctx.method('scheduler::Scheduler<DB>', 'post_execute')
    bad = []
    rows = set()
    n_recorded = [0]
    for p in feasible(f.paths()):
        ret = [e for e in p.events if e.kind == 'ret'][0].d['value']
        ab = [a for a in p.events if a.kind == 'atom' and a.d['term'][0] == 'call' and callee_matches(a.d['term'][1], 'is_aborted')]
        if not ab:
            bad.append((p, 'abort flag not consulted'))
            continue
        if ab[0].d['outcome'] == 'false':
            rows.add('not-aborted')
            if not (ret[0] == 'agg' and ret[2] == 'Ok') or [e for e in p.events if e.kind == 'call' and e.d.get('local') and not callee_matches(e.d['callee'], 'is_aborted')]:
                bad.append((p, 'not aborted ⇒ must return Ok without replay'))
            continue
        reason = [a for a in p.events if a.kind == 'atom' and a.d['term'][0] == 'discr' and mentions_field(a.d['term'][1], 'Scheduler.abort_reason')]
        outs = [a.d['outcome'] for a in reason]
        replay = ret[0] == 'call' and (norm_callee(ret[1]).endswith('::replay_uncommitted_suffix') or norm_callee(ret[1]).endswith('::fallback_after_parallel_error'))
        if replay and ret[2][1] != ('arg', 2):
            bad.append((p, 'replay does not start at the committed boundary handed in'))
        if 'FatalEvmError' in outs:
            is_err = ret[0] == 'agg' and ret[2] == 'Err'
            if is_err:
                rows.add('Fatal:err')
                ok = ret[3][0][0] == 'agg' and ret[3][0][1].endswith('GrevmError')
                if ok:
                    gf = dict(zip(ret[3][0][4].split(','), ret[3][0][3]))
                    ok = mentions_field(gf['txid'], 'Scheduler.abort_reason') and mentions_field(gf['error'], 'Scheduler.tx_results')
                    # the error is the Err side of that transaction's recorded execute_result
                    if ok and mentions_field(gf['error'], 'TransactionResult.execute_result') and has_call(gf['error'], 'Result::err'):
                        n_recorded[0] += 1
                if not ok:
                    bad.append((p, 'fatal abort does not return GrevmError{txid from the abort reason, that tx\'s recorded error}'))
            else:
                rows.add('Fatal:lost')
                if not replay:
                    bad.append((p, 'fatal abort without a recorded error must replay'))
        elif 'CommitError' in outs:
            rows.add('CommitError')
            if not (ret[0] == 'agg' and ret[2] == 'Err' and mentions_field(ret, 'Scheduler.abort_reason')):
                bad.append((p, 'commit error not returned'))
        elif 'ParallelError' in outs:
            rows.add('ParallelError')
            if not replay:
                bad.append((p, 'ParallelError must replay the suffix'))
        elif 'FallbackSequential' in outs:
            rows.add('FallbackSequential')
            if not replay:
                bad.append((p, 'FallbackSequential must replay the suffix'))
        elif 'None' in outs:
            rows.add('None')
            if not replay:
                bad.append((p, 'aborted without reason must replay'))
        else:
            bad.append((p, f'unrecognised abort reason decision {outs}'))
    need = {'not-aborted', 'Fatal:err', 'Fatal:lost', 'CommitError', 'ParallelError', 'FallbackSequential', 'None'}
    ctx.ob('E2', f, 'abort-reason-mapping', rows == need and not bad, '; '.join(sorted(set(w for _, w in bad))[:3]) + f' rows={sorted(rows)}', site=f.loc(f.b['lo']),
           what='Fatal ⇒ that transaction\'s recorded error with its txid (else replay); CommitError ⇒ that error; ParallelError / FallbackSequential / no reason ⇒ sequential replay from the committed boundary; not aborted ⇒ Ok')
    ctx.ob('E2', f, 'fatal-error-read-from-the-recorded-result', n_recorded[0] >= 1, 'no Fatal path returns the Err side of TransactionResult.execute_result of the aborting transaction', site=f.loc(f.b['lo']))


def S4_E1_error_arm(ctx):
    """execute_task error arm: parking, head test, abort classes; E1 = no fatal verdict from
    unvalidated speculation"""
    f = ctx.method('scheduler::Scheduler<DB>', 'execute_task')
    ps = feasible(f.paths())
    bad4, bad1 = [], []
    rows = set()
    n_fatal = 0
    for p in ps:
        att = [i for i, e in enumerate(p.events) if is_call(e, '::execute_incarnation')]
        if not att:
            continue
        res = p.events[att[0]].d['result']
        err = [a for a in p.events if a.kind == 'atom' and a.d['term'][0] == 'discr' and mentions(a.d['term'][1], res) and mentions_field(a.d['term'][1], 'IncarnationExecution.result')]
        if not err or err[0].d['outcome'] != 'Err':
            continue
        st = assigns(p, 'TxState.status')
        ab = calls(p, 'Scheduler>::abort')
        if not st:
            continue  # abort-and-return paths (stale beneficiary history)
        blocked = [a for a in p.events if a.kind == 'atom' and a.d['term'][0] == 'call' and callee_matches(a.d['term'][1], 'IncarnationAccesses::is_blocked')]
        if not blocked:
            bad4.append((p, 'blocked-on-estimate not decided in the error arm'))
            continue
        adds = calls(p, 'TxDependency::add')
        keys = calls(p, 'TxDependency::key_tx')
        if blocked[0].d['outcome'] == 'true':
            rows.add('blocked')
            if not adds or keys or ab:
                bad4.append((p, 'blocked error attempt must park behind its blocker (tx_dependency.add) without abort/key_tx'))
            elif not (has_call(adds[0].d['args'][2], 'Scheduler::latest_unfinalized_blocker') or mentions_field(adds[0].d['args'][2], 'IncarnationAccesses.blocking_txs')):
                # (which of the attempt's blockers is chosen is a scheduling hint; that it is one of THEM is what is checked)
                bad4.append((p, 'the transaction is not parked behind one of the blockers its attempt met'))
            continue
        if not keys:
            bad4.append((p, 'unblocked error attempt does not call key_tx'))
            continue
        k = keys[0]
        if not (has_call(k.d['args'][2], 'SchedulerContext::commit_cursor') or 'PublishedCursorReader' in show(k.d['args'][2])):
            bad4.append((p, 'key_tx does not get the live commit cursor'))
        for a in ab:
            v = variant_of(a.d['args'][1])
            i = idx_of(p, a)
            # head test: committed cursor == txid, decided before the abort
            head = None
            for j, x in enumerate(p.events[:i]):
                if x.kind == 'atom':
                    n = norm_cmp(x)
                    if n and n[0] == 'Eq' and ((has_call(n[1], 'SchedulerContext::committed_idx') and is_field(n[2], 'TxVersion.txid')) or
                                               (has_call(n[2], 'SchedulerContext::committed_idx') and is_field(n[1], 'TxVersion.txid'))):
                        head = (j, x)
            if head is None:
                bad4.append((p, f'abort({v}) in the error arm without a commit-head test'))
                continue
            inv = [x for x in p.events[:i] if x.kind == 'atom' and (strip(x.d['term'])[0] in ('call', 'discr')) and
                   (has_call(x.d['term'], '~matches') or mentions_field(x.d['term'], 'IncarnationExecution.result')) and x.d['outcome'] in ('Transaction', 'true', 'false', '!Transaction')]
            if v == 'FallbackSequential':
                rows.add('head:invalid')
            elif v == 'FatalEvmError':
                rows.add('head:fatal')
                n_fatal += 1
                if not (a.d['args'][1][3] and is_field(strip(a.d['args'][1][3][0]), 'TxVersion.txid')):
                    bad4.append((p, 'FatalEvmError does not carry the own txid'))
                # E1: the cursor load deciding the head test must precede the attempt
                loads = [c for c in calls_in(head[1].d['term']) if callee_matches(c[1], 'SchedulerContext::committed_idx')]
                load_ev = [j for j, x in enumerate(p.events) if x.kind == 'call' and x.d.get('result') in loads]
                if not load_ev or load_ev[0] > att[0]:
                    bad1.append((p, a))
            else:
                bad4.append((p, f'unexpected abort reason {v} in the error arm'))
        if not ab:
            rows.add('not-head')
            # the only excuse for NOT reporting an unblocked error is that the attempt did not begin at the commit head
            off_head = False
            for x in p.events:
                if x.kind == 'atom':
                    n = norm_cmp(x)
                    if n and n[0] == 'Ne' and ((has_call(n[1], 'SchedulerContext::committed_idx') and is_field(n[2], 'TxVersion.txid')) or
                                               (has_call(n[2], 'SchedulerContext::committed_idx') and is_field(n[1], 'TxVersion.txid'))):
                        off_head = True
            if not off_head:
                bad4.append((p, 'an unblocked error of an attempt that began at the commit head is parked instead of reported (it would fail again, forever)'))
    # transaction-vs-other classification: FallbackSequential only when the error is EVMError::Transaction
    for p in ps:
        for a in calls(p, 'Scheduler>::abort'):
            v = variant_of(a.d['args'][1])
            if v not in ('FallbackSequential', 'FatalEvmError'):
                continue
            i = idx_of(p, a)
            cls = [x for x in p.events[:i] if x.kind == 'atom' and x.d['term'][0] == 'discr' and mentions_field(x.d['term'][1], 'IncarnationExecution.result')
                   and ('Transaction' in x.d['outcome'])]
            if not cls:
                bad4.append((p, f'abort({v}) without classifying the error as EVMError::Transaction or other'))
            else:
                is_tx = cls[-1].d['outcome'] == 'Transaction'
                if is_tx != (v == 'FallbackSequential'):
                    bad4.append((p, f'error class Transaction={is_tx} mapped to {v}'))
    ctx.ob('S4', f, 'error-arm-table', {'blocked', 'head:invalid', 'head:fatal', 'not-head'} <= rows and not bad4,
           '; '.join(sorted(set(w for _, w in bad4))[:4]) + f' rows={sorted(rows)}', site=f.loc(f.b['lo']),
           what='an erroring attempt parks behind its latest unfinalised blocker, else behind its own commit boundary (key_tx with the live cursor); only at the commit head does it abort: EVMError::Transaction ⇒ FallbackSequential (sequential re-validation decides the skip), anything else ⇒ FatalEvmError(txid)')
    if 'E1' not in getattr(ctx, 'skip_rules', ()):
      ctx.ob('E1', f, 'fatal-verdict-only-for-an-attempt-that-began-at-the-commit-head', n_fatal >= 1 and not bad1,
           '; '.join(f'abort(FatalEvmError) at {site(f, a)}: the committed-cursor load of the head test is evaluated after execute_incarnation' for _, a in bad1[:2]),
           site=site(f, bad1[0][1]) if bad1 else f.loc(f.b['lo']),
           what='an attempt that started before its predecessors committed may have read stale state; if the head test is evaluated only after the attempt, a stale speculative failure is reported as the block\'s error although in-order execution succeeds')
    # fingerprint for known-findings: instance name is stable


def S7_replay_entry(ctx):
    """replay_uncommitted_suffix: refuses only on an observed prefix mismatch, returns early only when nothing is left to
    replay, and the sequential entry points start from boundary 0"""
    f = ctx.method('scheduler::Scheduler<DB>', 'replay_uncommitted_suffix')
    bad = []
    rows = set()
    is_start = lambda t: t[0] == 'call' and callee_matches(t[1], 'CommittedPrefixEnd::index') and t[2] == (('arg', 2),)
    is_size = lambda t: is_field(strip(t), 'Scheduler.block_size')
    for p in feasible(f.paths()):
        ret = [e for e in p.events if e.kind == 'ret'][0].d['value']
        built = calls(p, 'executor::build_evm')
        rel = lambda pred: holds_rel(p, len(p.events), pred)
        mismatch = rel(lambda op, l, r: op == 'Gt' and is_start(l) and is_size(r)) or \
            rel(lambda op, l, r: op == 'Ne' and ((is_start(l) and has_call(r, '::len')) or (is_start(r) and has_call(l, '::len'))))
        done = rel(lambda op, l, r: op == 'Eq' and is_start(l) and is_size(r))
        if not built:
            if ret[0] == 'agg' and ret[2] == 'Ok':
                rows.add('nothing-left')
                if not done:
                    bad.append('returns Ok without replaying although the committed boundary was not found at the end of the block')
            elif ret[0] == 'agg' and ret[2] == 'Err':
                rows.add('refused')
                if not mismatch:
                    bad.append('refuses to replay although no mismatch between the committed boundary and the stored outcomes was observed')
        else:
            rows.add('replay')
            if mismatch or done:
                bad.append('replays although the prefix mismatches or nothing is left')
            ex = calls(p, 'execute_sequential_suffix')
            if not ex or not is_start(strip(ex[0].d['args'][1])):
                bad.append('the replay does not start at the committed boundary')
    ctx.ob('S7', f, 'replay-entry-table', rows == {'nothing-left', 'refused', 'replay'} and not bad, '; '.join(sorted(set(bad))) + f' rows={sorted(rows)}', site=f.loc(f.b['lo']),
           what='start == block_size ⇒ Ok with nothing to do; boundary past the block or outcomes != boundary ⇒ refuse; otherwise replay the suffix from the boundary')
    z = [b for b in ctx.facts.bodies if b['kind'] == 'const' and b['fn'].endswith('CommittedPrefixEnd::ZERO')]
    okz = False
    for b in z:
        for p in ctx.fn(b).paths():
            r = [e for e in p.events if e.kind == 'ret']
            if r and r[0].d['value'][0] == 'agg' and r[0].d['value'][3] == (('const', '0_usize'),):
                okz = True
    ctx.ob('S7', 'CommittedPrefixEnd::ZERO', 'zero-boundary-is-zero', okz, '', what='force_sequential / small blocks / fallback_sequential replay from CommittedPrefixEnd::ZERO; any other value skips the first transactions')

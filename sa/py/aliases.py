"""Canonical names.  A private function, field or type that was renamed or moved since the pinned commit
is recognised (unique match on signature / field types / body similarity against sa/specs/pinned_items.json)
and the fact file is rewritten to the pinned names before any rule looks at it, so rules anchored on a name
keep deciding the same code.  An ambiguous or unmatched disappearance is NOT aliased: the anchored rule then
fails closed with a lost anchor, naming the item."""
import json, os, re, collections

SPEC = os.path.join(os.path.dirname(os.path.dirname(os.path.abspath(__file__))), 'specs', 'pinned_items.json')
_CLOSURE = re.compile(r'(::\{closure#\d+\})+$')


def short_ty(t):
    """type string with module paths removed (robust to moving a type between modules)"""
    return re.sub(r'\b(?:[A-Za-z_][A-Za-z0-9_]*::)+(?=[A-Za-z_<{(\[])', '', t)


def is_test_name(n, file=''):
    return '::tests::' in n or n.startswith('tests::') or n.endswith('::tests') or n.startswith('test_utils::') or '::test_utils::' in n \
        or file.startswith('src/test_utils') or file.endswith('/tests.rs')


def norm_callee(c):
    import mirlib
    return mirlib.norm_callee(c)


def callee_counter(b, bodies=()):
    c = collections.Counter()
    for bb in [b] + [x for x in bodies if x['fn'].startswith(b['fn'] + '::{closure')]:
        for bl in bb['blocks']:
            t = bl['term']
            if not bl['cleanup'] and t['k'] == 'call':
                c[short_ty(norm_callee(t['callee']))] += 1
    return c


def similarity(a, b):
    if not a and not b:
        return 1.0
    inter = sum((a & b).values())
    union = sum((a | b).values())
    return inter / union if union else 0.0


def canonicalise(d):
    spec = json.load(open(SPEC))
    info = {'functions': {}, 'fields': {}, 'types': {}}
    # ---- renamed (or renamed-and-moved) private types: same field list / same variant list under a new name
    tren = {}
    cur_structs = d.get('structs', {})
    cur_short = collections.Counter(k.split('::')[-1] for k in cur_structs)
    pin_short = {k.split('::')[-1] for k in spec.get('structs', {})}
    for sp, pfields in spec.get('structs', {}).items():
        if sp in cur_structs or cur_short[sp.split('::')[-1]] >= 1 or not pfields:
            continue
        want = [(n, short_ty(t)) for n, t in pfields]
        cands = [k for k, v in cur_structs.items() if k not in spec['structs'] and k.split('::')[-1] not in pin_short
                 and [(f['name'], short_ty(f['ty'])) for f in v] == want]
        if len(cands) == 1:
            tren[cands[0]] = sp
    cur_enums = d.get('enums', {})
    cur_eshort = collections.Counter(k.split('::')[-1] for k in cur_enums)
    pin_eshort = {k.split('::')[-1] for k in spec.get('enums', {})}
    for ep, pvars in spec.get('enums', {}).items():
        if ep in cur_enums or cur_eshort[ep.split('::')[-1]] >= 1 or ep.startswith(('std::', 'core::', 'alloc::')):
            continue
        want = sorted(pvars.values()) if isinstance(pvars, dict) else sorted(n for _, n in pvars)
        cands = [k for k, v in cur_enums.items() if k not in spec['enums'] and k.split('::')[-1] not in pin_eshort
                 and sorted(n for _, n in v) == want]
        if len(cands) == 1:
            tren[cands[0]] = ep
    if tren:
        info['types'] = dict(tren)
        txt = json.dumps(d)
        for newp, oldp in sorted(tren.items(), key=lambda kv: -len(kv[0])):
            txt = re.sub(r'(?<!\w)(?<!::)' + re.escape(newp) + r'(?![\w])', oldp.replace('\\', '\\\\'), txt)
        d = json.loads(txt)
    bodies = d['bodies']
    prod = [b for b in bodies if b['kind'] in ('fn', 'assoc') and not is_test_name(b['fn'], b.get('file', ''))]
    cur = {b['fn']: b for b in prod}
    pinned = spec['functions']
    missing = [n for n in pinned if n not in cur]
    new = [n for n in cur if n not in pinned]
    if missing and new:
        cand = collections.defaultdict(list)
        for m in missing:
            pm = pinned[m]
            msig = [short_ty(x) for x in pm['sig']]
            mc = collections.Counter({short_ty(k): v for k, v in pm['callees']})
            for n in new:
                b = cur[n]
                if b['kind'] != pm['kind'] or short_ty(b['self_ty']) != short_ty(pm['self_ty']):
                    continue
                if [short_ty(l['ty']) for l in b['locals'][:b['argc'] + 1]] != msig:
                    continue
                same_name = n.split('::')[-1] == m.split('::')[-1]
                sim = similarity(mc, callee_counter(b, bodies))
                cand[m].append((same_name, sim, n))
        taken = {}
        for m, cs in cand.items():
            cs.sort(reverse=True)
            best = cs[0]
            # a move keeps the name; a rename must look like the same body and be the only such candidate
            # (a signature no other missing function shares and a single candidate: the body may have been rewritten more freely)
            sole = len(cs) == 1 and sum(1 for m2 in cand if any(c[2] == best[2] for c in cand[m2])) == 1
            ok = best[0] or (best[1] >= 0.6 and (len(cs) == 1 or cs[1][1] < best[1] - 0.2)) or (sole and best[1] >= 0.34)
            if ok and best[2] not in taken:
                taken[best[2]] = m
        # a new name claimed by two missing functions is ambiguous: drop it
        rev = collections.Counter(taken.values())
        ren = {n: m for n, m in taken.items() if rev[m] == 1}
        if ren:
            info['functions'] = dict(ren)
            rename_functions(d, ren)
    # ---- renamed struct fields
    fren = {}
    cur_structs = d.get('structs', {})
    by_short = collections.defaultdict(list)
    for k in cur_structs:
        by_short[k.split('::')[-1]].append(k)
    for sp, pfields in spec.get('structs', {}).items():
        ck = sp if sp in cur_structs else (by_short[sp.split('::')[-1]][0] if len(by_short[sp.split('::')[-1]]) == 1 else None)
        if ck is None:
            continue
        cfields = [(f['name'], f['ty']) for f in cur_structs[ck]]
        pn = [n for n, _ in pfields]
        cn = [n for n, _ in cfields]
        lost = [(i, n, short_ty(t)) for i, (n, t) in enumerate(pfields) if n not in cn]
        gained = [(i, n, short_ty(t)) for i, (n, t) in enumerate(cfields) if n not in pn]
        if not lost or not gained:
            continue
        pairs = {}
        if len(pfields) == len(cfields):
            # same arity: a rename keeps position and type
            for i, n, t in lost:
                g = [x for x in gained if x[0] == i and x[2] == t]
                if len(g) == 1:
                    pairs[g[0][1]] = n
        else:
            for i, n, t in lost:
                g = [x for x in gained if x[2] == t]
                l = [x for x in lost if x[2] == t]
                if len(g) == 1 and len(l) == 1:
                    pairs[g[0][1]] = n
        for g, l in pairs.items():
            fren[(ck, g)] = l
    if fren:
        info['fields'] = {f'{k[0]}.{k[1]}': f'{k[0]}.{v}' for k, v in fren.items()}
        rename_fields(d, fren)
    return d, info


def rename_fields(d, fren):
    proj_map = {f'{s}.{g}': f'{s}.{l}' for (s, g), l in fren.items()}
    by_struct = collections.defaultdict(dict)
    for (s, g), l in fren.items():
        by_struct[s][g] = l

    def walk(o):
        if isinstance(o, dict):
            pr = o.get('proj')
            if isinstance(pr, list):
                o['proj'] = [proj_map.get(x, x) if isinstance(x, str) else x for x in pr]
            if o.get('k') == 'agg' and o.get('adt') in by_struct and isinstance(o.get('fields'), list):
                m = by_struct[o['adt']]
                o['fields'] = [m.get(x, x) for x in o['fields']]
            for v in o.values():
                if isinstance(v, (dict, list)):
                    walk(v)
        elif isinstance(o, list):
            for v in o:
                if isinstance(v, (dict, list)):
                    walk(v)
    walk(d['bodies'])
    for s, m in by_struct.items():
        for f in d['structs'].get(s, []):
            if f['name'] in m:
                f['name'] = m[f['name']]
    # debug-info names of closure captures mention fields as `a.b`: left as they are (display only)


def rename_functions(d, ren):
    def fix(name):
        if name in ren:
            return ren[name]
        m = _CLOSURE.search(name)
        if m and name[:m.start()] in ren:
            return ren[name[:m.start()]] + name[m.start():]
        # closures nested in closures of a renamed fn
        for n, o in ren.items():
            if name.startswith(n + '::{closure') or name.startswith(n + '::promoted['):
                return o + name[len(n):]
        return name

    def fix_operand(o):
        if isinstance(o, dict):
            if o.get('k') == 'const' and 'fndef' in o:
                if o.get('v') in ren:
                    o['v'] = ren[o['v']]
            if o.get('k') == 'const' and 'promoted' in o:
                o['promoted'] = fix(o['promoted'])
            for v in o.values():
                fix_operand(v)
        elif isinstance(o, list):
            for v in o:
                fix_operand(v)
    for b in d['bodies']:
        b['fn'] = fix(b['fn'])
        if b.get('parent'):
            b['parent'] = fix(b['parent'])
        for l in b.get('locals', []):
            pass
        for bl in b['blocks']:
            for st in bl['stmts']:
                rv = st.get('rv', {})
                if rv.get('k') == 'agg' and str(rv.get('adt', '')).startswith('closure:'):
                    rv['adt'] = 'closure:' + fix(rv['adt'][8:])
                fix_operand(rv)
            t = bl['term']
            if t['k'] == 'call':
                t['callee'] = fix(t['callee'])
                fix_operand(t.get('args'))
        if 'promoted' in b['fn']:
            pass

#!/usr/bin/env python3
"""developer tool: write the prompt for an independent seeding sub-agent (it gets ONLY the property text and its own scratch
worktree, nothing from /verif).  usage: seed_prompt.py <property id> <tag> [mechanism already taken ...]
writes /tmp/seed/prompts/<tag>.txt; the worktree /tmp/seed/wt-<tag> and /tmp/seed/out-<tag> are created by the caller:
  git -C /repo worktree add --detach /tmp/seed/wt-<tag> HEAD && cp -r /repo/target /tmp/seed/wt-<tag>/target && mkdir -p /tmp/seed/out-<tag>
afterwards: verify_seed.sh <tag> <cargo test args>, seedtry.py <patch> <property>, keep_seed.py ..."""
import sys, os, json, glob

T = '''You are a careful Rust engineer helping evaluate how well a verification effort detects regressions. You work ONLY inside the scratch git worktree /tmp/seed/wt-{TAG} (a checkout of the Rust crate `grevm`, Galxe/grevm: a Block-STM-inspired optimistic parallel EVM executor over revm; a pre-built `target/` directory is already there — the machine is shared, be patient with builds). Never touch /repo or /verif, never read anything under /verif, never use `git stash` (the stash is shared between worktrees), and never use the network (there is none; always pass --offline to cargo).

Here is one semantic property of grevm that is supposed to hold (JSON record):

{PROP}

YOUR TASK: produce ONE realistic change to the grevm source (under src/, non-test code) that BREAKS this property, while
  (a) the crate still compiles (`cargo build --offline`),
  (b) the existing test suite still passes unedited: `cargo test --offline --workspace --no-fail-fast` (95 tests pass),
  (c) it looks like something a maintainer could plausibly write or merge (an optimisation, a tidy-up, a "simplification", a refactor that subtly changes an order/condition/memory ordering/scope/value) — not sabotage,
  (d) it needs something SPECIFIC to manifest: a particular thread interleaving, a fault or panic at a particular point, a multi-step sequence of operations, an unusual input, or two cooperating sites that each look fine alone. Ordinary use must not expose it at once.

The following mechanisms have ALREADY been used by earlier contributors for this property — do NOT deliver these or close variants; find a DIFFERENT mechanism and preferably a different function:
{TAKEN}
Read the code the property is anchored in first (README.md, docs/, src/lib.rs, then the anchor files) and understand WHY the property holds before choosing what to break. Think about: memory orderings that are actually needed, which lock is held when a cursor is moved or a flag is read, the order of two publications, what happens on the abort/panic/error paths, hand-off of tasks between workers, initial values and boundary indices (first / last transaction of the block), the execution frontier and validation limit, what a helper returns versus what its caller assumes, a value captured before instead of after a lock is taken.

DELIVERABLES — write these three files into /tmp/seed/out-{TAG}/ :
  1. patch.diff  — the breaking change only (`git diff` inside the worktree, touching only non-test source), must apply with `git apply` on a clean checkout.
  2. demo.diff   — a demonstration ONLY (a new #[test] in an existing `#[cfg(test)] mod tests` of the crate — it may use deterministic scheduling tricks: barriers, holding a lock or DashMap shard from the test thread, a custom DatabaseRef that blocks/fails/panics at a chosen key, calling internal functions directly in a chosen order, etc.). It must apply with `git apply` on a clean checkout independently of patch.diff and ALSO on top of patch.diff, must FAIL (assertion, panic, or a hang detected by a watchdog timeout) with patch.diff applied and PASS without it, deterministically (run it at least 3 times each way). Keep the demo selectable by ONE `cargo test --offline --lib <filter>` command.
  3. NOTES.md    — the mechanism you broke and why the property no longer holds, what exactly is needed for it to manifest, the exact demo command, and the results you observed for: demo with patch, demo without patch, full suite with patch.

Before finishing, verify (a), (b) and the demo both ways yourself from a clean checkout state (`git checkout -- . && git clean -fdq -e target`, then apply the diffs). Leave the worktree clean when done. Your final message: the mechanism in two sentences, the demo command, and the observed results.
'''


def main():
    pid, tag = sys.argv[1], sys.argv[2]
    props = {}
    for l in open('/verif/properties.jsonl'):
        d = json.loads(l)
        props[d['id']] = d
    taken = [os.path.basename(d)[len(pid) + 1:].replace('-', ' ') for d in sorted(glob.glob(f'/verif/seeded/{pid}-*'))] + sys.argv[3:]
    os.makedirs('/tmp/seed/prompts', exist_ok=True)
    t = T.replace('{TAG}', tag).replace('{PROP}', json.dumps(props[pid], indent=1)).replace('{TAKEN}', ''.join(f'  - {x}\n' for x in taken) + '\n')
    open(f'/tmp/seed/prompts/{tag}.txt', 'w').write(t)
    print(tag, len(taken), 'mechanisms listed as taken')


if __name__ == '__main__':
    main()

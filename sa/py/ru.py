"""rule utilities: event matchers and the order / presence templates (E3) over path sets."""
import re
from mirlib import *


def feasible(paths):
    """paths that end in a normal return (panic/unreachable/cut paths are not returns)"""
    return [p for p in paths if p.end == 'return']


def live(paths):
    """paths that are feasible executions up to where they end (return, stop)"""
    return [p for p in paths if p.end in ('return', 'stop')]


def is_call(e, pat):
    return e.kind == 'call' and callee_matches(e.d['callee'], pat)


def calls(p, pat):
    return [e for e in p.events if is_call(e, pat)]


def idx_of(p, e):
    for i, x in enumerate(p.events):
        if x is e:
            return i
    return -1


def term_calls(t, pat):
    """call sub-terms of t whose callee matches pat"""
    return [c for c in calls_in(t) if callee_matches(c[1], pat)]


def has_call(t, pat):
    return bool(term_calls(t, pat))


def is_field(t, fieldname):
    """t is a read of field `Type.field` (last projection)"""
    return t[0] == 'field' and t[2].endswith(fieldname)


def mentions_field(t, fieldname):
    return any(s[0] == 'field' and s[2].endswith(fieldname) for s in subterms(t))


def strip(t):
    return strip_uids(t)


def is_add1(t, base=None):
    """t == base + 1 (plain Add, or the .0 of AddWithOverflow)"""
    if t[0] == 'field' and t[2].startswith('tuple.0') and t[1][0] == 'bin' and t[1][1] in ('AddWithOverflow', 'Add'):
        b = t[1]
    elif t[0] == 'bin' and t[1] in ('Add', 'AddWithOverflow', 'AddUnchecked'):
        b = t
    else:
        return False
    l, r = b[2], b[3]
    one = lambda x: x[0] == 'const' and re.match(r'^1(_usize|_u64)?$', x[1])
    if one(r):
        return base is None or strip(l) == strip(base)
    if one(l):
        return base is None or strip(r) == strip(base)
    return False


def assigns(p, field_suffix):
    """assign events writing a place whose last projection is `field_suffix`"""
    out = []
    for e in p.events:
        if e.kind == 'assign' and e.d['place'][0] == 'field' and e.d['place'][2].endswith(field_suffix):
            out.append(e)
    return out


def variant_of(t):
    """variant name when t is an enum value built/known on the path"""
    if t[0] == 'agg' and t[2]:
        return t[2]
    if t[0] == 'const' and '::' in t[1]:
        return t[1].split('::')[-1]
    return None


def atoms(p, pred):
    return [e for e in p.events if e.kind == 'atom' and pred(e)]


def atom_is(e, shape):
    """shape: ('call', callee_pat) | ('bin', op, lpred, rpred) | ('discr', pred)"""
    t = e.d['term']
    if shape[0] == 'call':
        return t[0] == 'call' and callee_matches(t[1], shape[1])
    if shape[0] == 'bin':
        return t[0] == 'bin' and t[1] in shape[1] and shape[2](t[2]) and shape[3](t[3])
    if shape[0] == 'discr':
        return t[0] == 'discr' and shape[1](t[1])
    return False


CMP_FLIP = {'Lt': 'Gt', 'Gt': 'Lt', 'Le': 'Ge', 'Ge': 'Le', 'Eq': 'Eq', 'Ne': 'Ne'}
CMP_NEG = {'Lt': 'Ge', 'Gt': 'Le', 'Le': 'Gt', 'Ge': 'Lt', 'Eq': 'Ne', 'Ne': 'Eq'}


def norm_cmp(e):
    """normalise a comparison atom to (op, l, r) with the outcome folded in (i.e. the relation that
    HOLDS on this path), or None.  The boolean may be tested directly, negated, or through
    `cond.then_some(..)` being matched."""
    bf = bool_fact(e) if e.kind == 'atom' else None
    if not bf:
        return None
    t, holds = bf
    if t[0] == 'bin' and t[1] in CMP_NEG:
        op = t[1] if holds else CMP_NEG[t[1]]
        return (op, strip(t[2]), strip(t[3]))
    if t[0] == 'call' and len(t[2]) == 2:
        c = t[1]
        m = None
        if 'cmp' in c or 'PartialEq' in c or 'PartialOrd' in c:
            for nm, op in (('::ne', 'Ne'), ('::eq', 'Eq'), ('::lt', 'Lt'), ('::le', 'Le'), ('::gt', 'Gt'), ('::ge', 'Ge')):
                if c.endswith(nm):
                    m = op
        if m:
            if not holds:
                m = CMP_NEG[m]
            return (m, strip(t[2][0]), strip(t[2][1]))
    return None


def holds_rel(p, upto, pred):
    """is there an atom before event index `upto` whose normalised relation satisfies pred(op,l,r)
    (also tried with sides flipped)"""
    for e in p.events[:upto]:
        if e.kind != 'atom':
            continue
        n = norm_cmp(e)
        if not n:
            continue
        if pred(*n) or pred(CMP_FLIP[n[0]], n[2], n[1]):
            return True
    return False


def status_facts(p, upto, place_pred):
    """what the path knows about an enum-valued place before index upto:
    returns (eq_set or None, ne_set)"""
    eq, ne = None, set()
    for e in p.events[:upto]:
        if e.kind == 'assign' and place_pred(e.d['place']):
            v = variant_of(e.d['value'])
            eq, ne = ({v} if v else None), set()
            continue
        if e.kind != 'atom':
            continue
        t = e.d['term']
        if t[0] == 'discr' and place_pred(t[1]):
            o = e.d['outcome']
            if o.startswith('!'):
                ne |= set(o[1:].split('|'))
            else:
                eq = {o}
            continue
        n = norm_cmp(e)
        if n:
            op, l, r = n
            for a, b in ((l, r), (r, l)):
                if place_pred(a) and variant_of(b):
                    if op == 'Eq':
                        eq = {variant_of(b)}
                    elif op == 'Ne':
                        ne.add(variant_of(b))
    return eq, ne


def option_fact(a):
    """(subject term, 'Some'|'None'|'Ok'|'Err') when atom `a` decides the variant of an Option/Result,
    whichever way the source spelled it (match / if let / is_some / is_none / `?` / is_ok / is_err)"""
    if a.kind != 'atom':
        return None
    k, m = option_decision(a.d['term'])
    if k is None or k[0] != 'od':
        return None
    v = m.get(a.d['outcome'], a.d['outcome'])
    if v in ('Some', 'None', 'Ok', 'Err'):
        return (k[1], v)
    return None


def bool_fact(a):
    """(boolean subject term with negations peeled, truth value) when atom `a` decides a boolean,
    including through `b.then_some(x)` / `b.then(f)` being tested for Some/None"""
    if a.kind != 'atom':
        return None
    t, o = a.d['term'], a.d['outcome']
    import mirlib as _m
    k, m = _m._option_decision(t)
    if k is not None:
        v = m.get(o, o)
        sub = k[1]
        if v in ('Some', 'None') and sub[0] == 'call' and len(sub[2]) == 2 and _m.is_bool_then(sub[1]):
            b, val = sub[2][0], v == 'Some'
            while b[0] == 'un' and b[1] == 'Not':
                b, val = b[2], not val
            return (b, val)
        return None
    if o not in ('true', 'false'):
        return None
    val = o == 'true'
    while t[0] == 'un' and t[1] == 'Not':
        t, val = t[2], not val
    return (t, val)


def fold_bool(t):
    """a boolean term with negations of constants folded: Not(true) -> false"""
    neg = False
    while t[0] == 'un' and t[1] == 'Not':
        t, neg = t[2], not neg
    if t[0] == 'const' and t[1] in ('true', 'false'):
        return ('const', 'true' if (t[1] == 'true') != neg else 'false')
    return ('un', 'Not', t) if neg else t


def path_truth(p, t):
    """the truth value of boolean term t on path p: a constant, or a term the path decided (tested, possibly negated,
    before it was returned: `let ok = a > b; if ok {..}; ok`); None when the path says nothing about it"""
    t = fold_bool(t)
    if t[0] == 'const' and t[1] in ('true', 'false'):
        return t[1] == 'true'
    neg = False
    while t[0] == 'un' and t[1] == 'Not':
        t, neg = t[2], not neg
    want = strip(t)
    for a in p.events:
        if a.kind != 'atom':
            continue
        bf = bool_fact(a)
        if bf and strip(bf[0]) == want:
            return bf[1] != neg
        n1 = norm_cmp(a)
        if n1 and want[0] == 'bin' and want[1] in CMP_NEG:
            # the same comparison decided in another spelling
            l, r = strip(want[2]), strip(want[3])
            for op, x, y in ((n1[0], n1[1], n1[2]), (CMP_FLIP[n1[0]], n1[2], n1[1])):
                if x == l and y == r:
                    if op == want[1]:
                        return not neg
                    if op == CMP_NEG[want[1]]:
                        return neg
    return None


def through_new_helper(facts, t):
    """a value that is the result of a straight-line helper which did not exist at the pinned commit (a small constructor handed to
    a combinator as a function item is called, not inlined): the helper's own return value with the arguments substituted"""
    import mirlib
    if t[0] == 'call' and facts.is_new_fn(t[1]) and t[1] in facts.by:
        cf = facts.fn(facts.by[t[1]])
        ps = [q for q in cf.paths() if q.end == 'return']
        if len(ps) == 1 and not [e for e in ps[0].events if e.kind == 'atom']:
            rv = [e for e in ps[0].events if e.kind == 'ret'][0].d['value']
            amap = {i + 1: a for i, a in enumerate(t[2])}
            return mirlib.subst_term(rv, amap, 0)
    return t


def opt_truth(t):
    """(option subject, 'Some'|'None') such that boolean term t is true exactly when the subject is that variant
    (x.is_some(), x.is_none(), and their negations); None otherwise"""
    neg = False
    while t[0] == 'un' and t[1] == 'Not':
        t, neg = t[2], not neg
    if t[0] == 'call' and len(t[2]) == 1:
        nm = norm_callee(t[1])
        v = 'Some' if nm.endswith('Option::is_some') else 'None' if nm.endswith('Option::is_none') else None
        if v:
            if neg:
                v = 'None' if v == 'Some' else 'Some'
            return (t[2][0], v)
    return None


def body_writes_field(b, suffix):
    """does body b contain a store to a place whose last projection is the field `suffix`"""
    for bl in b['blocks']:
        if bl['cleanup']:
            continue
        for st in bl['stmts']:
            pr = st.get('lhs', {}).get('proj') or []
            if pr and isinstance(pr[-1], str) and pr[-1].endswith(suffix):
                return True
    return False


def estimate_mark_calls(facts, p):
    """call events on path p that mark multi-version entries as estimates: the pinned `Scheduler::mark_mv_estimate`, or a
    function that did not exist at the pinned commit (a helper, a private trait method) whose inlined body sets
    `MemoryEntry.estimate = true`"""
    out = []
    for i, e in enumerate(p.events):
        if e.kind != 'call':
            continue
        if callee_matches(e.d['callee'], 'Scheduler::<DB>::mark_mv_estimate') or norm_callee(e.d['callee']).endswith('Scheduler::mark_mv_estimate'):
            out.append(e)
        elif facts.is_new_fn(e.d['callee']) and body_writes_field(facts.by[e.d['callee']], 'MemoryEntry.estimate'):
            out.append(e)
    return out


def site(fn, e):
    return f"{fn.b['file']}:{e.line if hasattr(e, 'line') else e}"


def describe(p, last=12):
    ev = [repr(e) for e in p.events if e.kind in ('atom', 'call')]
    return ' ; '.join(ev[-last:])


class MayCalls:
    """transitive callee sets through functions of crate grevm (bounded only by the call graph)"""

    def __init__(self, facts):
        self.facts = facts
        self.memo = {}

    def of(self, callee):
        if callee not in self.memo:
            if callee in self.facts.by:
                self.memo[callee] = self.facts.reach(callee)
            else:
                self.memo[callee] = set()
        return self.memo[callee]

    def may(self, e, pat):
        """does call event e (or anything it may transitively call inside grevm) match pat"""
        if e.kind != 'call':
            return False
        if callee_matches(e.d['callee'], pat):
            return True
        tgt = [e.d['callee']]
        # closures passed as arguments may be called by the callee
        for a in e.d['args']:
            for s in subterms(a):
                if s[0] == 'closure':
                    tgt.append(s[1])
        for t in tgt:
            if t in self.facts.by and callee_matches(t, pat):
                return True
            for c in self.of(t):
                if callee_matches(c, pat):
                    return True
        return False

"""Accessor / pass-through pairing rules: small functions whose whole job is to touch ONE field with
ONE operation or to forward exactly their arguments.  A copy-paste slip here (publish_commit writing
the finality cursor, unconfirmed_timestamp reading lower_timestamps, record_execution forwarding
the wrong account) compiles, passes the unit tests and silently breaks the protocol."""
from ru import *


def arg_ok(t, m):
    """m: '$N' | 'f:<field suffix>' (term is/reads that field) | 'idx:<field suffix>:$N' (index(field,$N))
    | 'c:<callee suffix>' (term is a call to it) | 'const:<v>' | '*'"""
    if m == '*':
        return True
    t = strip(t)
    if m.startswith('$'):
        return t == ('arg', int(m[1:]))
    if m.startswith('f:'):
        return t[0] == 'field' and t[2].endswith(m[2:])
    if m.startswith('mf:'):
        return mentions_field(t, m[3:])
    if m.startswith('idx:'):
        _, fld, a = m.split(':')
        return t[0] == 'call' and t[1].endswith('::index') and mentions_field(t[2][0], fld) and t[2][1] == ('arg', int(a[1:]))
    if m.startswith('c:'):
        return t[0] == 'call' and callee_matches(t[1], m[2:])
    if m.startswith('const:'):
        return t == ('const', m[6:])
    return False


# (type substring, method, [(callee pattern, [arg matchers])...], return matcher or None)
TABLE = [
    ('SchedulerContext', 'unconfirmed', [('::fetch_max', ['idx:unconfirmed_timestamps:$2', '$3'])], None),
    ('SchedulerContext', 'unconfirmed_timestamp', [('::load', ['idx:unconfirmed_timestamps:$2'])], 'c:::load'),
    ('SchedulerContext', 'lower_timestamp', [('::load', ['idx:lower_timestamps:$2'])], 'c:::load'),
    ('SchedulerContext', 'finality_idx', [('PublishedCursor::get', ['f:SchedulerContext.finality'])], 'c:PublishedCursor::get'),
    ('SchedulerContext', 'committed_idx', [('PublishedCursor::get', ['f:SchedulerContext.committed'])], 'c:PublishedCursor::get'),
    ('SchedulerContext', 'publish_finality', [('PublishedCursor::publish', ['f:SchedulerContext.finality', '$2'])], None),
    ('SchedulerContext', 'publish_commit', [('PublishedCursor::publish', ['f:SchedulerContext.committed', '$2'])], None),
    ('SchedulerContext', 'commit_cursor', [('PublishedCursor::reader', ['f:SchedulerContext.committed'])], 'c:PublishedCursor::reader'),
    ('SchedulerContext', 'validation_idx', [('RewindableCursor::get', ['f:SchedulerContext.validation'])], 'c:RewindableCursor::get'),
    ('SchedulerContext', 'executed', [('ExecutionFrontier::publish', ['f:SchedulerContext.execution_frontier', '$2'])], None),
    ('SchedulerContext', 'finished', [], None),
    ('SchedulerContext', 'logical_timestamp', [('::fetch_add', ['f:SchedulerContext.logical_clock', 'const:1_usize'])], 'c:::fetch_add'),
    ('scheduler::cursor::PublishedCursor', 'publish', [('::store', ['f:PublishedCursor.0', '$2'])], None),
    ('scheduler::cursor::RewindableCursor', 'rewind', [('::fetch_min', ['f:RewindableCursor.0', '$2'])], 'c:::fetch_min'),
    ('scheduler::cursor::RewindableCursor', 'claim_before', [('cursor::claim_before', ['f:RewindableCursor.0', '$2'])], 'c:cursor::claim_before'),
    ('scheduler::cursor::RewindableCursor', 'get', [('::load', ['f:RewindableCursor.0'])], 'c:::load'),
    ('tx_dependency::TxDependency', 'index', [('::load', ['f:TxDependency.index'])], 'c:::load'),
    ('beneficiary::Beneficiary', 'resolve_before', [('BeneficiaryHistory::resolve_before', ['f:Beneficiary.history', '$2'])], 'c:BeneficiaryHistory::resolve_before'),
    ('beneficiary::Beneficiary', 'record_estimate', [('BeneficiaryHistory::record_estimate', ['f:Beneficiary.history', '$2'])], 'c:BeneficiaryHistory::record_estimate'),
    ('beneficiary::Beneficiary', 'invalidate', [('BeneficiaryHistory::invalidate', ['f:Beneficiary.history', '$2'])], 'c:BeneficiaryHistory::invalidate'),
    ('beneficiary::Beneficiary', 'validate', [('BeneficiaryHistory::validate', ['f:Beneficiary.history', '$2', '$3'])], 'c:BeneficiaryHistory::validate'),
    ('beneficiary::history::BeneficiaryHistory', 'record_estimate', [('HistoryEntry::record_estimate', ['c:BeneficiaryHistory::entry', 'f:TxVersion.incarnation'])], 'c:HistoryEntry::record_estimate'),
    ('beneficiary::history::BeneficiaryHistory', 'invalidate', [('HistoryEntry::invalidate', ['c:BeneficiaryHistory::entry', 'f:TxVersion.incarnation'])], 'c:HistoryEntry::invalidate'),
    ('beneficiary::history::BeneficiaryHistory', 'record_effect', [('HistoryEntry::record_exact', ['c:BeneficiaryHistory::entry', 'f:TxVersion.incarnation', '$3'])], 'c:HistoryEntry::record_exact'),
    ('beneficiary::history::BeneficiaryHistory', 'record_execution', [('BeneficiaryEffect::from_execution', ['$3', '$4']), ('BeneficiaryHistory::record_effect', ['$1', '$2', 'c:BeneficiaryEffect::from_execution'])], 'c:BeneficiaryHistory::record_effect'),
    ('beneficiary::history::BeneficiaryHistory', 'resolve_before', [('BeneficiaryHistory::scan_before', ['$1', '$2'])], None),
    ('beneficiary::history::HistoryEntry', 'record_exact', [('HistoryEntry::record', ['$1', '$2', '*'])], 'c:HistoryEntry::record'),
    ('beneficiary::history::HistoryEntry', 'record_estimate', [('HistoryEntry::record', ['$1', '$2', '*'])], 'c:HistoryEntry::record'),
    ('incarnation_db::IncarnationAccesses', 'is_blocked', [('::is_empty', ['f:IncarnationAccesses.blocking_txs'])], None),
]


def P_pairing(ctx):
    n_ok = 0
    for ty, meth, reqs, retm in TABLE:
        rid = 'PAIR'
        try:
            f = ctx.method(ty, meth)
        except AnchorLost as e:
            ctx.ob(rid, f'{ty}::{meth}', 'anchor', False, str(e))
            continue
        bad = []
        ps = feasible(f.paths())
        for p in ps:
            for pat, ams in reqs:
                cs = [e for e in p.events if e.kind == 'call' and callee_matches(e.d['callee'], pat)]
                hit = [e for e in cs if len(e.d['args']) >= len(ams) and all(arg_ok(a, m) for a, m in zip(e.d['args'], ams))]
                if not hit:
                    bad.append(f'no call `{pat}` with arguments {ams} (found {[ [show(a)[:40] for a in e.d["args"]] for e in cs][:2]})')
                # and no other write-ish call of the same kind to a different target
                if len(cs) > len(hit) and pat.startswith('::'):
                    bad.append(f'another `{pat}` with different arguments')
            if retm:
                ret = [e for e in p.events if e.kind == 'ret'][0].d['value']
                if not arg_ok(ret, retm):
                    bad.append(f'returns {show(ret)[:60]} (expected {retm})')
        if meth == 'is_blocked':
            # returns !is_empty(blocking_txs)
            for p in ps:
                ret = [e for e in p.events if e.kind == 'ret'][0].d['value']
                if not (ret[0] == 'un' and ret[1] == 'Not' and mentions_field(ret, 'IncarnationAccesses.blocking_txs')):
                    bad.append('is_blocked is not !blocking_txs.is_empty()')
        if meth == 'finished':
            for p in ps:
                ret = [e for e in p.events if e.kind == 'ret'][0].d['value']
                fin = lambda t: (t[0] == 'call' and ((callee_matches(t[1], 'PublishedCursor::get') and mentions_field(t[2][0], 'SchedulerContext.finality'))
                                                     or callee_matches(t[1], 'SchedulerContext::finality_idx')))
                num = lambda t: is_field(strip(t), 'SchedulerContext.num_txs')
                okf = ret[0] == 'bin' and ((ret[1] == 'Ge' and fin(ret[2]) and num(ret[3])) or (ret[1] == 'Le' and num(ret[2]) and fin(ret[3])))
                if not okf:
                    bad.append('finished is not (finality cursor) >= num_txs')
        if not bad:
            n_ok += 1
        ctx.ob(rid, f, 'touches-exactly-its-field', bool(ps) and not bad, '; '.join(sorted(set(bad))[:2]), site=f.loc(f.b['lo']),
               what='this accessor must read/write exactly its own field with its own argument; callers (and the rules over them) rely on the name')
    ctx.count('PAIR.accessors', n_ok)


def X_incarnation_lifecycle(ctx):
    ex = [b for b in ctx.facts.production() if b['fn'].endswith('>::execute_incarnation') and 'GrevmExecutor' in b['fn']]
    if len(ex) != 1:
        raise AnchorLost('GrevmExecutor::execute_incarnation')
    f = ctx.fn(ex[0])
    bad = []
    rows = set()
    for p in feasible(f.paths()):
        bi = [e for e in p.events if e.kind == 'call' and norm_callee(e.d['callee']).endswith('IncarnationDb::begin_incarnation')]
        run = calls(p, 'GrevmHandler::run')
        fin = [e for e in p.events if e.kind == 'call' and norm_callee(e.d['callee']).endswith('IncarnationDb::finish_incarnation')]
        dis = [e for e in p.events if e.kind == 'call' and norm_callee(e.d['callee']).endswith('IncarnationDb::discard_incarnation')]
        st = [e for e in p.events if e.kind == 'call' and e.d['callee'].endswith('::set_tx')]
        if len(bi) != 1 or not run or idx_of(p, bi[0]) > idx_of(p, run[0]) or bi[0].d['args'][1] != ('arg', 2):
            bad.append('begin_incarnation(version) must precede the run, with this task\'s version')
            continue
        if not st or st[0].d['args'][1] != ('arg', 3):
            bad.append('set_tx(tx) missing')
        fz = [e for e in p.events if e.kind == 'call' and e.d['callee'].endswith('::finalize')]
        if not fz or idx_of(p, fz[0]) < idx_of(p, run[0]):
            bad.append('finalize() is not called after the run on every path (a failed run must also be finalized: revm keeps loaded accounts and slots cached in the journal until finalize, and a cached read never reaches IncarnationDb)')
        # Ok/Err of the handler run (decided on the run's result itself or on a value derived from it)
        dec = [of for of in (option_fact(a) for a in p.events) if of and of[1] in ('Ok', 'Err') and mentions(of[0], run[0].d['result'])]
        if dec and dec[-1][1] == 'Ok':
            rows.add('ok')
            if len(fin) != 1 or dis or not has_call(fin[0].d['args'][1], 'SpeculativeResult::state'):
                bad.append('Ok result must finish_incarnation(result.state())')
        elif dec:
            rows.add('err')
            if len(dis) != 1 or fin:
                bad.append('Err result must discard_incarnation()')
        ret = [e for e in p.events if e.kind == 'ret'][0].d['value']
        if ret[0] == 'agg':
            fl = dict(zip(ret[4].split(','), ret[3]))
            if not ((fin and fl['accesses'] == fin[0].d['result']) or (dis and fl['accesses'] == dis[0].d['result'])):
                bad.append('returned accesses are not those of this incarnation')
    ctx.ob('X6', f, 'incarnation-lifecycle', rows == {'ok', 'err'} and not bad, '; '.join(sorted(set(bad))[:3]), site=f.loc(f.b['lo']),
           what='begin_incarnation(version) → set_tx → run → finalize; Ok ⇒ finish_incarnation(result.state()) publishes the writes of THIS result; Err ⇒ discard (nothing published); the accesses returned are those collected by this incarnation')
    b = ctx.method("incarnation_db::IncarnationDb<'a, DB>", 'begin_incarnation')
    okv = False
    for p in feasible(b.paths()):
        w = [e for e in p.events if e.kind == 'assign' and e.d['place'][0] == 'field' and e.d['place'][2].endswith('IncarnationDb.version')]
        cl = [e for e in p.events if e.kind == 'call' and e.d['callee'].endswith('::clear') and mentions_field(e.d['args'][0], 'IncarnationDb.read_set')]
        bl = [e for e in p.events if e.kind == 'call' and e.d['callee'].endswith('::clear') and mentions_field(e.d['args'][0], 'IncarnationDb.blocking_txs')]
        if w and w[0].d['value'] == ('arg', 2):
            okv = True
    ctx.ob('X6', b, 'begin-sets-version-and-clears-scratch', okv, '', site=b.loc(b.b['lo']),
           what='reads resolve `..version.txid` and publish under version')
    fi = ctx.method("incarnation_db::IncarnationDb<'a, DB>", 'finish_incarnation')
    di = ctx.method("incarnation_db::IncarnationDb<'a, DB>", 'discard_incarnation')

    def resets(fn, field):
        """every returning path of fn leaves the scratch field empty: clear(), mem::take, or a fresh value stored"""
        ps = [p for p in feasible(fn.paths()) if p.end == 'return']
        if not ps:
            return False
        for p in ps:
            hit = False
            for e in p.events:
                if e.kind == 'call' and (e.d['callee'].endswith('::clear') or 'mem::take' in e.d['callee'] or 'mem::replace' in e.d['callee']) and e.d['args'] \
                        and mentions_field(e.d['args'][0], 'IncarnationDb.' + field):
                    hit = True
                if e.kind == 'assign' and e.d['place'][0] == 'field' and e.d['place'][2].endswith('IncarnationDb.' + field) and \
                        (e.d['value'] == ('const', 'false') or (e.d['value'][0] == 'call' and (e.d['value'][1].endswith('::new') or e.d['value'][1].endswith('::default')) and not e.d['value'][2])):
                    hit = True
            if not hit:
                return False
        return True
    leaks = []
    for field in ('read_set', 'account_snapshots', 'blocking_txs', 'blocked_by_beneficiary'):
        if not (resets(b, field) or (resets(fi, field) and resets(di, field))):
            leaks.append(field)
    ctx.ob('X6', b, 'scratch-reset-between-incarnations', not leaks, 'not reset: ' + ', '.join(leaks) if leaks else '', site=b.loc(b.b['lo']),
           what='each per-incarnation scratch field (read set, account snapshots, blockers, beneficiary-blocked flag) is emptied between two incarnations: by begin_incarnation, or by both finish_incarnation and discard_incarnation; a stale snapshot would suppress the publication of a changed account, stale reads/blockers would be validated or waited for')
    okf = False
    for p in feasible(fi.paths()):
        ret = [e for e in p.events if e.kind == 'ret'][0].d['value']
        if ret[0] == 'agg':
            fl = dict(zip(ret[4].split(','), ret[3]))
            okf = has_call(fl['read_set'], 'mem::take') and mentions_field(fl['read_set'], 'IncarnationDb.read_set') and has_call(fl['write_set'], 'publish_writes') \
                and has_call(fl['blocking_txs'], 'mem::take') and mentions_field(fl['blocking_txs'], 'IncarnationDb.blocking_txs')
    ctx.ob('X6', fi, 'finish-returns-own-read-write-and-blocker-sets', okf, '', site=fi.loc(fi.b['lo']))
    okd = False
    for p in feasible(di.paths()):
        ret = [e for e in p.events if e.kind == 'ret'][0].d['value']
        pw = calls(p, 'publish_writes')
        if ret[0] == 'agg' and not pw:
            fl = dict(zip(ret[4].split(','), ret[3]))
            okd = has_call(fl['blocking_txs'], 'mem::take') and mentions_field(fl['blocking_txs'], 'IncarnationDb.blocking_txs') and has_call(fl['write_set'], '::new')
    ctx.ob('X6', di, 'discard-publishes-nothing-and-keeps-blockers', okd, '', site=di.loc(di.b['lo']),
           what='a failed attempt publishes no writes but must report the blockers it met (they decide where it parks)')
    # Beneficiary::record_execution forwards (version, deferred reward, own account in the result state)
    br = ctx.method('beneficiary::Beneficiary', 'record_execution')
    okb = False
    for p in feasible(br.paths()):
        c = calls(p, 'BeneficiaryHistory::record_execution')
        if c:
            a = c[0].d['args']
            okb = a[1] == ('arg', 2) and has_call(a[2], 'SpeculativeResult::deferred_reward') and a[3][0] == 'call' and a[3][1].endswith('::get') \
                and has_call(a[3][2][0], 'SpeculativeResult::state') and is_field(strip(a[3][2][1]), 'Beneficiary.address')
    ctx.ob('X6', br, 'record-execution-forwards-own-effect', okb, '', site=br.loc(br.b['lo']),
           what='the history entry is derived from this result\'s deferred reward and the BENEFICIARY\'s account in this result\'s state')
    bm = ctx.method('beneficiary::Beneficiary', 'matches')
    okm = False
    for p in feasible(bm.paths()):
        ret = [e for e in p.events if e.kind == 'ret'][0].d['value']
        s = show(ret)
        okm = 'Beneficiary.address' in show(ret) or ('address' in s and '$2' in s)
    ctx.ob('X6', bm, 'matches-compares-own-address', okm, '', site=bm.loc(bm.b['lo']))
    # handler output: deferred reward comes from the same handler that ran
    gr = ctx.method("delegated_safety::handler::GrevmHandler<'a>", 'run')
    badg = []
    n = 0
    for p in feasible(gr.paths()):
        ret = [e for e in p.events if e.kind == 'ret'][0].d['value']
        if not (ret[0] == 'agg' and ret[2] == 'Ok'):
            continue
        n += 1
        out = ret[3][0]
        fl = dict(zip(out[4].split(','), out[3])) if out[0] == 'agg' else {}
        hr = [e for e in p.events if e.kind == 'call' and norm_callee(e.d['callee']).endswith('Handler::run')]
        cg = [e for e in p.events if e.kind == 'call' and norm_callee(e.d['callee']).endswith('Cell::get') and mentions_field(e.d['args'][0], 'deferred_reward')]
        if not (hr and cg and mentions(fl.get('result', ('unk', '')), hr[0].d['result']) and fl.get('deferred_reward') == cg[0].d['result']
                and strip(cg[0].d['args'][0][1]) == strip(hr[0].d['args'][0])):
            badg.append(p)
        mode = [a for a in p.events if a.kind == 'atom' and a.d['term'][0] == 'discr' and mentions_field(a.d['term'][1], 'GrevmHandler.reserve_mode')]
    ctx.ob('X6', gr, 'handler-output-pairs-result-with-its-deferred-reward', n >= 2 and not badg, f'{len(badg)} deviating path(s)', site=gr.loc(gr.b['lo']),
           what='the reward left for ordered commit must be the one deferred by the handler instance that produced this result')
    isp = ctx.method('delegated_safety::handler::GrevmHandlerOutput', 'into_speculative')
    rows = set()
    for p in feasible(isp.paths()):
        d = [a for a in p.events if a.kind == 'atom' and a.d['term'][0] == 'discr' and mentions_field(a.d['term'][1], 'GrevmHandlerOutput.deferred_reward')]
        ret = [e for e in p.events if e.kind == 'ret'][0].d['value']
        if d:
            rows.add((d[0].d['outcome'], short(ret[1]) if ret[0] == 'call' else '?'))
    ctx.ob('X6', isp, 'some-reward-deferred-none-settled', rows == {('Some', 'SpeculativeResult::deferred'), ('None', 'SpeculativeResult::settled')}, f'{sorted(rows)}', site=isp.loc(isp.b['lo']))


def T4_cache_load_classification(ctx):
    """db_basic / load_mut_cache_account / insert_account classify a loaded account as revm does"""
    for m in ('db_basic', 'load_mut_cache_account'):
        f = ctx.method('parallel_state::ParallelStateView', m)
        rows = set()
        bad = []
        for p in feasible(f.paths()):
            nw = calls(p, 'CacheAccountInfo::new')
            if not nw:
                continue
            a = nw[0].d['args']
            st = variant_of(a[1])
            info = [x for x in p.events if x.kind == 'atom' and x.d['term'][0] == 'discr' and x.d['outcome'] in ('Some', 'None') and has_call(x.d['term'][1], 'with_metrics')]
            emp = [x for x in p.events if x.kind == 'atom' and x.d['term'][0] == 'call' and x.d['term'][1].endswith('AccountInfo::is_empty')]
            key = (info[0].d['outcome'] if info else None, emp[0].d['outcome'] if emp else None)
            rows.add((key, st, variant_of(a[0])))
            # inserted only when vacant
            ve = [e for e in p.events if e.kind == 'call' and e.d['callee'].endswith('VacantEntry::<\'a, K, V>::insert') or (e.kind == 'call' and norm_callee(e.d['callee']).endswith('VacantEntry::insert'))]
            occ = [x for x in p.events if x.kind == 'atom' and x.d['term'][0] == 'discr' and has_call(x.d['term'][1], 'DashMap::entry') and x.d['outcome'] == 'Occupied']
            if occ and ve:
                bad.append('overwrites an occupied cache entry')
        exp = {(('None', None), 'LoadedNotExisting', 'None'), (('Some', 'true'), 'LoadedEmptyEIP161', 'Some'), (('Some', 'false'), 'Loaded', 'Some')}
        ctx.ob('T4', f, 'loaded-account-classification', rows == exp and not bad, f'{sorted(map(str, rows))} {bad[:1]}', site=f.loc(f.b['lo']),
               what='absent ⇒ LoadedNotExisting(None); empty ⇒ LoadedEmptyEIP161(default info); else Loaded(info) — revm State\'s classification, which the status machine builds on')
    isk = ctx.method('parallel_state::ParallelStateView', 'db_storage')
    okc = False
    for c in ctx.facts.closures_under(isk.name):
        if True:
            cf = ctx.fn(c)
            rets = set()
            for p in feasible(cf.paths()):
                sk = [a for a in p.events if a.kind == 'atom' and a.d['term'][0] == 'call' and a.d['term'][1].endswith('AccountStatus::is_storage_known')]
                ret = [e for e in p.events if e.kind == 'ret'][0].d['value']
                if sk:
                    rets.add((sk[0].d['outcome'], show(ret)[:40]))
            if ('true', 'true') in rets and any(o == 'false' and 'is_none' in r for o, r in rets):
                okc = True
    ctx.ob('T4', isk, 'storage-known-predicate', okc, '', site=isk.loc(isk.b['lo']),
           what='storage is known (zero without consulting the database) ⇔ status.is_storage_known() ∨ account is None')


def ret_of(p):
    return [e for e in p.events if e.kind == 'ret'][0].d['value']


def P2_more_pairing(ctx):
    """second table: constructors / initial values / forwarders that protocol rules assume"""
    def ob(f, inst, ok, detail='', what=''):
        ctx.ob('PAIR', f, inst, ok, detail, site=f.loc(f.b['lo']) if hasattr(f, 'loc') else '', what=what)
    # history validation
    f = ctx.method('beneficiary::history::BeneficiaryHistory', 'validate')
    rows = set()
    for p in feasible(f.paths()):
        r = through_new_helper(ctx.facts, ret_of(p))
        d = [a for a in p.events if a.kind == 'atom' and a.d['term'][0] == 'discr' and has_call(a.d['term'][1], 'BeneficiaryHistory::scan_before')]
        if d and d[0].d['outcome'] == 'Ok':
            rows.add(('Ok', r[0] == 'call' and r[1].endswith('HistoryScan::validate') and r[2][1] == ('arg', 3)))
        elif d:
            ok = r[0] == 'agg' and r[3][0] == ('const', 'false') and variant_of(r[3][1]) == 'Some'
            rows.add(('Err', ok))
        sb = calls(p, 'BeneficiaryHistory::scan_before')
        if not sb or sb[0].d['args'][1] != ('arg', 2):
            rows.add(('scan', False))
    ob(f, 'history-validate-table', rows == {('Ok', True), ('Err', True)}, f'{sorted(rows)}',
       'an estimate among the predecessors makes the read invalid (dependency = that writer); otherwise the whole origin chain is compared')
    g = ctx.method('beneficiary::history::HistoryScan', 'validate')
    ok = False
    for p in feasible(g.paths()):
        r = ret_of(p)
        if r[0] == 'agg' and r[1].endswith('BeneficiaryValidation'):
            v = r[3][0]
            ok = v[0] == 'call' and v[1].endswith('::eq') and is_field(strip(v[2][0]), 'HistoryScan.version') and strip(v[2][1]) == ('arg', 2) and has_call(r[3][1], 'BeneficiaryReadVersion::latest_dependency')
    ob(g, 'valid-iff-origin-chain-equal', ok, '', 'validation compares the complete chain of contributing versions, not only the newest writer')
    hn = ctx.method('beneficiary::history::HistoryEntry', 'estimate')
    ok = False
    for p in feasible(hn.paths()):
        r = ret_of(p)
        ok = 'EntryValue::Estimate' in show(r) and '0_usize' in show(r)
    ob(hn, 'entries-start-as-incarnation-zero-estimates', ok, '', 'every transaction may produce a reward, so an unexecuted predecessor must block a beneficiary read')
    # ReserveMode::from_planner
    f = ctx.method('delegated_safety::handler::ReserveMode', 'from_planner')
    rows = set()
    for p in feasible(f.paths()):
        r = ret_of(p)
        d = [a for a in p.events if a.kind == 'atom' and a.d['term'][0] == 'discr' and strip(a.d['term'][1]) == ('arg', 2)]
        if d:
            rows.add((d[0].d['outcome'], variant_of(r), r[3][0] == ('arg', 1) if r[3] else None))
    ob(f, 'reserve-mode-from-planner', rows == {('None', 'NoReserve', None), ('Some', 'WithReserve', True)}, f'{sorted(map(str, rows))}',
       'the planner is queried with the txid handed in')
    # ordered commit output
    f = ctx.method('scheduler::ordered_commit::OrderedCommitOutput', 'push')
    ok = False
    for p in feasible(f.paths()):
        pu = [e for e in p.events if e.kind == 'call' and norm_callee(e.d['callee']).endswith('Vec::push') and mentions_field(e.d['args'][0], 'OrderedCommitOutput.outcomes')]
        r = ret_of(p)
        # the returned boundary is the outcome count after the push: `self.end()` or its body `CommittedPrefixEnd::new(self.outcomes.len())`
        end_ok = r[0] == 'call' and (r[1].endswith('OrderedCommitOutput::end') or
                                     (r[1].endswith('CommittedPrefixEnd::new') and r[2][0][0] == 'call' and r[2][0][1].endswith('::len') and mentions_field(r[2][0], 'OrderedCommitOutput.outcomes')))
        if r[0] == 'agg' and r[1].endswith('CommittedPrefixEnd') and r[3] and r[3][0][0] == 'call' and r[3][0][1].endswith('::len') and mentions_field(r[3][0], 'OrderedCommitOutput.outcomes'):
            end_ok = True
        if end_ok and pu:
            # ... and it is computed after the push
            lens = [e for e in p.events if e.kind == 'call' and (e.d['callee'].endswith('::len') or e.d['callee'].endswith('OrderedCommitOutput::end'))]
            end_ok = bool(lens) and idx_of(p, lens[-1]) > idx_of(p, pu[0])
        ok = len(pu) == 1 and pu[0].d['args'][1][0] == 'agg' and pu[0].d['args'][1][2] == 'Executed' and pu[0].d['args'][1][3] == (('arg', 2),) and end_ok
    ob(f, 'push-appends-executed-and-returns-end', ok, '', 'the committed boundary is the number of outcomes pushed')
    f = ctx.method('scheduler::ordered_commit::OrderedCommitOutput', 'end')
    ok = False
    for p in feasible(f.paths()):
        r = ret_of(p)
        ok = r[0] == 'call' and r[1].endswith('CommittedPrefixEnd::new') and r[2][0][0] == 'call' and r[2][0][1].endswith('::len') and mentions_field(r[2][0], 'OrderedCommitOutput.outcomes')
    ob(f, 'end-is-outcome-count', ok)
    f = ctx.method('scheduler::ordered_commit::CommittedPrefixEnd', 'index')
    ok = any(is_field(strip(ret_of(p)), 'CommittedPrefixEnd.0') for p in feasible(f.paths()))
    ob(f, 'index-is-the-wrapped-value', ok)
    f = ctx.method('scheduler::ordered_commit::CommittedPrefixEnd', 'new')
    ok = any(ret_of(p)[0] == 'agg' and ret_of(p)[3] == (('arg', 1),) for p in feasible(f.paths()))
    ob(f, 'new-wraps-its-argument', ok)
    # initial values
    f = ctx.method('scheduler::context::SchedulerContext', 'new')
    ok = False
    for p in feasible(f.paths()):
        r = ret_of(p)
        if r[0] == 'agg':
            fl = dict(zip(r[4].split(','), r[3]))
            ok = fl['logical_clock'][2] == (('const', '1_usize'),) and fl['validation'][2] == (('const', '0_usize'),) and fl['finality'][2] == (('const', '0_usize'),) \
                and fl['committed'][2] == (('const', '0_usize'),) and fl['num_txs'] == ('arg', 1)
    ob(f, 'initial-cursors-zero-clock-one', ok, '', 'timestamps are compared strictly with lower bounds that start at 0: the clock must start above 0 or the first validation can never finalise')
    # the per-transaction timestamp vectors are built from zero: a closure returning AtomicUsize::new(0), or `Default::default`
    # (zero for the atomic integers) handed to / called by the element constructor
    cls = [c for c in ctx.facts.closures_under(f.name) if any('Atomic' in show(ret_of(p)) or show(ret_of(p)).lower().endswith('default()') for p in feasible(ctx.fn(c).paths()))]
    okz = all(all('0_usize' in show(ret_of(p)) or 'default' in show(ret_of(p)).lower() for p in feasible(ctx.fn(c).paths())) for c in cls)
    dflt = any(any(bl['term']['k'] == 'call' and any(a.get('k') == 'const' and str(a.get('fndef', '')).endswith('Default>::default') or str(a.get('fndef', '')).endswith('Default::default') for a in bl['term']['args'])
                   for bl in b_['blocks']) for b_ in [f.b] + ctx.facts.code_under(f.name))
    nonzero = any(re.search(r'Atomic[A-Za-z]*::new\((?!0_usize)', show(ret_of(p))) for c in cls for p in feasible(ctx.fn(c).paths()))
    ob(f, 'timestamps-start-at-zero', okz and not nonzero and (len(cls) >= 1 or dflt), f'{len(cls)} element constructor closure(s) under SchedulerContext::new, Default::default as element constructor={dflt}')
    f = ctx.method('tx_dependency::TxDependency', 'new')
    ok = False
    for p in feasible(f.paths()):
        r = ret_of(p)
        if r[0] == 'agg':
            fl = dict(zip(r[4].split(','), r[3]))
            ok = fl['index'][2] == (('const', '0_usize'),) and fl['num_txs'] == ('arg', 1)
    ob(f, 'cursor-starts-at-zero', ok)
    ds = [b for b in ctx.facts.production() if 'DependentState' in b['fn'] and b['fn'].endswith('::default')]
    ok = False
    for b in ds:
        for p in feasible(ctx.fn(b).paths()):
            r = ret_of(p)
            ok = r[0] == 'agg' and r[3][0] == ('const', 'true') and variant_of(r[3][1]) == 'None'
    ctx.ob('PAIR', 'tx_dependency::DependentState::default', 'initially-claimable', ok, '', what='every transaction starts onboard and unblocked')
    # fallback_after_parallel_error forwards the boundary
    f = ctx.method('scheduler::Scheduler<DB>', 'fallback_after_parallel_error')
    ok = False
    for p in feasible(f.paths()):
        r = ret_of(p)
        ok = r[0] == 'call' and norm_callee(r[1]).endswith('::replay_uncommitted_suffix') and r[2] == (('arg', 1), ('arg', 2))
    ob(f, 'replays-from-the-given-boundary', ok)
    # SpeculativeResult accessors
    for m, fld in (('state', 'ResultAndState.state'), ('deferred_reward', 'SpeculativeResult.deferred_reward')):
        f = ctx.method('beneficiary::SpeculativeResult', m)
        ok = any(is_field(strip(ret_of(p)), fld) for p in feasible(f.paths()))
        ob(f, 'accessor', ok)
    f = ctx.method('beneficiary::SpeculativeResult', 'into_commit_parts')
    ok = False
    for p in feasible(f.paths()):
        r = ret_of(p)
        ok = r[0] == 'agg' and r[1] == 'tuple' and is_field(strip(r[3][0]), 'SpeculativeResult.result_and_state') and is_field(strip(r[3][1]), 'SpeculativeResult.deferred_reward')
    ob(f, 'commit-parts', ok)
    f = ctx.method('beneficiary::SpeculativeResult', 'deferred')
    ok = any(ret_of(p)[0] == 'agg' and ret_of(p)[3][0] == ('arg', 1) and variant_of(ret_of(p)[3][1]) == 'Some' and ret_of(p)[3][1][3] == (('arg', 2),) for p in feasible(f.paths()))
    ob(f, 'deferred-wraps-reward', ok)
    f = ctx.method('beneficiary::SpeculativeResult', 'settled')
    ok = any(ret_of(p)[0] == 'agg' and ret_of(p)[3][0] == ('arg', 1) and variant_of(ret_of(p)[3][1]) == 'None' for p in feasible(f.paths()))
    ob(f, 'settled-has-no-reward', ok)
    # NoReserveHandler hook
    nr = [b for b in ctx.facts.production() if 'NoReserveHandler' in b['fn'] and b['fn'].endswith('>::reward_beneficiary')]
    ok = False
    for b in nr:
        for p in feasible(ctx.fn(b).paths()):
            c = calls(p, 'BeneficiaryMode::apply')
            ok = bool(c) and is_field(strip(c[0].d['args'][0]), 'NoReserveHandler.beneficiary_mode') and c[0].d['args'][1:3] == (('arg', 2), ('arg', 3)) and is_field(strip(c[0].d['args'][3]), 'NoReserveHandler.deferred_reward')
    ctx.ob('PAIR', 'NoReserveHandler::reward_beneficiary', 'hook-applies-the-beneficiary-mode', ok, '', what='without the reserve policy the only deviation from revm is the beneficiary policy')
    # IncarnationDb passthroughs
    for m, callee in (('code_by_hash', 'DatabaseRef::code_by_hash_ref'), ('block_hash', 'DatabaseRef::block_hash_ref')):
        hits = [b for b in ctx.facts.production() if b['fn'].endswith('::' + m) and 'incarnation_db::IncarnationDb' in b['fn']]
        ok = False
        for b in hits:
            for p in feasible(ctx.fn(b).paths()):
                r = ret_of(p)
                ok = r[0] == 'call' and r[1].endswith(callee) and is_field(strip(r[2][0]), 'IncarnationDb.backing_db') and r[2][1] == ('arg', 2)
        ctx.ob('PAIR', f'IncarnationDb::{m}', 'forwards-to-backing-db', ok)
    # WaitSlot::register_current_thread stores the current thread
    f = ctx.method('scheduler::wait::WaitSlot', 'register_current_thread')
    ok = False
    for p in feasible(f.paths()):
        s = [e for e in p.events if e.kind == 'call' and norm_callee(e.d['callee']).endswith('OnceLock::set') and mentions_field(e.d['args'][0], 'WaitSlot.thread') and has_call(e.d['args'][1], 'thread::current')]
        ok = ok or bool(s)
    ob(f, 'registers-the-current-thread', ok, '', 'notify() unparks the registered thread; registering anything else loses every notification')
    # TxState default
    ts = [b for b in ctx.facts.production() if b['fn'].endswith('::default') and 'TxState' in b['fn']]
    ok = False
    for b in ts:
        for p in feasible(ctx.fn(b).paths()):
            ok = ok or 'Default' in show(ret_of(p)) or 'Initial' in show(ret_of(p))
    tsd = [b for b in ctx.facts.production() if b['fn'].endswith('::default') and 'TransactionStatus' in b['fn']]
    ok2 = any(variant_of(ret_of(p)) == 'Initial' for b in tsd for p in feasible(ctx.fn(b).paths()))
    ctx.ob('PAIR', 'model::TransactionStatus::default', 'initial-status', ok2, '', what='execution_task claims Initial|Conflict only')


def T5_balance_and_merge(ctx):
    f = ctx.method('parallel_state::ParallelStateView', 'increment_balance_transitions')
    bad = []
    n = 0
    for p in feasible(f.paths()):
        z = [a for a in p.events if a.kind == 'atom' and norm_cmp(a) and norm_cmp(a)[2] == ('const', '0_u128')]
        ib = calls(p, 'CacheAccountInfo::increment_balance')
        if ib and not (z and norm_cmp(z[0])[0] == 'Ne'):
            bad.append('zero increment not skipped before the account is loaded')
        if ib:
            n += 1
            la = calls(p, 'ParallelStateView::load_mut_cache_account')
            pu = [e for e in p.events if e.kind == 'call' and norm_callee(e.d['callee']).endswith('Vec::push')]
            if not (la and mentions(ib[0].d['args'][0], la[0].d['result']) and pu and mentions(pu[0].d['args'][1], ib[0].d['result'])):
                bad.append('transition of the loaded account not collected')
    ctx.ob('T5', f, 'increment-balances-table', n >= 1 and not bad, '; '.join(sorted(set(bad))), site=f.loc(f.b['lo']),
           what='non-zero increments load the account (cache-filling), apply increment_balance and collect its transition; zero increments make no transition (revm State::increment_balances)')
    g = ctx.method('parallel_state::ParallelState<DB>', 'increment_balances')
    ok = False
    for p in feasible(g.paths()):
        t = [e for e in p.events if e.kind == 'call' and norm_callee(e.d['callee']).endswith('::increment_balance_transitions')]
        a = [e for e in p.events if e.kind == 'call' and norm_callee(e.d['callee']).endswith('::apply_transition')]
        if t and a and mentions(a[0].d['args'][1], t[0].d['result']):
            ok = True
    ctx.ob('T5', g, 'transitions-applied', ok, '', site=g.loc(g.b['lo']))
    h = ctx.method('parallel_state::ParallelState<DB>', 'merge_transitions')
    ok = False
    for p in feasible(h.paths()):
        ap = [e for e in p.events if e.kind == 'call' and e.d['callee'].endswith('BundleState::apply_transitions_and_create_reverts')]
        if ap and mentions_field(ap[0].d['args'][0], 'ParallelState.bundle_state') and ap[0].d['args'][2] == ('arg', 2) and 'TransitionState::take' in show(ap[0].d['args'][1]) + ' '.join(show(e.d['args'][1]) if len(e.d['args']) > 1 else '' for e in p.events if e.kind == 'call'):
            ok = True
    ctx.ob('T5', h, 'merge-drains-transitions-into-the-bundle', ok, '', site=h.loc(h.b['lo']),
           what='merge_transitions takes the pending transitions and applies them to the bundle with the caller\'s retention (revm State::merge_transitions)')
    d = ctx.method('parallel_state::ParallelState<DB>', 'drain_balances')
    ok = False
    for p in live(d.paths()):
        db_ = calls(p, 'CacheAccountInfo::drain_balance')
        ad = [e for e in p.events if e.kind == 'call' and e.d['callee'].endswith('TransitionState::add_transitions')]
        if db_ and (ad or True):
            ok = True
    ctx.ob('T5', d, 'drain-uses-the-status-machine', ok, '', site=d.loc(d.b['lo']))
    ia = ctx.method('parallel_state::ParallelCacheState', 'insert_account')
    rows = set()
    for p in feasible(ia.paths()):
        e_ = [a for a in p.events if a.kind == 'atom' and (a.d['term'][0] == 'call' and a.d['term'][1].endswith('AccountInfo::is_empty') or (a.d['term'][0] == 'un' and a.d['term'][2][0] == 'call' and a.d['term'][2][1].endswith('AccountInfo::is_empty')))]
        nw = calls(p, 'CacheAccountInfo::new')
        if e_ and nw:
            t = e_[0].d['term']
            empty = (e_[0].d['outcome'] == 'true') != (t[0] == 'un')
            rows.add((empty, variant_of(nw[0].d['args'][1])))
    ctx.ob('T5', ia, 'inserted-account-classification', rows == {(True, 'LoadedEmptyEIP161'), (False, 'Loaded')}, f'{sorted(rows)}', site=ia.loc(ia.b['lo']))

"""property -> rules registry"""
import rules_sched as S
import rules_dep as D
import rules_ctx as K
import rules_db as B
import rules_commit as M

TB = ['rustc (nightly) MIR construction and type checking of the current /repo tree', 'Rust/C11 memory model and std/parking_lot/dashmap semantics',
      'the hand argument of DESIGN.md section 2 linking the structural obligations to the behaviour']
AS = ['user-supplied databases and precompiles do not call back into the scheduler', 'analysis covers the library target with default features']

NOT_APPLICABLE = {}

PROPS = {
    'C03': dict(claim="Decides the structural mechanism that makes skips follow in-order validation: workers run with the nonce check disabled while the committer and the sequential path use the configured flag (S1), the commit-time nonce table (S2: disabled/DB error/MAX-MAX/Greater/Less/Equal/absent account), NeedsSequentialFallback ⇒ abort(FallbackSequential) without publishing (S3), the error-arm table of execute_task (S4: park behind blocker or own commit boundary, abort only at the commit head, Transaction ⇒ fallback), the sequential suffix table (S5: Ok/Skipped(same error)/fatal, commit only on Ok), nonce-overflow classification (S6), post_execute mapping (E2) and the dependency-table obligations that re-offer a parked transaction (V1/V2). That a transaction is skipped iff revm rejects it against the in-order state for all blocks is NOT claimed.",
                level='other', rules=[M.S1_nonce_flags, M.S2_N11_commit, S.N10_commit_loop, M.S4_E1_error_arm, M.S5_sequential_suffix, M.S6_nonce_overflow, M.E2_post_execute, D.V1_tables, D.V2_claimable_implies_rewind], skip_rules=['E1'],
                explanation='decision tables of the commit-time nonce check, error parking, sequential replay and abort mapping, decided on every MIR path; the iff with revm validation against in-order state is not claimed',
                trusted_base=TB, assumptions=AS),
    'C04': dict(claim="Decides: no fatal verdict from unvalidated speculation (E1: the commit-head test that justifies abort(FatalEvmError) must be evaluated before the attempt), post_execute mapping (E2), first-abort-reason-wins and reason-before-cancel (E3), prefix retention on every exit of the commit loop / install / replay (E4, N12), error txid provenance (E5 inside S2/S5/E2), commit() table (S2/N11), error-arm table (S4), the adapter that enforces recorded precompile faults (P3). Equality of the reported error with the in-order error for all fault sequences is NOT claimed.",
                level='other', rules=[M.S4_E1_error_arm, M.E2_post_execute, K.W_producers, S.N10_commit_loop, S.N12_install, M.S5_sequential_suffix, M.S2_N11_commit],
                explanation='error-path structure decided on every MIR path: where fatal verdicts may be raised, how abort reasons map to returned errors, and that every exit keeps the committed prefix',
                trusted_base=TB, assumptions=AS),
    'C01': dict(claim="Decides the structural necessary conditions of the read/validate/rewind mechanism on every MIR path: reads resolve to the latest strictly-preceding writer (R3), every lookup enters the read set with the version of the very entry used (R1/R4), the validation decision table (V1), the three MV-memory mutators and what they write (W1), publication table of writes (D2), storage resolution table (D3), plus the shared scheduler obligations N1-N9, X1-X5 and orderings A1-A5. Equality of outcomes/bundles with in-order revm for all blocks and schedules is NOT claimed.",
                level='other', rules=[B.R3_latest_preceding_writer, B.R1_R4_reads, B.V1_validate_table, B.W1_mv_mutators, B.D2_publish_writes, B.D3_storage_table,
                                      S.N1_timestamp_before_scan, S.N2_mark_before_rewind, S.N3_publish_before_rewind, S.N6_finality, S.N7_rewind_under_guard,
                                      S.N8_status_relation, S.N9_incarnation, S.X_execute_task_tail, S.X_result_storage, K.A_atomics],
                explanation='structural necessary conditions of read resolution, read-set recording, validation, publication and rewinds, decided on every MIR path of the anchored functions; outcome equality is not claimed',
                trusted_base=TB, assumptions=AS),
    'C14': dict(claim='Complete for this property: O1 (every public path to results/state mutation or thread spawning passes through the closure given to run_once), O2 (closure runs exactly on the success edge of one strong compare_exchange(false,true); losing edge returns the once-error before touching anything), O3 (no other access to `started`, initially false), O4 (take_result_and_state consumes self), O5 (results initially empty) are all decided mechanically; under Rust aliasing rules and RMW atomicity they imply at-most-once execution for every interleaving of entry-point calls.',
                level='proof', rules=[K.O_run_once],
                explanation='O1-O5 jointly imply the statement under the trusted base (Rust aliasing, RMW atomicity); each is decided on the MIR of the current tree',
                trusted_base=TB, assumptions=AS),
    'C15': dict(claim='Decides the cursor mechanics per site: claim_before table (U1), rewind effects (U2), frontier publish/advance/limit tables (U3), RMW kinds (A6: fetch_min rewind, CAS claim, fetch_max timestamps/frontier), minimum orderings of the logical clock and published cursors (A1-A5), and the obligations that make a validation older than a covering rewind ineligible for finality (N1, N6, N7). The weak-memory interleaving behaviour as a whole is NOT claimed.',
                level='other', rules=[K.A_atomics, K.U1_claim_before, K.U2_rewind, K.U3_frontier, S.N1_timestamp_before_scan, S.N6_finality, S.N7_rewind_under_guard],
                explanation='cursor/frontier decision tables, RMW kinds and the minimum-ordering table, decided per site; weak-memory behaviour as a whole is not claimed',
                trusted_base=TB, assumptions=AS),
    'C17': dict(claim='Decides park/unpark discipline (W1: park only straight from a true predicate, only wait_while parks, only notify unparks, registration before waiting on the own slot), publish-before-notify at every producer (W2), notify coverage (W3: validate notifies unless txid != finality_idx() was read after publication; every finality publication is announced before the finality thread can block; cancel sets the flag then wakes both) and abort-reason-before-cancel (E3/L5). The token/happens-before argument of std::thread::park is trusted, not decided.',
                level='other', rules=[K.W_wait, K.W_producers],
                explanation='park/unpark discipline, publish-before-notify and notify coverage decided on every MIR path; std park-token semantics trusted',
                trusted_base=TB, assumptions=AS),
    'C16': dict(claim='Decides the dependency-table decision tables (next/remove/commit/key_tx/add: V1), that every hold of DS[x] that leaves x claimable rewinds the execution cursor not before the lock (V2), publish_commit before tx_dependency.commit and the live cursor read inside DS[txid] (V3), lock order AF before DS (V4), that claimed indices reach execution_task (X5) and duplicate claims do not release dependants (N9). All interleavings as a whole are NOT claimed.',
                level='other', rules=[D.V1_tables, D.V2_claimable_implies_rewind, D.V4_lock_order, S.N10_commit_loop, S.N9_incarnation, S.X_result_storage, S.X5_claims_are_consumed],
                explanation='decision tables and cursor-rewind obligations of the dependency table, decided on every MIR path; the interleaving behaviour as a whole is not claimed',
                trusted_base=TB, assumptions=AS),
    'C02': dict(claim="Decides, on every MIR path of the anchored functions, the structural necessary conditions of the in-order/exactly-once/final commit mechanism: tick-before-scan (N1), marks-before-rewind (N2), publication-before-rewind (N3), new-location/conflict rewinds (N4/N5), finality decision table incl. carried lower timestamp (N6), rewinds under the issuer's TS guard (N7), status transition relation (N8), incarnation bump (N9), commit-loop take/publish/release order and exits (N10/V3/L3/E4/S3), outcome installation (N12), result storage and re-onboarding (X1-X5), minimum memory orderings A1-A5 and RMW kinds A6. That the committed value equals the in-order value for all blocks and schedules is NOT claimed.",
                level='other', rules=[S.N1_timestamp_before_scan, S.N2_mark_before_rewind, S.N3_publish_before_rewind, S.N6_finality,
                                      S.N7_rewind_under_guard, S.N8_status_relation, S.N9_incarnation, S.N10_commit_loop, S.N12_install,
                                      S.X_execute_task_tail, S.X_result_storage, K.A_atomics, M.S2_N11_commit, M.B4_reward_fold],
                explanation='structural necessary conditions of the commit/finality mechanism, decided on every MIR path of the anchored functions; the behavioural statement as a whole is not claimed',
                trusted_base=TB, assumptions=AS),
}

"""property -> rules registry"""
import rules_sched as S

TB = ['rustc (nightly) MIR construction and type checking of the current /repo tree', 'Rust/C11 memory model and std/parking_lot/dashmap semantics',
      'the hand argument of DESIGN.md section 2 linking the structural obligations to the behaviour']
AS = ['user-supplied databases and precompiles do not call back into the scheduler', 'analysis covers the library target with default features']

PROPS = {
    'C02': dict(level='other', rules=[S.N1_timestamp_before_scan, S.N2_mark_before_rewind, S.N3_publish_before_rewind, S.N6_finality,
                                      S.N7_rewind_under_guard, S.N8_status_relation, S.N9_incarnation, S.N10_commit_loop, S.N12_install,
                                      S.X_execute_task_tail, S.X_result_storage],
                explanation='structural necessary conditions of the commit/finality mechanism, decided on every MIR path of the anchored functions; the behavioural statement as a whole is not claimed',
                trusted_base=TB, assumptions=AS),
}

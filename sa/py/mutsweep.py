#!/usr/bin/env python3
"""Mutation sweep (development tool, not a registered check): mechanical one-line mutants of the
production source, each type-checked and analysed by ALL rules on a scratch copy.  Output (JSONL):
which obligations report each mutant.  Mutants nobody reports are the candidates for blind spots and
are triaged by hand (many are behaviour-preserving); a second phase (`--tests`) runs the pinned unit
tests on the unreported ones to keep only those the existing suite also misses.

  mutsweep.py gen  [files...]                 -> .cache/mutsweep/mutants.jsonl
  mutsweep.py run  [-j N] [--limit K]         -> .cache/mutsweep/results.jsonl   (static phase)
  mutsweep.py tests [-j N]                    -> .cache/mutsweep/tests.jsonl     (unreported & compiling only)
  mutsweep.py report
Nothing here runs as part of ./check; scratch copies live under $TMPDIR and are removed."""
import sys, os, re, json, shutil, subprocess, tempfile, time, hashlib
sys.path.insert(0, os.path.dirname(os.path.abspath(__file__)))
import core, mirlib, props, selftest

OUT = os.path.join(core.CACHE, 'mutsweep')
FILES = ['src/scheduler.rs', 'src/scheduler/context.rs', 'src/scheduler/control.rs', 'src/scheduler/cursor.rs', 'src/scheduler/wait.rs',
         'src/scheduler/executor.rs', 'src/scheduler/fallback.rs', 'src/scheduler/ordered_commit.rs', 'src/tx_dependency.rs', 'src/incarnation_db.rs',
         'src/parallel_state.rs', 'src/bundle.rs', 'src/account.rs', 'src/model.rs', 'src/beneficiary.rs', 'src/beneficiary/history.rs',
         'src/beneficiary/reward.rs', 'src/delegated_safety/config.rs', 'src/delegated_safety/handler.rs', 'src/delegated_safety/reserve.rs',
         'src/delegated_safety/instructions.rs', 'src/delegated_safety/mod.rs', 'src/precompile.rs', 'src/config.rs', 'src/outcome.rs']

SWAPS = [
    (r'(?<![<>=!\-])<=(?!=)', '<'), (r'(?<![<>=!\-])>=(?!=)', '>'),
    (r'(?<![<>=!\-:])\s<\s(?![=<])', ' <= '), (r'(?<![<>=!\-])\s>\s(?![=>])', ' >= '),
    (r'==', '!='), (r'!=', '=='), (r'&&', '||'), (r'\|\|', '&&'),
    (r'\btrue\b', 'false'), (r'\bfalse\b', 'true'),
    (r'\s\+ 1\b', ''), (r'\s- 1\b', ''),
    (r'Ordering::(Acquire|Release|AcqRel|SeqCst)', 'Ordering::Relaxed'),
    (r'\.next_back\(\)', '.next()'), (r'\.\.=', '..'),
    (r'\bmax\(', 'min('), (r'\bmin\(', 'max('), (r'\.fetch_min\(', '.fetch_max('), (r'\.fetch_max\(', '.fetch_min('),
    (r'\.is_some\(\)', '.is_none()'), (r'\.is_none\(\)', '.is_some()'), (r'\.is_ok\(\)', '.is_err()'), (r'\.is_empty\(\)', '.len() == 1'),
    (r'\bif !', 'if '), (r'\bwhile !', 'while '),
    (r'\.saturating_add\(', '.wrapping_add('), (r'\.checked_add\(', '.checked_sub('),
    (r'\btxid \+ 1\b', 'txid'), (r'\.min\(', '.max('), (r'\.max\(', '.min('), (r'(?<=[\s(,])0(?=[,;)\s])', '1'), (r'(?<=[\s(,])1(?=[,;)\s])', '0'),
    (r'\.rev\(\)', ''), (r'\.take\(\)', '.clone()'), (r'\bU256::ZERO\b', 'U256::MAX'), (r'\bSome\(([a-z_]+)\)(?=[,;)\s])', 'None'),
]


def production_lines(path):
    src = open(path).read().split('\n')
    end = len(src)
    for i, l in enumerate(src):
        if l.strip() == '#[cfg(test)]' and i + 1 < len(src) and src[i + 1].lstrip().startswith('mod ') and src[i + 1].rstrip().endswith('{'):
            end = i
            break
    return src, end


def gen(files):
    os.makedirs(OUT, exist_ok=True)
    n = 0
    with open(os.path.join(OUT, 'mutants.jsonl'), 'w') as out:
        for rel in files:
            p = os.path.join(core.REPO, rel)
            if not os.path.exists(p):
                continue
            src, end = production_lines(p)
            for i in range(end):
                l = src[i]
                s = l.strip()
                if not s or s.startswith('//') or s.startswith('#[') or s.startswith('use ') or 'debug_assert' in s or 'tracing::' in s or 'metrics' in s or \
                        s.startswith('assert') or 'histogram!' in s or 'counter!' in s or 'trace!' in s or 'debug!' in s or 'panic!' in s or 'expect(' in s:
                    continue
                code = l.split('//')[0]
                seen = set()
                for pat, rep in SWAPS:
                    for m in re.finditer(pat, code):
                        new = code[:m.start()] + m.expand(rep) if '\\' in rep else code[:m.start()] + rep
                        new = new + code[m.end():]
                        if new == code or new in seen:
                            continue
                        seen.add(new)
                        out.write(json.dumps(dict(id=f'{rel}:{i+1}:{len(seen)}', file=rel, line=i + 1, op=f'{pat} -> {rep}', old=l, new=new)) + '\n')
                        n += 1
                # statement deletion: a single-line expression statement that is a call
                if re.match(r'^\s*[a-z_][\w\.\[\]]*(\.|::)[\w:]+\(.*\);\s*$', code) and not code.strip().startswith(('let ', 'return')):
                    out.write(json.dumps(dict(id=f'{rel}:{i+1}:del', file=rel, line=i + 1, op='delete statement', old=l, new='')) + '\n')
                    n += 1
                if re.match(r'^\s*return\b.*;\s*$', code) and i > 0 and '{' in src[i - 1] and 'if' in src[i - 1]:
                    pass
                if re.match(r'^\s*[a-z_][\w\.\[\]]*\s*(\+|-|\|)?=\s*[^=].*;\s*$', code) and not code.strip().startswith('let '):
                    out.write(json.dumps(dict(id=f'{rel}:{i+1}:del', file=rel, line=i + 1, op='delete assignment', old=l, new='')) + '\n')
                    n += 1
                if re.match(r'^\s*drop\(.*\);\s*$', code):
                    out.write(json.dumps(dict(id=f'{rel}:{i+1}:del', file=rel, line=i + 1, op='delete drop', old=l, new='')) + '\n')
                    n += 1
                if re.match(r'^\s*(continue|break);\s*$', code):
                    out.write(json.dumps(dict(id=f'{rel}:{i+1}:del', file=rel, line=i + 1, op='delete continue/break', old=l, new='')) + '\n')
                    n += 1
    print(n, 'mutants')


def genswap(files):
    """second operator family: exchange two adjacent single-line statements (ordering mutants)"""
    os.makedirs(OUT, exist_ok=True)
    have = {m['id'] for m in load('mutants.jsonl')}
    n = 0
    skip = ('debug_assert', 'tracing::', 'metrics', 'histogram!', 'counter!', 'trace!', 'debug!', 'panic!')
    with open(os.path.join(OUT, 'mutants.jsonl'), 'a') as out:
        for rel in files:
            p = os.path.join(core.REPO, rel)
            if not os.path.exists(p):
                continue
            src, end = production_lines(p)

            def stmt(l):
                c = l.split('//')[0].rstrip()
                t = c.strip()
                return bool(t) and t.endswith(';') and not t.startswith(('}', 'use ', '#[', 'pub ', 'const ', 'type ', 'return', 'break', 'continue')) and \
                    c.count('(') == c.count(')') and c.count('{') == c.count('}') and not any(k in t for k in skip)
            for i in range(end - 1):
                a, b = src[i], src[i + 1]
                if not (stmt(a) and stmt(b)):
                    continue
                if len(a) - len(a.lstrip()) != len(b) - len(b.lstrip()) or a.strip() == b.strip():
                    continue
                # a statement continuing the previous line (method chain) is not a statement of its own
                if a.strip().startswith('.') or b.strip().startswith('.') or (i > 0 and not src[i - 1].split('//')[0].rstrip().endswith((';', '{', '}', ''))):
                    continue
                mid = f'{rel}:{i+1}:swap'
                if mid in have:
                    continue
                out.write(json.dumps(dict(id=mid, file=rel, line=i + 1, op='swap adjacent statements', old=a, new=b, line2=i + 2, old2=b, new2=a)) + '\n')
                n += 1
    print(n, 'swap mutants')


def gencond(files):
    """third operator family: a guard dropped or forced (`if c {` -> `if true {` / `if false {`), one conjunct / disjunct removed"""
    os.makedirs(OUT, exist_ok=True)
    have = {m['id'] for m in load('mutants.jsonl')}
    n = 0
    skip = ('debug_assert', 'tracing::', 'metrics', 'histogram!', 'counter!', 'trace!', 'debug!', 'panic!', 'assert!')
    with open(os.path.join(OUT, 'mutants.jsonl'), 'a') as out:
        def emit(rel, i, tag, old, new):
            nonlocal n
            mid = f'{rel}:{i+1}:{tag}'
            if mid in have or new == old:
                return
            have.add(mid)
            out.write(json.dumps(dict(id=mid, file=rel, line=i + 1, op=tag, old=old, new=new)) + '\n')
            n += 1
        for rel in files:
            p = os.path.join(core.REPO, rel)
            if not os.path.exists(p):
                continue
            src, end = production_lines(p)
            for i in range(end):
                l = src[i]
                code = l.split('//')[0]
                t = code.strip()
                if not t or any(k in t for k in skip):
                    continue
                m = re.match(r'^(\s*(?:\} else )?if )(?!let\b)(.+)( \{)\s*$', code)
                if m and ' let ' not in m.group(2):
                    emit(rel, i, 'iftrue', l, m.group(1) + 'true' + m.group(3))
                    emit(rel, i, 'iffalse', l, m.group(1) + 'false' + m.group(3))
                    c = m.group(2)
                    for op in (' && ', ' || '):
                        parts = c.split(op)
                        if len(parts) >= 2 and all(x.count('(') == x.count(')') for x in parts):
                            for k in range(len(parts)):
                                rest = op.join(parts[:k] + parts[k + 1:])
                                emit(rel, i, f'drop{k}', l, m.group(1) + rest + m.group(3))
                m = re.match(r'^(\s*while )(?!let\b)(.+)( \{)\s*$', code)
                if m and ' let ' not in m.group(2):
                    c = m.group(2)
                    for op in (' && ', ' || '):
                        parts = c.split(op)
                        if len(parts) >= 2 and all(x.count('(') == x.count(')') for x in parts):
                            for k in range(len(parts)):
                                emit(rel, i, f'wdrop{k}', l, m.group(1) + op.join(parts[:k] + parts[k + 1:]) + m.group(3))
    print(n, 'condition mutants')


def split_args(a):
    out, depth, cur = [], 0, ''
    for ch in a:
        if ch in '([{<' :
            depth += 1
        elif ch in ')]}>':
            depth -= 1
        if ch == ',' and depth == 0:
            out.append(cur)
            cur = ''
        else:
            cur += ch
    if cur.strip():
        out.append(cur)
    return out


def genargs(files):
    """fourth operator family: two adjacent arguments of a call exchanged (the compiler keeps only same-typed pairs)"""
    os.makedirs(OUT, exist_ok=True)
    have = {m['id'] for m in load('mutants.jsonl')}
    n = 0
    skip = ('debug_assert', 'tracing::', 'metrics', 'histogram!', 'counter!', 'trace!', 'debug!', 'panic!', 'assert', 'format!', 'expect(')
    with open(os.path.join(OUT, 'mutants.jsonl'), 'a') as out:
        for rel in files:
            p = os.path.join(core.REPO, rel)
            if not os.path.exists(p):
                continue
            src, end = production_lines(p)
            for i in range(end):
                l = src[i]
                code = l.split('//')[0]
                if any(k in code for k in skip) or code.strip().startswith(('fn ', 'pub fn', 'pub(crate) fn', 'pub(super) fn', '#[', 'use ')):
                    continue
                k = 0
                for m in re.finditer(r'[A-Za-z_][A-Za-z0-9_]*\(', code):
                    st = m.end()
                    depth, j = 1, st
                    while j < len(code) and depth:
                        depth += code[j] in '([{'
                        depth -= code[j] in ')]}'
                        j += 1
                    if depth:
                        continue
                    inner = code[st:j - 1]
                    args = split_args(inner)
                    if len(args) < 2 or '|' in inner:
                        continue
                    for a in range(len(args) - 1):
                        if args[a].strip() == args[a + 1].strip():
                            continue
                        sw = args[:a] + [args[a + 1], args[a]] + args[a + 2:]
                        # keep the original spacing: leading space belongs to the position, not the argument
                        sw = [(' ' if x and idx > 0 else '') + x.strip() for idx, x in enumerate(sw)]
                        new = code[:st] + ','.join(sw) + code[j - 1:]
                        k += 1
                        mid = f'{rel}:{i+1}:args{k}'
                        if mid in have or new == code:
                            continue
                        have.add(mid)
                        out.write(json.dumps(dict(id=mid, file=rel, line=i + 1, op='swap adjacent call arguments', old=l, new=new)) + '\n')
                        n += 1
    print(n, 'argument-swap mutants')


def genflow(files):
    """fifth operator family: control-flow edits — a plain condition negated (`if c {` -> `if !(c) {`), an early `return ..;` line
    deleted, `else if` chains cut (`} else if c {` -> `} else if false {` is in gencond), a `match` arm guard dropped"""
    os.makedirs(OUT, exist_ok=True)
    have = {m['id'] for m in load('mutants.jsonl')}
    n = 0
    skip = ('debug_assert', 'tracing::', 'metrics', 'histogram!', 'counter!', 'trace!', 'debug!', 'panic!', 'assert!')
    with open(os.path.join(OUT, 'mutants.jsonl'), 'a') as out:
        def emit(rel, i, tag, old, new):
            nonlocal n
            mid = f'{rel}:{i+1}:{tag}'
            if mid in have or new == old:
                return
            have.add(mid)
            out.write(json.dumps(dict(id=mid, file=rel, line=i + 1, op=tag, old=old, new=new)) + '\n')
            n += 1
        for rel in files:
            p = os.path.join(core.REPO, rel)
            if not os.path.exists(p):
                continue
            src, end = production_lines(p)
            for i in range(end):
                l = src[i]
                code = l.split('//')[0]
                t = code.strip()
                if not t or any(k in t for k in skip):
                    continue
                m = re.match(r'^(\s*(?:\} else )?if )(?!let\b)(.+)( \{)\s*$', code)
                if m and ' let ' not in m.group(2) and not m.group(2).startswith('!') and '==' not in m.group(2) and '!=' not in m.group(2) \
                        and '<' not in m.group(2) and '>' not in m.group(2) and '&&' not in m.group(2) and '||' not in m.group(2):
                    emit(rel, i, 'ifneg', l, m.group(1) + '!(' + m.group(2) + ')' + m.group(3))
                m = re.match(r'^(\s*while )(?!let\b)(.+)( \{)\s*$', code)
                if m and ' let ' not in m.group(2) and '&&' not in m.group(2) and '||' not in m.group(2) and '<' not in m.group(2):
                    emit(rel, i, 'whileneg', l, m.group(1) + '!(' + m.group(2) + ')' + m.group(3))
                if re.match(r'^\s*return\b.*;\s*$', code):
                    emit(rel, i, 'retdel', l, '')
                m = re.match(r'^(\s*.+?)( if .+?)( => .*)$', code)
                if m and '=>' in code and not code.strip().startswith('if '):
                    emit(rel, i, 'armguard', l, m.group(1) + m.group(3))
    print(n, 'control-flow mutants')


VARIANTS = {
    'TransactionStatus': ['Initial', 'Executing', 'Executed', 'Validating', 'Unconfirmed', 'Conflict', 'Finality'],
    'AccountStatus': ['LoadedNotExisting', 'Loaded', 'LoadedEmptyEIP161', 'InMemoryChange', 'Changed', 'Destroyed', 'DestroyedChanged', 'DestroyedAgain'],
    'ReadVersion': ['Storage'],
    'BeneficiaryMode': ['Immediate', 'Deferred'],
    'NonceValidationPolicy': [],
}


def genvariant(files):
    """sixth operator family: a unit variant of a state enum replaced by each other unit variant of the same enum"""
    os.makedirs(OUT, exist_ok=True)
    have = {m['id'] for m in load('mutants.jsonl')}
    n = 0
    with open(os.path.join(OUT, 'mutants.jsonl'), 'a') as out:
        for rel in files:
            p = os.path.join(core.REPO, rel)
            if not os.path.exists(p):
                continue
            src, end = production_lines(p)
            for i in range(end):
                l = src[i]
                code = l.split('//')[0]
                if 'debug_assert' in code or 'assert!' in code or 'tracing::' in code:
                    continue
                k = 0
                for en, vs in VARIANTS.items():
                    for m in re.finditer(r'\b' + en + r'::([A-Za-z0-9]+)\b(?!\s*[({])', code):
                        if m.group(1) not in vs:
                            continue
                        for v in vs:
                            if v == m.group(1):
                                continue
                            k += 1
                            new = code[:m.start(1)] + v + code[m.end(1):]
                            mid = f'{rel}:{i+1}:var{k}'
                            if mid in have:
                                continue
                            have.add(mid)
                            out.write(json.dumps(dict(id=mid, file=rel, line=i + 1, op=f'{en}::{m.group(1)} -> {v}', old=l, new=new)) + '\n')
                            n += 1
    print(n, 'variant mutants')


def gennarrow(files):
    """seventh operator family: every guard narrowed by an opaque extra conjunct (`if c {` -> `if c && black_box(true) {`).
    At run time nothing changes; statically the guarded action has become conditional on something unknown. A rule that demands a
    necessary action on EVERY path satisfying its precondition reports it; an unreported mutant whose guarded action is necessary
    shows a rule that only constrains the paths on which the action happens (the C16h / C08g kind of hole)."""
    os.makedirs(OUT, exist_ok=True)
    have = {m['id'] for m in load('mutants.jsonl')}
    n = 0
    skip = ('debug_assert', 'tracing::', 'metrics', 'histogram!', 'counter!', 'trace!', 'debug!', 'panic!', 'assert!')
    with open(os.path.join(OUT, 'mutants.jsonl'), 'a') as out:
        for rel in files:
            p = os.path.join(core.REPO, rel)
            if not os.path.exists(p):
                continue
            src, end = production_lines(p)
            for i in range(end):
                l = src[i]
                code = l.split('//')[0]
                t = code.strip()
                if not t or any(k in t for k in skip):
                    continue
                m = re.match(r'^(\s*(?:\} else )?if )(.+)( \{)\s*$', code)
                if not m or '||' in m.group(2):
                    continue
                mid = f'{rel}:{i+1}:narrow'
                if mid in have:
                    continue
                have.add(mid)
                out.write(json.dumps(dict(id=mid, file=rel, line=i + 1, op='guard narrowed by an opaque conjunct', old=l,
                                          new=m.group(1) + m.group(2) + ' && std::hint::black_box(true)' + m.group(3))) + '\n')
                n += 1
    print(n, 'narrowed-guard mutants')


ALL_RULES = None


def all_rules():
    global ALL_RULES
    if ALL_RULES is None:
        seen, out = set(), []
        for pid in sorted(props.PROPS):
            for r in props.PROPS[pid]['rules']:
                if r not in seen:
                    seen.add(r)
                    out.append(r)
        ALL_RULES = out
    return ALL_RULES


def analyse(facts_path):
    facts = mirlib.Facts(facts_path)
    ctx = core.Ctx('ALL', facts, 'quick', 0, facts_path)
    ctx.skip_rules = set()
    for rule in all_rules():
        ctx.guarded(rule.__name__, rule.__module__, lambda: rule(ctx))
    return sorted({o.key.split('|', 1)[1] for o in ctx.obs if not o.ok})


def scratch_with(m):
    d = tempfile.mkdtemp(prefix='grevm-mutsweep-', dir=os.environ.get('TMPDIR', '/tmp'))
    for item in ('src', 'Cargo.toml', 'Cargo.lock', 'benches', 'tests', 'rust-toolchain.toml'):
        s = os.path.join(core.REPO, item)
        if os.path.isdir(s):
            shutil.copytree(s, os.path.join(d, item))
        elif os.path.exists(s):
            shutil.copy2(s, os.path.join(d, item))
    p = os.path.join(d, m['file'])
    src = open(p).read().split('\n')
    assert src[m['line'] - 1] == m['old'], 'tree changed since gen'
    src[m['line'] - 1] = m['new']
    if 'line2' in m:
        assert src[m['line2'] - 1] == m['old2'], 'tree changed since gen'
        src[m['line2'] - 1] = m['new2']
    open(p, 'w').write('\n'.join(src))
    return d


def run_one(m, slot):
    d = scratch_with(m)
    t0 = time.time()
    try:
        try:
            fp = core.export_facts(repo=d, tag=f'ms-{slot}', target=selftest.worker_target(10 + slot))
        except core.AnalysisFailed as e:
            return dict(id=m['id'], status='does-not-compile', why=str(e)[:160])
        try:
            keys = analyse(fp)
        except Exception as e:  # a crash of a rule is itself a finding about the checker
            return dict(id=m['id'], status='checker-crash', why=repr(e)[:300])
        return dict(id=m['id'], status='ran', reported=keys, wall=round(time.time() - t0, 1))
    finally:
        shutil.rmtree(d, ignore_errors=True)
        try:
            os.remove(os.path.join(core.CACHE, f'facts-ms-{slot}.json'))
        except OSError:
            pass


def load(name):
    p = os.path.join(OUT, name)
    return [json.loads(l) for l in open(p)] if os.path.exists(p) else []


def run(jobs, limit, only=None):
    import multiprocessing as mp
    muts = load('mutants.jsonl')
    done = {r['id'] for r in load('results.jsonl')}
    todo = [m for m in muts if m['id'] not in done and (not only or any(o in m['id'] for o in only))]
    if limit:
        todo = todo[:limit]
    core.build_driver()
    for i in range(jobs):
        selftest.worker_target(i)
    print(len(todo), 'to run with', jobs, 'workers')
    q = mp.Queue()
    for m in todo:
        q.put(m)
    for _ in range(jobs):
        q.put(None)
    rq = mp.Queue()

    def worker(slot):
        while True:
            m = q.get()
            if m is None:
                rq.put(None)
                return
            try:
                rq.put(run_one(m, slot))
            except Exception as e:
                rq.put(dict(id=m['id'], status='error', why=repr(e)[:200]))
    ps = [mp.Process(target=worker, args=(i,)) for i in range(jobs)]
    for p in ps:
        p.start()
    fin = 0
    n = 0
    with open(os.path.join(OUT, 'results.jsonl'), 'a') as out:
        while fin < jobs:
            r = rq.get()
            if r is None:
                fin += 1
                continue
            out.write(json.dumps(r) + '\n')
            out.flush()
            n += 1
            if n % 25 == 0:
                print(n, 'done', flush=True)
    for p in ps:
        p.join()


def tests(jobs):
    """phase 2: the pinned unit tests on mutants that compile and that no rule reported"""
    import multiprocessing as mp
    muts = {m['id']: m for m in load('mutants.jsonl')}
    res = load('results.jsonl')
    done = {r['id'] for r in load('tests.jsonl')}
    todo = [muts[r['id']] for r in res if r['status'] == 'ran' and not r['reported'] and r['id'] not in done and r['id'] in muts]
    print(len(todo), 'unreported mutants to test')
    base = os.environ.get('TMPDIR', '/tmp')
    q = mp.Queue()
    for m in todo:
        q.put(m)
    for _ in range(jobs):
        q.put(None)
    rq = mp.Queue()

    def worker(slot):
        tgt = os.path.join(base, f'grevm-mutsweep-target-{slot}')
        if not os.path.isdir(tgt):
            shutil.copytree(os.path.join(core.REPO, 'target'), tgt, symlinks=True)
            # warm-up: the copied cache is rebuilt once for the new location; do it on the unmutated tree, without a time limit
            w = tempfile.mkdtemp(prefix='grevm-mutsweep-warm-', dir=base)
            for item in ('src', 'Cargo.toml', 'Cargo.lock', 'benches', 'tests', 'rust-toolchain.toml'):
                s_ = os.path.join(core.REPO, item)
                (shutil.copytree if os.path.isdir(s_) else shutil.copy2)(s_, os.path.join(w, item))
            subprocess.run(['cargo', 'test', '--offline', '--lib', '--no-run'], cwd=w, env=dict(os.environ, CARGO_TARGET_DIR=tgt, CARGO_NET_OFFLINE='true'), capture_output=True)
            shutil.rmtree(w, ignore_errors=True)
        while True:
            m = q.get()
            if m is None:
                rq.put(None)
                return
            d = scratch_with(m)
            try:
                env = dict(os.environ, CARGO_TARGET_DIR=tgt, CARGO_NET_OFFLINE='true')
                import signal
                pr = subprocess.Popen(['cargo', 'test', '--offline', '--lib', '--', '--test-threads', '4'], cwd=d, env=env, stdout=subprocess.PIPE, stderr=subprocess.DEVNULL, text=True, start_new_session=True)
                try:
                    so, _ = pr.communicate(timeout=420)
                    failed = re.findall(r'^test (\S+) \.\.\. FAILED', so, re.M)
                    rq.put(dict(id=m['id'], rc=pr.returncode, failed=failed[:6], summary=(re.findall(r'^test result.*$', so, re.M) or [''])[0]))
                except subprocess.TimeoutExpired:
                    try:
                        os.killpg(pr.pid, signal.SIGKILL)   # the test binary too, not only cargo
                    except OSError:
                        pass
                    pr.wait()
                    rq.put(dict(id=m['id'], rc=-9, failed=['TIMEOUT'], summary='timeout'))
            finally:
                shutil.rmtree(d, ignore_errors=True)
    ps = [mp.Process(target=worker, args=(i,)) for i in range(jobs)]
    for p in ps:
        p.start()
    fin = 0
    with open(os.path.join(OUT, 'tests.jsonl'), 'a') as out:
        while fin < jobs:
            r = rq.get()
            if r is None:
                fin += 1
                continue
            out.write(json.dumps(r) + '\n')
            out.flush()
    for p in ps:
        p.join()
    for slot in range(jobs):
        shutil.rmtree(os.path.join(base, f'grevm-mutsweep-target-{slot}'), ignore_errors=True)


def report():
    muts = {m['id']: m for m in load('mutants.jsonl')}
    res = {r['id']: r for r in load('results.jsonl')}
    tst = {r['id']: r for r in load('tests.jsonl')}
    st = {}
    for r in res.values():
        k = r['status'] if r['status'] != 'ran' else ('reported' if r['reported'] else 'unreported')
        st[k] = st.get(k, 0) + 1
    print(len(muts), 'mutants;', st)
    surv = [i for i, r in res.items() if r['status'] == 'ran' and not r['reported'] and i in tst and tst[i]['rc'] == 0]
    killed = [i for i, r in res.items() if r['status'] == 'ran' and not r['reported'] and i in tst and tst[i]['rc'] != 0]
    print('unreported: killed by the unit tests', len(killed), '; survive the unit tests too', len(surv))
    for i in sorted(surv, key=lambda x: (muts[x]['file'], muts[x]['line'])):
        m = muts[i]
        print(f"  {i:45s} {m['old'].strip()[:70]!r} -> {m['new'].strip()[:70]!r}")
    for i, r in res.items():
        if r['status'] in ('checker-crash', 'error'):
            print('  CRASH', i, r['why'])


if __name__ == '__main__':
    a = sys.argv[1:]
    cmd = a[0] if a else 'report'
    jobs = int(a[a.index('-j') + 1]) if '-j' in a else 6
    limit = int(a[a.index('--limit') + 1]) if '--limit' in a else 0
    if cmd == 'gen':
        gen([x for x in a[1:] if x.startswith('src/')] or FILES)
    elif cmd == 'gennarrow':
        gennarrow([x for x in a[1:] if x.startswith('src/')] or FILES)
    elif cmd == 'genvariant':
        genvariant([x for x in a[1:] if x.startswith('src/')] or FILES)
    elif cmd == 'genflow':
        genflow([x for x in a[1:] if x.startswith('src/')] or FILES)
    elif cmd == 'genargs':
        genargs([x for x in a[1:] if x.startswith('src/')] or FILES)
    elif cmd == 'gencond':
        gencond([x for x in a[1:] if x.startswith('src/')] or FILES)
    elif cmd == 'genswap':
        genswap([x for x in a[1:] if x.startswith('src/')] or FILES)
    elif cmd == 'run':
        run(jobs, limit, [x for x in a[1:] if x.startswith('src/')])
    elif cmd == 'tests':
        tests(jobs)
    else:
        report()

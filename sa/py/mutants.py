"""self-test catalogue: (file, old, new) edits against the current tree.  kind=mutant must be
reported by at least one rule of every listed property (and by a rule named in `expect`);
kind=benign must leave every listed property silent."""
S = 'src/scheduler.rs'
CASES = []


def mutant(name, props, edits, expect=()):
    CASES.append(dict(name=name, kind='mutant', props=props, edits=edits, expect=list(expect)))


def benign(name, props, edits, patch=None):
    CASES.append(dict(name=name, kind='benign', props=props, edits=edits, patch=patch))


def mutant_on(patch, name, props, edits, expect=()):
    """a mutant applied on top of a behaviour-preserving refactor (sa/benign/*.diff): the rules must
    still see the defect when the code is spelled differently"""
    CASES.append(dict(name=name, kind='mutant', props=props, edits=edits, expect=list(expect), patch=patch))


mutant('N1-timestamp-after-scan', ['C02'], [
    (S, "        let ts = self.scheduler_ctx.logical_timestamp();\n", ""),
    (S, "        if conflict {\n            self.metrics.record_version_conflict();", "        let ts = self.scheduler_ctx.logical_timestamp();\n        if conflict {\n            self.metrics.record_version_conflict();"),
], ['|N1|'])
mutant('N2-rewind-before-marks', ['C02'], [
    (S, "        let mut conflict = false;\n        let mut dependency: Option<TxId> = None;\n        for (location, version) in result.read_set.iter() {",
        "        let mut conflict = false;\n        let mut dependency: Option<TxId> = None;\n        for (location, version) in result.read_set.iter() {"),
    (S, "        if conflict {\n            self.metrics.record_version_conflict();", "        if conflict {\n            self.scheduler_ctx.rewind_validation_to(txid + 1);\n            self.metrics.record_version_conflict();"),
    (S, "        tx_state.status = if conflict {\n            self.scheduler_ctx.rewind_validation_to(txid + 1);\n", "        tx_state.status = if conflict {\n"),
], ['|N2|'])
mutant('N6-drop-carry', ['C02'], [
    (S, "                lower_ts = effective_lower_ts;\n", "                let _ = effective_lower_ts;\n"),
], ['|N6|'])
mutant('N10-le-in-commit-guard', ['C02'], [
    (S, "while commit_idx < self.scheduler_ctx.finality_idx() {", "while commit_idx <= self.scheduler_ctx.finality_idx() {"),
], ['|N10|'])
mutant('V3-dependency-commit-before-publish', ['C02'], [
    (S, "                        self.scheduler_ctx.publish_commit(next_commit_idx);\n                        // Publish committed state before releasing work that may require it.\n                        self.tx_dependency.commit(commit_idx);\n",
        "                        self.tx_dependency.commit(commit_idx);\n                        self.scheduler_ctx.publish_commit(next_commit_idx);\n"),
], ['|V3|'])
mutant('N8-next-accepts-finality', ['C02'], [
    (S, "                    TransactionStatus::Executed | TransactionStatus::Unconfirmed => {", "                    TransactionStatus::Executed | TransactionStatus::Unconfirmed | TransactionStatus::Finality => {"),
], ['|N8|'])
mutant('N9-no-incarnation-bump', ['C02'], [
    (S, "                tx.incarnation += 1;\n", ""),
], ['|N9|'])
mutant('N4-validation-task-on-new-location', ['C02'], [
    (S, "                } else {\n                    write_new_locations = true;\n                }", "                }"),
], ['|N4|'])
mutant('X1-drop-stale-write-loop', ['C02'], [
    (S, """                    for location in &last_result.write_set {
                        if !write_set.contains(location) &&
                            let Some(mut written_transactions) = self.mv_memory.get_mut(location)
                        {
                            written_transactions.remove(&txid);
                        }
                    }
""", ""),
], ['|X1|'])
mutant('N5-no-rewind-on-conflict-exit', ['C02'], [
    (S, "        if conflict {\n            self.scheduler_ctx.rewind_validation_to(txid + 1);\n        } else {", "        if conflict {\n        } else {"),
], ['|N5|'])
mutant('N7-rewind-after-guard-drop', ['C02'], [
    (S, "            self.scheduler_ctx.rewind_validation_to(txid);\n            drop(tx_state);\n            return self.execution_task(next);", "            drop(tx_state);\n            self.scheduler_ctx.rewind_validation_to(txid);\n            return self.execution_task(next);"),
], ['|N7|'])
benign('B-extra-metric-and-rename', ['C02'], [
    (S, "        let ts = self.scheduler_ctx.logical_timestamp();", "        let validation_tick = self.scheduler_ctx.logical_timestamp();\n        self.metrics.record_validation_attempt();"),
    (S, "            self.scheduler_ctx.unconfirmed(txid, ts);", "            self.scheduler_ctx.unconfirmed(txid, validation_tick);"),
])
benign('B-ge-for-gt-timestamps', ['C02'], [
    (S, "(self.scheduler_ctx.unconfirmed_timestamp(finality_idx) > effective_lower_ts)", "(self.scheduler_ctx.unconfirmed_timestamp(finality_idx) >= effective_lower_ts)"),
])
benign('B-if-else-for-then-some', ['C02'], [
    (S, """        (self.scheduler_ctx.unconfirmed_timestamp(finality_idx) > effective_lower_ts)
            .then_some((tx_state, effective_lower_ts))""", """        if self.scheduler_ctx.unconfirmed_timestamp(finality_idx) > effective_lower_ts {
            Some((tx_state, effective_lower_ts))
        } else {
            None
        }"""),
])

T = 'src/tx_dependency.rs'
mutant('V2-fetch_min-before-clearing-blocker', ['C16'], [
    (T, """                if dependent.onboard {
                    if pop_next && tx == txid + 1 && self.index.load(Ordering::Relaxed) > tx {""",
        """                if dependent.onboard {
                    if pop_next && tx == txid + 1 && self.index.load(Ordering::Relaxed) > tx {"""),
    (T, """            let mut state = self.dependent_state[next].lock();
            if state.onboard {
                state.dependency = None;
                self.index.fetch_min(next, Ordering::Relaxed);
            }""", """            self.index.fetch_min(next, Ordering::Relaxed);
            let mut state = self.dependent_state[next].lock();
            if state.onboard {
                state.dependency = None;
            }"""),
], ['|V2|', '|V1|'])
mutant('V1-drop-stale-edge-recheck', ['C16'], [
    (T, "            if dependent.dependency == Some(txid) {\n                dependent.dependency = None;", "            if dependent.dependency.is_some() {\n                dependent.dependency = None;"),
], ['|V1|'])
mutant('V3-cursor-read-outside-DS', ['C16'], [
    (T, "        let mut state = self.dependent_state[txid].lock();\n        if txid > commit_idx.get() {", "        let committed = commit_idx.get();\n        let mut state = self.dependent_state[txid].lock();\n        if txid > committed {"),
], ['|V1|'])
mutant('V1-commit-does-not-release', ['C16'], [
    (T, "                state.dependency = None;\n                self.index.fetch_min(next, Ordering::Relaxed);\n            }\n        }\n    }\n\n    /// Hold", "                self.index.fetch_min(next, Ordering::Relaxed);\n            }\n        }\n    }\n\n    /// Hold"),
], ['|V1|'])
mutant('V2-add-none-without-rewind', ['C16'], [
    (T, "                state.onboard = true;\n                state.dependency = None;\n                self.index.fetch_min(txid, Ordering::Relaxed);", "                state.onboard = true;\n                state.dependency = None;"),
], ['|V2|'])
mutant('V1-next-does-not-clear-onboard', ['C16'], [
    (T, "            state.onboard = false;\n            return Some(index)", "            return Some(index)"),
], ['|V1|'])
mutant('V1-handoff-without-claim', ['C16'], [
    (T, "                        dependent.onboard = false;\n                        next = Some(tx);", "                        next = Some(tx);"),
], ['|V1|'])
mutant('V4-AF-under-DS', ['C16'], [
    (T, """            let mut dep = self.affect_txs[dep_id].lock();
            let mut dep_state = self.dependent_state[dep_id].lock();
            let mut state = self.dependent_state[txid].lock();""", """            let mut dep_state = self.dependent_state[dep_id].lock();
            let mut state = self.dependent_state[txid].lock();
            let mut dep = self.affect_txs[dep_id].lock();"""),
], ['|V4|'])
mutant('X5-handoff-dropped-in-execute_task', ['C16'], [
    (S, "            drop(tx_state);\n            return self.execution_task(next);", "            drop(tx_state);\n            let _ = next;\n            return None;"),
], ['|X5|'])
benign('B-dep-keep-stale-edges', ['C16'], [
    (T, "        affects.clear();\n", ""),
])
benign('B-dep-always-rewind-in-commit', ['C16'], [
    (T, """            if state.onboard {
                state.dependency = None;
                self.index.fetch_min(next, Ordering::Relaxed);
            }""", """            if state.onboard {
                state.dependency = None;
            }
            self.index.fetch_min(next, Ordering::Relaxed);"""),
])

CX = 'src/scheduler/context.rs'
CU = 'src/scheduler/cursor.rs'
CT = 'src/scheduler/control.rs'
W = 'src/scheduler/wait.rs'
mutant('A1-logical-clock-relaxed-in-rewind', ['C15', 'C02'], [
    (CX, "let timestamp = self.logical_clock.fetch_add(1, Ordering::AcqRel);", "let timestamp = self.logical_clock.fetch_add(1, Ordering::Relaxed);"),
], ['|A1|'])
mutant('A2-logical-clock-release-only-in-timestamp', ['C15'], [
    (CX, "    pub(super) fn logical_timestamp(&self) -> usize {\n        self.logical_clock.fetch_add(1, Ordering::AcqRel)", "    pub(super) fn logical_timestamp(&self) -> usize {\n        self.logical_clock.fetch_add(1, Ordering::Release)"),
], ['|A2|'])
mutant('A3-published-cursor-relaxed-store', ['C15'], [
    (CU, "self.0.store(value, Ordering::Release);", "self.0.store(value, Ordering::Relaxed);"),
], ['|A3'])
mutant('A4-published-cursor-relaxed-load', ['C15'], [
    (CU, "    pub(super) fn get(&self) -> usize {\n        self.0.load(Ordering::Acquire)\n    }\n\n    #[inline]\n    pub(super) fn publish", "    pub(super) fn get(&self) -> usize {\n        self.0.load(Ordering::Relaxed)\n    }\n\n    #[inline]\n    pub(super) fn publish"),
], ['|A4|'])
mutant('A6-store-for-fetch_min-in-rewind', ['C15'], [
    (CU, "        self.0.fetch_min(value, Ordering::AcqRel)", "        let previous = self.0.load(Ordering::Acquire);\n        self.0.store(value.min(previous), Ordering::Release);\n        previous"),
], ['|A6|'])
mutant('A6-lower-timestamp-store', ['C15'], [
    (CX, "self.lower_timestamps[index].fetch_max(timestamp, Ordering::AcqRel);", "self.lower_timestamps[index].store(timestamp, Ordering::Release);"),
], ['|A6|', '|U2|'])
mutant('U1-claim-returns-next', ['C15'], [
    (CU, "            return Some(current);", "            return Some(current + 1);"),
], ['|U1|'])
mutant('U1-claim-limit-inclusive', ['C15'], [
    (CU, "        if current >= limit {\n            return None;", "        if current > limit {\n            return None;"),
], ['|U1|'])
mutant('U2-rewind-uses-second-tick', ['C15'], [
    (CX, "self.lower_timestamps[index].fetch_max(timestamp, Ordering::AcqRel);", "let _ = timestamp;\n        self.lower_timestamps[index].fetch_max(self.logical_clock.load(Ordering::Acquire), Ordering::AcqRel);"),
], ['|U2|'])
mutant('U3-publish-uses-stale-frontier', ['C15'], [
    (CX, "        let frontier = self.frontier.load(Ordering::Acquire);\n        if index == frontier {\n            self.advance(frontier);", "        if index == frontier {\n            self.advance(frontier);"),
], ['|U3|'])
mutant('U3-validation-limit-ignores-frontier', ['C15'], [
    (CX, "let validation_limit = executing_idx.min(self.execution_frontier.current());", "let validation_limit = executing_idx;"),
], ['|U3|'])
benign('B-swap-lower-and-cursor-rewind', ['C15', 'C02'], [
    (CX, "        self.lower_timestamps[index].fetch_max(timestamp, Ordering::AcqRel);\n        let previous = self.validation.rewind(index);", "        let previous = self.validation.rewind(index);\n        self.lower_timestamps[index].fetch_max(timestamp, Ordering::AcqRel);"),
])
benign('B-weaken-non-table-orderings', ['C15', 'C02', 'C16'], [
    (CX, "self.unconfirmed_timestamps[index].fetch_max(timestamp, Ordering::AcqRel);", "self.unconfirmed_timestamps[index].fetch_max(timestamp, Ordering::Relaxed);"),
    (CX, "        self.lower_timestamps[index].load(Ordering::Acquire)", "        self.lower_timestamps[index].load(Ordering::Relaxed)"),
    (CU, "        self.0.fetch_min(value, Ordering::AcqRel)", "        self.0.fetch_min(value, Ordering::Relaxed)"),
])
benign('B-strengthen-orderings', ['C15', 'C16'], [
    (CU, "self.0.store(value, Ordering::Release);", "self.0.store(value, Ordering::SeqCst);"),
    ('src/tx_dependency.rs', "                self.index.fetch_min(next, Ordering::Relaxed);", "                self.index.fetch_min(next, Ordering::SeqCst);"),
])
mutant('O2-weak-cas-in-run_once', ['C14'], [
    (CT, "self.started.compare_exchange(false, true, Ordering::Relaxed, Ordering::Relaxed)", "self.started.compare_exchange_weak(false, true, Ordering::Relaxed, Ordering::Relaxed)"),
], ['|O2|'])
mutant('O2-load-then-store-in-run_once', ['C14'], [
    (CT, "self.started.compare_exchange(false, true, Ordering::Relaxed, Ordering::Relaxed).map_err(", "(if self.started.load(Ordering::Relaxed) { Err(true) } else { self.started.store(true, Ordering::Relaxed); Ok(false) }).map_err("),
], ['|O2|', '|O3|'])
mutant('O1-public-entry-bypasses-run_once', ['C14'], [
    ('src/scheduler/fallback.rs', "        self.run_once(|_| self.replay_uncommitted_suffix(CommittedPrefixEnd::ZERO))", "        self.replay_uncommitted_suffix(CommittedPrefixEnd::ZERO)"),
], ['|O1|'])
mutant('O3-started-reset-after-run', ['C14'], [
    (CT, "        self.metrics.report();\n        result", "        self.metrics.report();\n        if result.is_err() {\n            self.started.store(false, Ordering::Relaxed);\n        }\n        result"),
], ['|O2|', '|O3|'])
mutant('W1-park-without-second-check', ['C17'], [
    (W, "        thread::yield_now();\n        if blocked() {\n            thread::park_timeout(timeout);\n        }", "        thread::yield_now();\n        thread::park_timeout(timeout);"),
], ['|W1|'])
mutant('W2-validate-notifies-before-publish', ['C17'], [
    (S, "        // update transaction status\n        tx_state.status = if conflict {", "        if txid == self.scheduler_ctx.finality_idx() {\n            self.finality_wait.notify();\n        }\n        tx_state.status = if conflict {"),
    (S, "        drop(tx_state);\n        if txid == self.scheduler_ctx.finality_idx() {\n            self.finality_wait.notify();\n        }\n        None", "        drop(tx_state);\n        None"),
], ['|W2|', '|W3|'])
mutant('W3-finality-second-notify-removed', ['C17'], [
    (S, "                if finality_idx - previous_finality_idx > 1 {\n                    // Commit may have caught the first notification while this batch was still\n                    // publishing. Wake it once more for the completed suffix.\n                    self.commit_wait.notify();\n                }\n", ""),
], ['|W3|'])
mutant('W3-finality-first-notify-removed', ['C17'], [
    (S, "                if finality_idx == previous_finality_idx {\n                    // Start commit as soon as the first transaction in this batch is visible.\n                    self.commit_wait.notify();\n                }\n", ""),
], ['|W3|'])
mutant('L5-cancel-notifies-before-flag', ['C17'], [
    (CT, "        self.abort.store(true, Ordering::Release);\n        self.finality_wait.notify();\n        self.commit_wait.notify();", "        self.finality_wait.notify();\n        self.commit_wait.notify();\n        self.abort.store(true, Ordering::Release);"),
], ['|L5|'])
mutant('W1-commit-loop-waits-on-finality-slot', ['C17'], [
    (S, "                self.commit_wait.wait_while(STALL_TIMEOUT, || {", "                self.finality_wait.wait_while(STALL_TIMEOUT, || {"),
], ['|W1|'])
benign('B-unconditional-notify-in-validate', ['C17'], [
    (S, "        if txid == self.scheduler_ctx.finality_idx() {\n            self.finality_wait.notify();\n        }\n        None", "        self.finality_wait.notify();\n        None"),
])
benign('B-single-predicate-check', ['C17'], [
    (W, "        if !blocked() {\n            return;\n        }\n\n        // Most scheduler stalls close within one worker timeslice.\n        thread::yield_now();\n        if blocked() {", "        if blocked() {"),
])

I = 'src/incarnation_db.rs'
mutant('R1-drop-code-read-set-insert', ['C01'], [
    (I, "        self.read_set.insert(location, read_version);\n        Ok(result.expect(\"No bytecode\"))", "        let _ = (location, read_version);\n        Ok(result.expect(\"No bytecode\"))"),
], ['|R1|'])
mutant('R1-drop-storage-reset-insert', ['C01'], [
    (I, "        self.read_set.insert(reset_location, reset_version);\n", "        let _ = (reset_location, reset_version);\n"),
], ['|R1|'])
mutant('R3-inclusive-range-in-basic', ['C01'], [
    (I, "                let Some((&txid, entry)) =\n                    written_transactions.range(..self.version.txid).next_back() &&\n                let MemoryValue::Basic(account) = &entry.data", "                let Some((&txid, entry)) =\n                    written_transactions.range(..=self.version.txid).next_back() &&\n                let MemoryValue::Basic(account) = &entry.data"),
], ['|R3|'])
mutant('R3-oldest-writer-in-validate', ['C01'], [
    (S, "written_transactions.range(..txid).next_back()", "written_transactions.range(..txid).next()"),
], ['|R3|'])
mutant('R4-version-records-own-incarnation', ['C01'], [
    (I, "            slot_version = ReadVersion::MvMemory(TxVersion::new(txid, entry.incarnation));", "            slot_version = ReadVersion::MvMemory(TxVersion::new(txid, self.version.incarnation));"),
], ['|R4|'])
mutant('V1-delete-conflict-on-version-mismatch', ['C01'], [
    (S, "                        if version.txid != previous_id ||\n                            version.incarnation != latest_version.incarnation\n                        {\n                            conflict = true;\n                        }", "                        if version.txid != previous_id {\n                            conflict = true;\n                        }"),
], ['|V1|'])
mutant('V1-storage-read-with-preceding-writer-accepted', ['C01'], [
    (S, "                    } else {\n                        conflict = true;\n                    }\n                } else if !matches!(version, ReadVersion::Storage) {", "                    }\n                } else if !matches!(version, ReadVersion::Storage) {"),
], ['|V1|'])
mutant('V1-estimate-ignored-in-validation', ['C01'], [
    (S, "                    if latest_version.estimate {\n                        conflict = true;\n                    } else if let ReadVersion::MvMemory(version) = version {", "                    if let ReadVersion::MvMemory(version) = version {"),
], ['|V1|'])
mutant('W1-publish-without-write-set', ['C01'], [
    (I, "        write_set.insert(location.clone());\n        self.mv_memory", "        let _ = &write_set;\n        self.mv_memory"),
], ['|W1|'])
mutant('W1-estimate-not-derived', ['C01'], [
    (I, "        let estimate = !self.blocking_txs.is_empty();", "        let estimate = false;"),
], ['|W1|'])
mutant('D3-gt-for-ge-in-storage', ['C01'], [
    (I, "reset_txid.is_none_or(|reset_txid| slot_txid >= reset_txid)", "reset_txid.is_none_or(|reset_txid| slot_txid > reset_txid)"),
], ['|D3|'])
mutant('D3-reset-does-not-mask-backing', ['C01'], [
    (I, "        if reset_txid.is_some() {\n            return Ok(U256::ZERO);\n        }\n", ""),
], ['|D3|'])
mutant('D2-deleted-without-storage-reset', ['C01'], [
    (I, "                    self.publish_storage_reset(*address, estimate, &mut write_set);\n                    continue", "                    continue"),
], ['|D2|'])
mutant('D2-updated-publishes-reset', ['C01'], [
    (I, "            if created {\n                self.publish_storage_reset", "            if created || info.nonce > 0 {\n                self.publish_storage_reset"),
], ['|D2|'])
mutant('D2-reset-helper-publishes-for-wrong-kind', ['C08'], [
    ('src/incarnation_db.rs', "            LocationAndType::StorageReset(address),\n            MemoryValue::StorageReset,\n            estimate,\n            write_set,", "            LocationAndType::StorageReset(address),\n            MemoryValue::StorageReset,\n            false,\n            write_set,"),
], ['|D2|'])
mutant('X6-account-snapshots-never-cleared', ['C01', 'C09'], [
    (I, "        self.account_snapshots.clear();\n        self.blocking_txs.clear();", "        self.blocking_txs.clear();"),
    (I, "        let write_set = self.publish_writes(changes, estimate);\n        self.account_snapshots.clear();", "        let write_set = self.publish_writes(changes, estimate);"),
], ['|X6|'])
mutant('X6-failed-attempt-leaks-its-read-set', ['C01'], [
    (I, "        self.version = version;\n        self.read_set.clear();", "        self.version = version;"),
    (I, "        // incarnation instead of moving and immediately dropping it in the scheduler.\n        self.read_set.clear();", "        // incarnation instead of moving and immediately dropping it in the scheduler."),
], ['|X6|'])
benign('B-begin-does-not-repeat-the-resets-of-finish-and-discard', ['C01', 'C09'], [
    (I, "        self.read_set.clear();\n        self.account_snapshots.clear();\n        self.blocking_txs.clear();\n        self.blocked_by_beneficiary = false;\n    }\n\n    /// Finish a successful", "    }\n\n    /// Finish a successful"),
    (I, """        debug_assert!(self.read_set.is_empty(), "previous incarnation was not finished");
        debug_assert!(self.account_snapshots.is_empty(), "previous incarnation was not finished");
        debug_assert!(self.blocking_txs.is_empty(), "previous incarnation was not finished");
        debug_assert!(!self.blocked_by_beneficiary, "previous incarnation was not finished");
""", ""),
])
mutant('SIB-balance-change-copies-previous-info-after-taking-it', ['C10'], [
    ('src/parallel_state.rs', "        let previous_info = self.account.clone();\n        let mut info = self.account.take().unwrap_or_default();", "        let mut info = self.account.take().unwrap_or_default();\n        let previous_info = self.account.clone();"),
], ['|SIB|'])
mutant('K1-snapshot-only-code-changed', ['C01'], [
    (I, "account_snapshot.is_none_or(|basic| basic.code_hash != Some(info.code_hash));", "account_snapshot.is_some_and(|basic| basic.code_hash != Some(info.code_hash));"),
], ['|D2|', '|K1|'])
benign('B-ignore-estimate-at-one-read-site', ['C01'], [
    (I, "            result = Some(code.clone());\n            if entry.estimate {\n                self.blocking_txs.insert(txid);\n            }", "            result = Some(code.clone());"),
])
benign('B-publish-basic-for-beneficiary', ['C01'], [
    (I, "            if !self.beneficiary.matches(*address) &&\n                (code_changed ||", "            if (code_changed ||"),
    (I, "                        basic.nonce != info.nonce || basic.balance != info.balance\n                    }))\n            {", "                        basic.nonce != info.nonce || basic.balance != info.balance\n                    })) && true\n            {"),
])

OC = 'src/scheduler/ordered_commit.rs'
FB = 'src/scheduler/fallback.rs'
mutant('E1-head-test-after-attempt', ['C04'], [
    (S, "                    if started_at_commit_head {", "                    if self.scheduler_ctx.committed_idx() == txid {"),
], ['|E1|'])
mutant('S1-committer-built-with-true', ['C03'], [
    (S, "                commit_state,\n                self.cfg.disable_nonce_check,", "                commit_state,\n                true,"),
], ['|S1|'])
mutant('S1-workers-keep-nonce-check', ['C03'], [
    (S, "                        cfg.disable_nonce_check = true;\n", ""),
], ['|S1|'])
mutant('S2-less-treated-as-equal', ['C03'], [
    (OC, "                        Ordering::Less => {\n                            // See the nonce-too-high branch above: fallback owns the final outcome.\n                            return Ok(CommitOutcome::NeedsSequentialFallback);\n                        }\n", ""),
], ['|S2|'])
mutant('S2-absent-account-nonce-one', ['C03'], [
    (OC, "let expect = info.map_or(0, |info| info.nonce);", "let expect = info.map_or(1, |info| info.nonce);"),
], ['|S2|'])
mutant('S3-fallback-outcome-publishes', ['C03'], [
    (S, "                    Ok(CommitOutcome::NeedsSequentialFallback) => {", "                    Ok(CommitOutcome::NeedsSequentialFallback) => {\n                        self.scheduler_ctx.publish_commit(commit_idx + 1);"),
], ['|S3|', '|N10|'])
mutant('S4-transaction-error-is-fatal', ['C03', 'C04'], [
    (S, "                        if invalid_transaction {\n                            self.abort(AbortReason::FallbackSequential);\n                        } else {\n                            self.abort(AbortReason::FatalEvmError(txid));\n                        }", "                        self.abort(AbortReason::FatalEvmError(txid));"),
], ['|S4|'])
mutant('S4-error-aborts-without-head-test', ['C03', 'C04'], [
    (S, "                    if started_at_commit_head {\n                        if invalid_transaction {", "                    if true {\n                        if invalid_transaction {"),
], ['|S4|', '|E1|'])
mutant('S5-skipped-on-non-transaction-error', ['C03', 'C04'], [
    (FB, "                Err(error) => {\n                    return SequentialReplayOutput {\n                        outcomes,\n                        error: Some(GrevmError { txid, error }),\n                    };\n                }", "                Err(error) => {\n                    let _ = error;\n                    TxExecutionOutcome::Skipped(InvalidTransaction::NonceOverflowInTransaction)\n                }"),
], ['|S5|'])
mutant('S5-commit-on-err-in-fallback', ['C03'], [
    (FB, "                let state = evm.finalize();\n                output.map(|output| {\n                    let result = output.into_immediate_result();\n                    evm.db_mut().commit(state);\n                    result\n                })", "                let state = evm.finalize();\n                evm.db_mut().commit(state);\n                output.map(|output| output.into_immediate_result())"),
], ['|S5|'])
mutant('S6-overflow-ignores-state-nonce', ['C03'], [
    (FB, "        tx.nonce == u64::MAX &&\n        db.basic_ref(tx.caller)?.map_or(0, |info| info.nonce) == u64::MAX\n", "        tx.nonce == u64::MAX\n"),
], ['|S6|'])
mutant('E2-fatal-mapped-to-replay', ['C04', 'C03'], [
    ('src/scheduler/control.rs', "                    if let Some(error) = error {\n                        return Err(GrevmError { txid: *txid, error });\n                    }\n", ""),
], ['|E2|'])
mutant('E2-commit-error-replayed', ['C04'], [
    ('src/scheduler/control.rs', "Some(AbortReason::CommitError(error)) => return Err(error.clone()),", "Some(AbortReason::CommitError(_)) => return self.replay_uncommitted_suffix(committed),"),
], ['|E2|'])
mutant('E4-replay-drops-prefix-on-error', ['C04'], [
    (FB, "        self.results.lock().extend(outcomes);\n        error.map_or(Ok(()), Err)", "        if let Some(error) = error {\n            return Err(error);\n        }\n        self.results.lock().extend(outcomes);\n        Ok(())"),
], ['|E4|'])
mutant('E4-commit-loop-error-exit-drops-output', ['C04'], [
    (S, "                        return CommitLoopResult { committed: output, error: Some(error) };", "                        return CommitLoopResult { committed: OrderedCommitOutput::with_capacity(0), error: Some(error) };"),
], ['|E4|'])
mutant('E5-fallback-error-reports-rebased-index', ['C04'], [
    (FB, "                        error: Some(GrevmError { txid, error }),", "                        error: Some(GrevmError { txid: txid - start, error }),"),
], ['|S5|'])
mutant('N11-push-without-state-commit', ['C02'], [
    (OC, "        self.state.commit(state);\n        Ok(CommitOutcome::Committed(output.push(result)))", "        let _ = state;\n        Ok(CommitOutcome::Committed(output.push(result)))"),
], ['|N11|'])
mutant('B4-drop-mark-touch', ['C02'], [
    (OC, "            account.mark_touch();\n", ""),
], ['|B4|'])
mutant('L3-commit-loop-early-return-without-abort', ['C02'], [
    (S, "                        self.abort(AbortReason::FallbackSequential);\n                        return CommitLoopResult", "                        return CommitLoopResult"),
], ['|L3|', '|S3|'])
benign('B-commit-push-before-state-commit', ['C02', 'C03'], [
    (OC, "        self.state.commit(state);\n        Ok(CommitOutcome::Committed(output.push(result)))", "        let end = output.push(result);\n        self.state.commit(state);\n        Ok(CommitOutcome::Committed(end))"),
])
benign('B-delete-install-asserts', ['C02', 'C04'], [
    (S, "        assert!(results.is_empty(), \"ordered commit outcomes may only be installed once\");\n", ""),
])

PS = 'src/parallel_state.rs'
mutant('T1-storage-cleared-before-status-flip', ['C10'], [
    (PS, "                let transition = self.get_account_mut(address).selfdestruct();\n                self.storage.remove(&address);\n                return transition;", "                self.storage.remove(&address);\n                return self.get_account_mut(address).selfdestruct();"),
], ['|T1|'])
mutant('T1-reader-does-not-recheck', ['C10'], [
    (PS, "            let value = if is_storage_known() { U256::ZERO } else { value };\n", ""),
], ['|T1|'])
mutant('D4-drop-storage-remove-on-create', ['C10'], [
    (PS, "                    self.get_account_mut(address).newly_created(info.clone(), changed_storage);\n                self.storage.remove(&address);", "                    self.get_account_mut(address).newly_created(info.clone(), changed_storage);"),
], ['|D4|'])
mutant('SIB-selfdestruct-storage-not-destroyed', ['C10'], [
    (PS, "                previous_info,\n                previous_status,\n                storage: Default::default(),\n                storage_was_destroyed: true,\n            })\n        }\n    }\n\n    /// Newly created account.", "                previous_info,\n                previous_status,\n                storage: Default::default(),\n                storage_was_destroyed: false,\n            })\n        }\n    }\n\n    /// Newly created account."),
], ['|SIB|'])
mutant('SIB-empty-touch-early-none-set', ['C10'], [
    (PS, "            AccountStatus::LoadedNotExisting |\n                AccountStatus::Destroyed |\n                AccountStatus::DestroyedAgain\n", "            AccountStatus::LoadedNotExisting | AccountStatus::Destroyed\n"),
], ['|SIB|'])
mutant('SIB-created-before-selfdestructed', ['C10'], [
    (PS, "            if is_destructed {\n", "            if is_destructed && !is_created {\n"),
], ['|SIB|'])
mutant('SIB-newly-created-uses-on_changed', ['C10'], [
    (PS, "        self.status = self.status.on_created();", "        self.status = self.status.on_changed(false);"),
], ['|SIB|'])
mutant('T2-reader-overwrites-cache', ['C10'], [
    (PS, "            Entry::Occupied(entry) => Ok(entry.get().clone()),\n            Entry::Vacant(entry) => {\n                entry.insert(code.clone());\n                Ok(code)\n            }", "            Entry::Occupied(mut entry) => {\n                entry.insert(code.clone());\n                Ok(code)\n            }\n            Entry::Vacant(entry) => {\n                entry.insert(code.clone());\n                Ok(code)\n            }"),
], ['|T2|'])
mutant('BU-parallel-build-when-only-state-empty', ['C10'], [
    ('src/bundle.rs', "if !self.state.is_empty() || !self.contracts.is_empty() || !self.reverts.is_empty() {", "if !self.state.is_empty() {"),
], ['|BU|'])
mutant('BU-revert-size-not-accounted', ['C10'], [
    ('src/bundle.rs', "                self.reverts_size += account.revert_size;\n", ""),
], ['|BU|'])
mutant('D1-created-checked-before-selfdestructed', ['C10'], [
    ('src/account.rs', "        } else if account.is_selfdestructed() {\n            Self::Deleted\n        } else if account.is_created() {\n            Self::Created(&account.info)", "        } else if account.is_created() {\n            Self::Created(&account.info)\n        } else if account.is_selfdestructed() {\n            Self::Deleted"),
], ['|D1|'])

RW = 'src/beneficiary/reward.rs'
HI = 'src/beneficiary/history.rs'
mutant('K3-code-not-filled-when-missing', ['C09'], [
    (I, "        if let Some(info) = &mut result &&\n            !info.is_empty_code_hash() &&\n            info.code.is_none()\n        {\n            info.code = Some(self.code_by_address(address, info.code_hash)?);\n        }\n", ""),
], ['|K3|'])
mutant('K3-backing-store-before-mv-code', ['C09'], [
    (I, "        // 2. read from database\n        if result.is_none() {\n            let byte_code = self.backing_db.code_by_hash_ref(code_hash)?;\n            result = Some(byte_code);\n        }\n\n        self.read_set.insert(location, read_version);", "        if let Ok(byte_code) = self.backing_db.code_by_hash_ref(code_hash) {\n            result = Some(byte_code);\n        }\n\n        self.read_set.insert(location, read_version);"),
], ['|K3|'])
mutant('K2-basic-not-published-on-code-change', ['C09'], [
    (I, "                (code_changed ||\n                    account_snapshot.is_none_or(", "                (account_snapshot.is_none_or("),
], ['|D2|'])
mutant('B1-defer-when-beneficiary-in-journal', ['C07'], [
    (RW, "        if reward.is_zero() || evm.ctx_ref().journal().evm_state().contains_key(&beneficiary) {", "        if reward.is_zero() {"),
], ['|B1|'])
mutant('B1-zero-reward-skipped', ['C07'], [
    (RW, "        if reward.is_zero() || evm.ctx_ref().journal().evm_state().contains_key(&beneficiary) {", "        if reward.is_zero() {\n            return Ok(())\n        }\n        if evm.ctx_ref().journal().evm_state().contains_key(&beneficiary) {"),
], ['|B1|'])
mutant('B2-reservoir-not-excluded', ['C07'], [
    (RW, "        let effective_used = gas.used().saturating_sub(gas.reservoir());", "        let effective_used = gas.used();"),
], ['|B2|'])
mutant('B2-basefee-subtracted-before-london', ['C07'], [
    (RW, "        let beneficiary_gas_price = if spec.is_enabled_in(SpecId::LONDON) {\n            effective_gas_price.saturating_sub(basefee)\n        } else {\n            effective_gas_price\n        };", "        let beneficiary_gas_price = effective_gas_price.saturating_sub(basefee);"),
], ['|B2|'])
mutant('B3-saturating-add-in-apply_to', ['C07'], [
    (RW, "        if let Some(balance) = account.balance.checked_add(self.0) {\n            account.balance = balance;\n        }", "        account.balance = account.balance.saturating_add(self.0);"),
], ['|B3|', '|B4|'])
mutant('B6-beneficiary-read-from-committed-cache', ['C07'], [
    (I, "                Err(blocker) => {\n                    self.blocking_txs.insert(blocker);\n                    self.blocked_by_beneficiary = true;", "                Err(blocker) => {\n                    result = self.backing_db.basic_ref(address)?;\n                    self.blocking_txs.insert(blocker);\n                    self.blocked_by_beneficiary = true;"),
], ['|B6|'])
mutant('B7-blocked-execution-recorded-exact', ['C07'], [
    (S, "                let history_published = if conflict {\n                    beneficiary.record_estimate(&tx_version)\n                } else {\n                    beneficiary.record_execution(&tx_version, &speculative_result)\n                };", "                let history_published =\n                    beneficiary.record_execution(&tx_version, &speculative_result);"),
], ['|B7|'])
mutant('B8-record-accepts-same-incarnation', ['C07'], [
    (HI, "        if incarnation <= state.incarnation {\n            return false;\n        }", "        if incarnation < state.incarnation {\n            return false;\n        }"),
], ['|B8|'])
mutant('B8-invalidate-ignores-incarnation', ['C07'], [
    (HI, "        if state.incarnation != incarnation {\n            return false;\n        }\n        if matches!", "        if state.incarnation > incarnation {\n            return false;\n        }\n        if matches!"),
], ['|B8|'])
mutant('B8-fold-newest-first', ['C07'], [
    (HI, "            .into_iter()\n            .rev()\n            .fold(self.base,", "            .into_iter()\n            .fold(self.base,"),
], ['|B8|'])
mutant('B8-unchanged-not-an-origin', ['C07'], [
    (HI, "            origins.push(TxVersion::new(writer, incarnation));\n            match effect {\n                BeneficiaryEffect::Unchanged => {}", "            if effect != BeneficiaryEffect::Unchanged {\n                origins.push(TxVersion::new(writer, incarnation));\n            }\n            match effect {\n                BeneficiaryEffect::Unchanged => {}"),
], ['|B8|'])
mutant('B8-scan-includes-own-entry', ['C07'], [
    (HI, "        for writer in (0..txid).rev() {", "        for writer in (0..=txid.min(self.entries.len() - 1)).rev() {"),
], ['|B8|'])
mutant('B5-anchor-read-inside-scope', ['C07'], [
    (S, "            let beneficiary =\n                Beneficiary::new(self.env.beneficiary, beneficiary_anchor, self.block_size);", "            let beneficiary =\n                Beneficiary::new(self.env.beneficiary, None, self.block_size);\n            let _ = beneficiary_anchor;"),
], ['|B5|'])
mutant('N2-validate-drops-beneficiary-invalidate', ['C07', 'C02'], [
    (S, "            if !beneficiary.invalidate(&tx_version) {\n                self.abort(AbortReason::ParallelError {\n                    txid,\n                    message: \"stale beneficiary history validation\",\n                });\n                return None;\n            }\n", ""),
], ['|N2|'])

IN = 'src/delegated_safety/instructions.rs'
HD = 'src/delegated_safety/handler.rs'
RS = 'src/delegated_safety/reserve.rs'
EX = 'src/scheduler/executor.rs'
mutant('Q1-guard-checks-caller-not-target', ['C12'], [
    (IN, "let recipient = context.interpreter.input.target_address();", "let recipient = context.interpreter.input.caller_address();"),
], ['|Q1|'])
mutant('Q1-delegated-create-allowed-when-warm', ['C12'], [
    (IN, "if load.is_delegate_account_cold.is_some() {", "if load.is_delegate_account_cold == Some(true) {"),
], ['|Q1|'])
mutant('Q1-guard-before-static-check', ['C12'], [
    (IN, "    if context.interpreter.runtime_flag.is_static() {\n        return Err(InstructionResult::StateChangeDuringStaticCall)\n    }\n\n", ""),
], ['|Q1|'])
mutant('Q2-swapped-opcode-pairing', ['C12'], [
    (IN, "instructions.insert_instruction(CREATE, Instruction::new(guarded_create::<false, _, _>), 0);\n    instructions.insert_instruction(CREATE2, Instruction::new(guarded_create::<true, _, _>), 0);", "instructions.insert_instruction(CREATE, Instruction::new(guarded_create::<true, _, _>), 0);\n    instructions.insert_instruction(CREATE2, Instruction::new(guarded_create::<false, _, _>), 0);"),
], ['|Q2|'])
mutant('Q1-create2-calls-create', ['C12'], [
    (IN, "    contract::create::<IS_CREATE2, WIRE, H>(context)", "    contract::create::<false, WIRE, H>(context)"),
], ['|Q1|'])
mutant('Q3-table-swapped-before-prague', ['C12'], [
    (EX, "    if forbid_delegated_create && spec.is_enabled_in(revm_primitives::hardfork::SpecId::PRAGUE) {", "    if forbid_delegated_create {"),
    ('src/scheduler.rs', "        config.delegated_safety = config.delegated_safety.for_spec(cfg.spec);\n", ""),
], ['|Q3|'])
mutant('H1-enforce-reserve-after-beneficiary', ['C13'], [
    (HD, """        if let Some(reserve_result_gas) = self.enforce_reserve(
            evm,
            exec_result,
            execution_gas,
            init_and_floor_gas,
            eip7702_gas_refund,
        )? {
            result_gas = reserve_result_gas;
        }
        self.beneficiary_mode.apply::<EVM, ERROR>(evm, exec_result, &self.deferred_reward)?;""", """        self.beneficiary_mode.apply::<EVM, ERROR>(evm, exec_result, &self.deferred_reward)?;
        if let Some(reserve_result_gas) = self.enforce_reserve(
            evm,
            exec_result,
            execution_gas,
            init_and_floor_gas,
            eip7702_gas_refund,
        )? {
            result_gas = reserve_result_gas;
        }"""),
], ['|H1|'])
mutant('H1-checkpoint-before-auth-list', ['C13'], [
    (HD, "        let eip7702_refund = self.apply_eip7702_auth_list(evm, init_and_floor_gas)?;\n\n        debug_assert!(self.execution_checkpoint.get().is_none());\n        self.execution_checkpoint.set(Some(evm.ctx().journal_mut().checkpoint()));\n", "        debug_assert!(self.execution_checkpoint.get().is_none());\n        self.execution_checkpoint.set(Some(evm.ctx().journal_mut().checkpoint()));\n        let eip7702_refund = self.apply_eip7702_auth_list(evm, init_and_floor_gas)?;\n"),
], ['|H1|'])
mutant('H2-no-nonce-rebump-for-create', ['C13'], [
    (HD, "            if recreate_sender_nonce {\n                reapply_create_sender_nonce::<EVM, ERROR>(evm)?;\n            }\n", "            let _ = recreate_sender_nonce;\n"),
], ['|H2|'])
mutant('H2-no-second-reimbursement', ['C13'], [
    (HD, "            self.eip7623_check_gas_floor(evm, exec_result, init_and_floor_gas);\n            self.reimburse_caller(evm, exec_result)?;\n            return Ok(Some(result_gas))", "            self.eip7623_check_gas_floor(evm, exec_result, init_and_floor_gas);\n            return Ok(Some(result_gas))"),
], ['|H2|'])
mutant('H3-max-instead-of-min', ['C13'], [
    (HD, "let required = candidate.balance_before.min(future_cost);", "let required = candidate.balance_before.max(future_cost);"),
], ['|H3|'])
mutant('H3-le-instead-of-lt', ['C13'], [
    (HD, "if candidate.final_balance < required {", "if candidate.final_balance <= required {"),
], ['|H3|'])
mutant('H5-required-after-includes-current', ['C13'], [
    (RS, "        match self.txids.partition_point(|candidate| *candidate <= txid) {", "        match self.txids.partition_point(|candidate| *candidate < txid) {"),
], ['|H5|'])
mutant('H4-last-debit-kept', ['C13'], [
    (RS, "                first_debit.entry(source).or_insert(entry_index);", "                first_debit.insert(source, entry_index);"),
], ['|H4|'])
mutant('H4-root-transfer-not-excluded', ['C13'], [
    (RS, "            if root_value_pending && is_root_value_transfer(entry, tx) {", "            if false && root_value_pending && is_root_value_transfer(entry, tx) {"),
], ['|H4|'])

CF = 'src/config.rs'
PC = 'src/precompile.rs'
mutant('G1-min-parallel-affects-worker-cfg', ['C06'], [
    (S, "                        cfg.disable_nonce_check = true;\n", "                        cfg.disable_nonce_check = self.block_size >= self.config.min_parallel_txs;\n"),
], ['|S1|', '|G1|'])
mutant('G2-fallback-rebases-planner-txid', ['C06', 'C13'], [
    (FB, "let reserve_mode = ReserveMode::from_planner(txid, self.reserve_planner.as_deref());", "let reserve_mode = ReserveMode::from_planner(txid - start, self.reserve_planner.as_deref());"),
], ['|G2|'])
mutant('G2-fallback-ignores-forbid-create', ['C06', 'C12'], [
    (FB, "                self.config.delegated_safety.forbid_delegated_create,\n            );", "                false,\n            );"),
], ['|G2|'])
mutant('G3-decision-on-elapsed-time', ['C06'], [
    (S, "            if commit_idx > previous_commit_idx {\n                thread::yield_now();", "            if commit_idx > previous_commit_idx && Instant::now().elapsed() < STALL_TIMEOUT {\n                thread::yield_now();"),
], ['|G3|'])
mutant('G3-env-read-in-scheduler', ['C06'], [
    (S, "        if self.config.force_sequential || self.block_size < self.config.min_parallel_txs {", "        if self.config.force_sequential || self.block_size < self.config.min_parallel_txs || std::env::var(\"GREVM_SEQ\").is_ok() {"),
], ['|G3|', '|G1|'])
mutant('G1-concurrency-level-in-path-selection', ['C06'], [
    (S, "        if self.config.force_sequential || self.block_size < self.config.min_parallel_txs {", "        if self.config.force_sequential || self.block_size < self.config.min_parallel_txs.max(concurrency_level) {"),
], ['|G1|'])
mutant('Q3-policy-not-normalised', ['C06', 'C12'], [
    (S, "        config.delegated_safety = config.delegated_safety.for_spec(cfg.spec);\n", ""),
], ['|Q3|'])
benign('B-timing-metric-in-new-place', ['C06', 'C02'], [
    (S, "        let tx_env = self.txs[txid].clone();\n", "        let attempt_start = Instant::now();\n        let tx_env = self.txs[txid].clone();\n"),
    (S, "        self.scheduler_ctx.executed(txid);\n", "        self.metrics.record_commit_time(attempt_start.elapsed());\n        self.scheduler_ctx.executed(txid);\n"),
])
mutant('P2-sstore-without-ensure-mutable', ['C11'], [
    (PC, "        self.ensure_mutable()?;\n        match self.internals.sstore(address, key, value) {", "        self.ensure_healthy()?;\n        match self.internals.sstore(address, key, value) {"),
], ['|P2|'])
mutant('P2-static-check-after-load', ['C11'], [
    (PC, "        self.ensure_mutable()?;\n        let error = match self.internals.load_account_mut(address) {", "        let error = match self.internals.load_account_mut(address) {"),
], ['|P2|'])
mutant('P3-fault-not-enforced-by-adapter', ['C11'], [
    (PC, "            let result = input.state.take_fault().map_or(result, Err);\n", "            let _ = input.state.take_fault();\n"),
], ['|P3|'])
mutant('P3-halt-becomes-fatal', ['C11'], [
    (PC, "                Err(ParallelPrecompileError::Halt(reason)) => {\n                    Ok(PrecompileOutput::halt(reason, reservoir))\n                }", "                Err(ParallelPrecompileError::Halt(reason)) => {\n                    Err(PrecompileError::Fatal(reason.to_string()))\n                }"),
], ['|P3|'])
mutant('P3-adapter-uses-input-cache', ['C11'], [
    (PC, "        DynPrecompile::new_stateful(id, move |input| {", "        DynPrecompile::new(id, move |input| {"),
], ['|P3|'])
mutant('P1-internals-made-public', ['C11'], [
    (PC, "pub struct ParallelPrecompileState<'a> {\n    internals: EvmInternals<'a>,", "pub struct ParallelPrecompileState<'a> {\n    pub internals: EvmInternals<'a>,"),
], ['|P1|'])
mutant('P2-fault-overwritten-by-later-fault', ['C11'], [
    (PC, "        let fault = self.fault.get_or_insert(fault).clone();\n        Err(fault)", "        self.fault = Some(fault.clone());\n        Err(fault)"),
], ['|P2|'])
mutant('L1-validate-takes-TR-before-TS', ['C05'], [
    (S, "        let mut tx_state = self.tx_states[txid].lock();\n        let tx_result = self.tx_results[txid].lock();\n        if tx_state.status != TransactionStatus::Validating {", "        let tx_result = self.tx_results[txid].lock();\n        let mut tx_state = self.tx_states[txid].lock();\n        if tx_state.status != TransactionStatus::Validating {"),
], ['|L1|'])
mutant('L4-commit-wait-predicate-ignores-abort', ['C05'], [
    (S, "                    !self.is_aborted() && commit_idx >= self.scheduler_ctx.finality_idx()\n", "                    commit_idx >= self.scheduler_ctx.finality_idx()\n"),
], ['|L4|'])
mutant('L4-next-ignores-abort', ['C05'], [
    (S, "        while !self.scheduler_ctx.finished() && !self.is_aborted() {", "        while !self.scheduler_ctx.finished() {"),
], ['|L4|'])
mutant('L6-worker-without-cancel-guard', ['C05'], [
    (S, "                    workers.push(scope.spawn(|| {\n                        let _cancel = self.cancel_on_panic();", "                    workers.push(scope.spawn(|| {\n                        let _ = self.cancel_on_panic();"),
], ['|L6|'])
mutant('L6-generic-panic-instead-of-payload', ['C05'], [
    (S, "                if let Some(panic) = thread_panic {\n                    resume_unwind(panic);\n                }", "                if thread_panic.is_some() {\n                    panic!(\"scheduler thread panicked\");\n                }"),
], ['|L6|'])
mutant('L3-stale-incarnation-returns-without-abort', ['C05'], [
    (S, "                if !history_published {\n                    self.abort(AbortReason::ParallelError {\n                        txid,\n                        message: \"stale beneficiary history publication\",\n                    });\n                    return None;\n                }", "                if !history_published {\n                    return None;\n                }"),
], ['|L3|', '|B7|'])
mutant('L7-executed-not-published-on-conflict', ['C05'], [
    (S, "        self.scheduler_ctx.executed(txid);\n", "        if !conflict {\n            self.scheduler_ctx.executed(txid);\n        }\n"),
], ['|L7|'])
mutant('L2-mv-guard-live-across-reentrant-access', ['C05'], [
    (S, "            if let Some(mut written_transactions) = self.mv_memory.get_mut(location) &&\n                let Some(entry) = written_transactions.get_mut(&txid)\n            {\n                entry.estimate = true;\n            }", "            if let Some(mut written_transactions) = self.mv_memory.get_mut(location) &&\n                let Some(entry) = written_transactions.get_mut(&txid)\n            {\n                entry.estimate = self.mv_memory.contains_key(location);\n            }"),
], ['|L2|'])
mutant('L2-transaction-lock-held-across-the-handoff-claim', ['C05'], [
    (S, "            self.scheduler_ctx.rewind_validation_to(txid);\n            drop(tx_state);\n            return self.execution_task(next);", "            self.scheduler_ctx.rewind_validation_to(txid);\n            return self.execution_task(next);"),
], ['|L2|'])

mutant('N1-timestamp-before-tx-lock', ['C05', 'C02', 'C15'], [
    (S, "        let ts = self.scheduler_ctx.logical_timestamp();\n", ""),
    (S, "        let incarnation = tx_version.incarnation;\n        let mut tx_state = self.tx_states[txid].lock();\n        let tx_result = self.tx_results[txid].lock();\n        if tx_state.status != TransactionStatus::Validating {", "        let incarnation = tx_version.incarnation;\n        let ts = self.scheduler_ctx.logical_timestamp();\n        let mut tx_state = self.tx_states[txid].lock();\n        let tx_result = self.tx_results[txid].lock();\n        if tx_state.status != TransactionStatus::Validating {"),
], ['|N1|'])

mutant('PAIR-publish-commit-writes-finality-cursor', ['C02', 'C15'], [
    (CX, "    pub(super) fn publish_commit(&self, index: usize) {\n        self.committed.publish(index);", "    pub(super) fn publish_commit(&self, index: usize) {\n        self.finality.publish(index);"),
], ['|PAIR|'])
mutant('PAIR-unconfirmed-timestamp-reads-lower', ['C02', 'C15'], [
    (CX, "        self.unconfirmed_timestamps[index].load(Ordering::Acquire)", "        self.lower_timestamps[index].load(Ordering::Acquire)"),
], ['|PAIR|'])
mutant('PAIR-is-blocked-uses-beneficiary-flag', ['C01'], [
    (I, "        !self.blocking_txs.is_empty()\n    }\n}\n\nimpl<'a, DB> IncarnationDb", "        self.blocked_by_beneficiary\n    }\n}\n\nimpl<'a, DB> IncarnationDb"),
], ['|PAIR|'])
mutant('X6-finish-on-error-result', ['C01', 'C02'], [
    (EX, "            Ok(result) => self.evm.db_mut().finish_incarnation(result.state()),\n            Err(_) => self.evm.db_mut().discard_incarnation(),", "            Ok(result) => self.evm.db_mut().finish_incarnation(result.state()),\n            Err(_) => self.evm.db_mut().finish_incarnation(&Default::default()),"),
], ['|X6|'])
mutant('X6-begin-does-not-set-version', ['C01'], [
    (I, "        self.version = version;\n        self.read_set.clear();", "        let _ = version;\n        self.read_set.clear();"),
], ['|X6|'])
mutant('X6-record-execution-forwards-wrong-account', ['C07'], [
    ('src/beneficiary.rs', "        let account = result.state().get(&self.address);\n        assert!(", "        let account = result.state().values().next();\n        assert!("),
], ['|X6|'])
mutant('T4-empty-account-classified-loaded', ['C10'], [
    (PS, "        let info = self.with_metrics(|| self.database.basic_ref(address))?;\n        let account = match info {\n            None => CacheAccountInfo::new(None, AccountStatus::LoadedNotExisting),\n            Some(acc) if acc.is_empty() => CacheAccountInfo::new(\n                Some(AccountInfo::default()),\n                AccountStatus::LoadedEmptyEIP161,\n            ),\n            Some(acc) => CacheAccountInfo::new(Some(acc), AccountStatus::Loaded),\n        };\n        match self.cache.accounts.entry(address) {\n            Entry::Vacant(entry) => Ok(entry.insert(account).account.clone()),", "        let info = self.with_metrics(|| self.database.basic_ref(address))?;\n        let account = match info {\n            None => CacheAccountInfo::new(None, AccountStatus::LoadedNotExisting),\n            Some(acc) => CacheAccountInfo::new(Some(acc), AccountStatus::Loaded),\n        };\n        match self.cache.accounts.entry(address) {\n            Entry::Vacant(entry) => Ok(entry.insert(account).account.clone()),"),
], ['|T4|'])
mutant('T4-storage-known-ignores-missing-account', ['C10'], [
    (PS, "                account.status.is_storage_known() || account.account.is_none()", "                account.status.is_storage_known()"),
], ['|T4|'])

mutant('H4-undo-credit-added-instead-of-removed', ['C13'], [
    (RS, "                } else if *to == address && *from != address {\n                    balance = balance.saturating_sub(*value);", "                } else if *to == address && *from != address {\n                    balance = balance.saturating_add(*value);"),
], ['|H4|'])
mutant('H4-destroyed-target-ignored', ['C13'], [
    (RS, "                } else if *target == address {\n                    balance = balance.saturating_sub(*had_balance);\n                }", "                }"),
], ['|H4|'])
mutant('H4-root-transfer-ignores-amount', ['C13'], [
    (RS, "    if *from != tx.caller || *balance != tx.value {", "    if *from != tx.caller {"),
], ['|H4|'])
mutant('H4-self-transfer-counted-as-debit', ['C13'], [
    (RS, "                    if from != to && !balance.is_zero() =>", "                    if !balance.is_zero() =>"),
], ['|H4|'])

mutant('L8-worker-exits-after-empty-task', ['C05'], [
    (S, "            if task.is_none() && !self.is_aborted() {\n                task = self.next();\n            }\n", ""),
], ['|L8|'])
mutant('L8-next-gives-up-when-cursor-exhausted', ['C05'], [
    (S, "            if let Some(execute_id) = self.tx_dependency.next() &&\n                let Some(task) = self.execution_task(execute_id)\n            {\n                return Some(task);\n            }\n        }\n        None", "            if let Some(execute_id) = self.tx_dependency.next() &&\n                let Some(task) = self.execution_task(execute_id)\n            {\n                return Some(task);\n            }\n            if self.tx_dependency.index() >= self.block_size && self.scheduler_ctx.validation_idx() >= self.block_size {\n                return None;\n            }\n        }\n        None"),
], ['|L8|'])
mutant('X7-conflict-from-beneficiary-flag-only', ['C01', 'C02'], [
    (S, "                conflict = accesses.is_blocked();\n                let IncarnationAccesses {", "                conflict = accesses.blocked_by_beneficiary;\n                let IncarnationAccesses {"),
], ['|X7|'])
mutant('D2-zero-slot-values-not-published', ['C01', 'C08'], [
    (I, "            for (slot, value) in account.changed_storage_slots() {\n                self.publish_value(", "            for (slot, value) in account.changed_storage_slots() {\n                if value.present_value.is_zero() && created {\n                    continue;\n                }\n                self.publish_value("),
], ['|D2|'])
mutant('W1-mark-only-current-incarnation', ['C01', 'C02'], [
    (S, "            {\n                entry.estimate = true;\n            }", "            {\n                if entry.incarnation > 0 {\n                    entry.estimate = true;\n                }\n            }"),
], ['|W1|'])
mutant('N8-next-does-not-revalidate-unconfirmed', ['C01', 'C02'], [
    (S, "                    TransactionStatus::Executed | TransactionStatus::Unconfirmed => {", "                    TransactionStatus::Executed => {"),
], ['|N8|'])

mutant('X6-finalize-only-on-success', ['C01', 'C11'], [
    (EX, "        let state = self.evm.finalize();\n        let result = output.map(|output| output.into_speculative(state));", "        let result = output.map(|output| output.into_speculative(self.evm.finalize()));"),
], ['|X6|', '|G2|'])

mutant('PAIR-logical-clock-starts-at-zero', ['C02', 'C15'], [
    (CX, "            logical_clock: AtomicUsize::new(1),", "            logical_clock: AtomicUsize::new(0),"),
], ['|PAIR|'])
mutant('PAIR-history-validation-compares-only-newest-origin', ['C07'], [
    (HI, "        BeneficiaryValidation { valid: self.version == *expected, dependency }", "        BeneficiaryValidation { valid: dependency == expected.latest_dependency(), dependency }"),
], ['|PAIR|'])
mutant('PAIR-blocked-history-validation-is-valid', ['C07'], [
    (HI, "            Err(blocker) => BeneficiaryValidation { valid: false, dependency: Some(blocker) },", "            Err(blocker) => BeneficiaryValidation { valid: true, dependency: Some(blocker) },"),
], ['|PAIR|'])
mutant('PAIR-commit-output-end-off-by-one', ['C02'], [
    (OC, "        CommittedPrefixEnd::new(self.outcomes.len())", "        CommittedPrefixEnd::new(self.outcomes.len().saturating_sub(1))"),
], ['|PAIR|'])
mutant('PAIR-into-commit-parts-drops-reward', ['C07', 'C02'], [
    ('src/beneficiary.rs', "        (self.result_and_state, self.deferred_reward)", "        (self.result_and_state, None)"),
], ['|PAIR|'])
mutant('PAIR-dependent-state-starts-offboard', ['C01'], [
    (T, "        Self { onboard: true, dependency: None }", "        Self { onboard: false, dependency: None }"),
], ['|PAIR|'])
mutant('T5-merge-ignores-retention', ['C10'], [
    (PS, "            self.bundle_state.apply_transitions_and_create_reverts(transition_state, retention);", "            let _ = retention;\n            self.bundle_state.apply_transitions_and_create_reverts(transition_state, BundleRetention::PlainState);"),
], ['|T5|'])
mutant('T5-zero-increment-creates-transition', ['C10'], [
    (PS, "            if balance == 0 {\n                continue;\n            }\n            let mut account = self.load_mut_cache_account(address)?;", "            let mut account = self.load_mut_cache_account(address)?;"),
], ['|T5|'])

mutant('N10-commit-uses-wrong-tx-env', ['C02'], [
    (S, "committer.commit(commit_idx, &self.txs[commit_idx], result, &mut output);", "committer.commit(commit_idx, &self.txs[commit_idx.saturating_sub(1)], result, &mut output);"),
], ['|N10|'])

mutant('WHO-worker-advances-commit-cursor', ['C02'], [
    (S, "        self.scheduler_ctx.executed(txid);\n", "        self.scheduler_ctx.executed(txid);\n        if txid == 0 && !conflict && self.block_size == 1 {\n            self.scheduler_ctx.publish_commit(0);\n        }\n"),
], ['|WHO|'])
mutant('WHO-next-clears-tx-results', ['C02'], [
    (S, "                        tx.status = TransactionStatus::Validating;\n                        return Some(Task::Validation(TxVersion::new(\n                            validation_idx,", "                        tx.status = TransactionStatus::Validating;\n                        if tx.incarnation > 1_000_000 {\n                            let _ = self.tx_results[validation_idx].lock().take();\n                        }\n                        return Some(Task::Validation(TxVersion::new(\n                            validation_idx,"),
], ['|WHO|'])

mutant('W3-head-test-hoisted-before-lock', ['C17', 'C05'], [
    (S, "        let incarnation = tx_version.incarnation;\n        let mut tx_state = self.tx_states[txid].lock();\n        let tx_result = self.tx_results[txid].lock();\n        if tx_state.status != TransactionStatus::Validating {", "        let incarnation = tx_version.incarnation;\n        let at_finality_head = txid == self.scheduler_ctx.finality_idx();\n        let mut tx_state = self.tx_states[txid].lock();\n        let tx_result = self.tx_results[txid].lock();\n        if tx_state.status != TransactionStatus::Validating {"),
    (S, "        drop(tx_state);\n        if txid == self.scheduler_ctx.finality_idx() {\n            self.finality_wait.notify();\n        }\n        None", "        drop(tx_state);\n        if at_finality_head {\n            self.finality_wait.notify();\n        }\n        None"),
], ['|W3|'])
mutant('V1-vanished-writer-arm-dropped', ['C01'], [
    (S, "                    } else {\n                        conflict = true;\n                    }\n                } else if !matches!(version, ReadVersion::Storage) {\n                    conflict = true;\n                }\n            } else if", "                    } else {\n                        conflict = true;\n                    }\n                }\n            } else if"),
], ['|V1|'])

mutant('L4-abort-flag-cached-outside-commit-loop', ['C05'], [
    (S, "        let mut commit_idx = 0;\n        while !self.is_aborted() && commit_idx < self.block_size {", "        let mut commit_idx = 0;\n        let aborted = self.is_aborted();\n        while !aborted && commit_idx < self.block_size {"),
], ['|L4|'])

benign('B-helper-extracted-from-validate-conflict-tail', ['C02', 'C07'], [
    (S, """        if conflict {
            self.metrics.record_version_conflict();
            // Readers must not validate against writes produced by an invalid incarnation.
            self.mark_mv_estimate(txid, &result.write_set);
            if !beneficiary.invalidate(&tx_version) {
                self.abort(AbortReason::ParallelError {
                    txid,
                    message: "stale beneficiary history validation",
                });
                return None;
            }
        }
""", """        if conflict && !self.invalidate_incarnation(beneficiary, &tx_version, &result.write_set) {
            return None;
        }
"""),
    (S, """    fn latest_unfinalized_blocker(&self, blockers: &HashSet<TxId>) -> Option<TxId> {""", """    fn invalidate_incarnation(
        &self,
        beneficiary: &Beneficiary,
        tx_version: &TxVersion,
        write_set: &HashSet<LocationAndType>,
    ) -> bool {
        self.metrics.record_version_conflict();
        // Readers must not validate against writes produced by an invalid incarnation.
        self.mark_mv_estimate(tx_version.txid, write_set);
        if !beneficiary.invalidate(tx_version) {
            self.abort(AbortReason::ParallelError {
                txid: tx_version.txid,
                message: "stale beneficiary history validation",
            });
            return false;
        }
        true
    }

    fn latest_unfinalized_blocker(&self, blockers: &HashSet<TxId>) -> Option<TxId> {"""),
])
benign('B-helper-extracted-stale-write-removal', ['C02', 'C01'], [
    (S, """                    for location in &last_result.write_set {
                        if !write_set.contains(location) &&
                            let Some(mut written_transactions) = self.mv_memory.get_mut(location)
                        {
                            written_transactions.remove(&txid);
                        }
                    }
""", """                    self.remove_stale_writes(txid, &last_result.write_set, &write_set);
"""),
    (S, """    fn latest_unfinalized_blocker(&self, blockers: &HashSet<TxId>) -> Option<TxId> {""", """    fn remove_stale_writes(
        &self,
        txid: TxId,
        previous: &HashSet<LocationAndType>,
        current: &HashSet<LocationAndType>,
    ) {
        for location in previous {
            if !current.contains(location) &&
                let Some(mut written_transactions) = self.mv_memory.get_mut(location)
            {
                written_transactions.remove(&txid);
            }
        }
    }

    fn latest_unfinalized_blocker(&self, blockers: &HashSet<TxId>) -> Option<TxId> {"""),
])
benign('B-helper-extracted-publish-committed', ['C02', 'C16', 'C05'], [
    (S, """                        self.scheduler_ctx.publish_commit(next_commit_idx);
                        // Publish committed state before releasing work that may require it.
                        self.tx_dependency.commit(commit_idx);
""", """                        self.publish_committed(commit_idx, next_commit_idx);
"""),
    (S, """    fn latest_unfinalized_blocker(&self, blockers: &HashSet<TxId>) -> Option<TxId> {""", """    fn publish_committed(&self, commit_idx: TxId, next_commit_idx: TxId) {
        self.scheduler_ctx.publish_commit(next_commit_idx);
        // Publish committed state before releasing work that may require it.
        self.tx_dependency.commit(commit_idx);
    }

    fn latest_unfinalized_blocker(&self, blockers: &HashSet<TxId>) -> Option<TxId> {"""),
])

benign('B-helper-extracted-status-setter', ['C02', 'C05'], [
    (S, "                        tx.status = TransactionStatus::Validating;\n                        return Some(Task::Validation(TxVersion::new(\n                            validation_idx,", "                        Self::mark_validating(&mut tx);\n                        return Some(Task::Validation(TxVersion::new(\n                            validation_idx,"),
    (S, "    fn latest_unfinalized_blocker(&self, blockers: &HashSet<TxId>) -> Option<TxId> {", "    fn mark_validating(tx: &mut TxState) {\n        tx.status = TransactionStatus::Validating;\n    }\n\n    fn latest_unfinalized_blocker(&self, blockers: &HashSet<TxId>) -> Option<TxId> {"),
])


# ------------------------------------------------------------------------------------------------
# behaviour-preserving refactors written by independent sub-agents (20-40 edits each: helper
# extraction, match <-> combinator, early returns, renames, reordered pure statements, added tracing).
# Every property must stay silent on them, and defects seeded ON TOP of them must still be reported.
ALLP = ['C%02d' % i for i in range(1, 18)]
for _r in ('R1', 'R2', 'R3', 'R4', 'R5', 'R6', 'S1', 'S2', 'S3', 'S4', 'S5', 'S6', 'T3', 'T1', 'T2', 'G1', 'U1', 'U2', 'U3'):
    benign(f'B-refactor-{_r}', ALLP, [], patch=f'sa/benign/{_r}.diff')

IDB = 'src/incarnation_db.rs'
mutant_on('sa/benign/T1.diff', 'T1+storage-read-with-vanished-writer-accepted', ['C01'], [
    (S, "                } else if *version != ReadVersion::Storage {\n                    verdict.conflict = true;\n                }\n            } else if", "                }\n            } else if"),
], ['|V1|'])
mutant_on('sa/benign/T1.diff', 'T1+beneficiary-invalid-not-a-conflict', ['C07'], [
    (S, "                if !validation.is_valid() {\n                    verdict.conflict = true;\n                }\n", "                let _ = validation.is_valid();\n"),
], ['|V1|'])
mutant_on('sa/benign/T2.diff', 'T2+storage-gt-instead-of-ge', ['C08'], [
    (IDB, "(Some(write), Some(reset_txid)) if write.txid >= reset_txid => {", "(Some(write), Some(reset_txid)) if write.txid > reset_txid => {"),
], ['|D3|'])
mutant_on('sa/benign/T2.diff', 'T2+estimate-flag-not-forwarded', ['C01'], [
    (IDB, "let mut publication = Publication { estimate, write_set: &mut write_set };", "let mut publication = Publication { estimate: false, write_set: &mut write_set };"),
], ['|D2|'])
mutant_on('sa/benign/T2.diff', 'T2+publish-ignores-context-estimate', ['C01'], [
    (IDB, "MemoryEntry::new(self.version.incarnation, value, out.estimate),", "MemoryEntry::new(self.version.incarnation, value, false),"),
], ['|W1|'])
mutant_on('sa/benign/G1.diff', 'G1+replay-evaluated-before-the-election-result', ['C14'], [
    ('src/scheduler/fallback.rs', "        let _lifecycle = self.begin_execution()?;\n        self.replay_uncommitted_suffix(CommittedPrefixEnd::ZERO)", "        self.begin_execution().and(self.replay_uncommitted_suffix(CommittedPrefixEnd::ZERO))"),
], ['|O2|'])
mutant_on('sa/benign/G1.diff', 'G1+weak-election', ['C14'], [
    ('src/scheduler/control.rs', "self.started.compare_exchange(false, true, Ordering::Relaxed, Ordering::Relaxed)", "self.started.compare_exchange_weak(false, true, Ordering::Relaxed, Ordering::Relaxed)"),
], ['|O2|'])
mutant_on('sa/benign/G1.diff', 'G1+election-result-ignored', ['C14'], [
    ('src/scheduler/fallback.rs', "        let _lifecycle = self.begin_execution()?;\n", "        let _lifecycle = self.begin_execution();\n"),
], ['|O2|'])
mutant_on('sa/benign/U1.diff', 'U1+suffix-sum-not-stored', ['C13'], [
    ('src/delegated_safety/reserve.rs', "            *slot = suffix;\n", "            let _ = slot;\n"),
], ['|H6|'])
mutant_on('sa/benign/U2.diff', 'U2+stale-incarnation-overwrites-history-entry', ['C07'], [
    ('src/beneficiary/history.rs', "        let is_newer = incarnation > state.incarnation;\n        if is_newer {", "        let is_newer = incarnation > state.incarnation;\n        if is_newer || incarnation == state.incarnation {"),
], ['|B8|'])
mutant_on('sa/benign/U3.diff', 'U3+nonce-overflow-case-commits', ['C03'], [
    ('src/scheduler/ordered_commit.rs', "        Ok(!nonce_overflows && tx_env.nonce == committed_nonce)", "        let _ = nonce_overflows;\n        Ok(tx_env.nonce == committed_nonce)"),
], ['|S2|'])
mutant_on('sa/benign/R3.diff', 'R3+storage-gt-instead-of-ge', ['C08'], [
    (IDB, "(Some((slot_txid, value)), Some(reset_txid)) if slot_txid >= reset_txid => Ok(value),", "(Some((slot_txid, value)), Some(reset_txid)) if slot_txid > reset_txid => Ok(value),"),
], ['|D3|'])
mutant_on('sa/benign/R3.diff', 'R3+code-compare-inverted', ['C09'], [
    (IDB, "account_snapshot.is_none_or(|basic| basic.code_hash != Some(info.code_hash)).then_some(code)", "account_snapshot.is_none_or(|basic| basic.code_hash == Some(info.code_hash)).then_some(code)"),
], ['|D2|'])
mutant_on('sa/benign/R3.diff', 'R3+basic-read-not-recorded', ['C01'], [
    (IDB, "            self.account_snapshots.insert(address, snapshot);\n        }\n        self.read_set.insert(location, read_version);\n        Ok(account)", "            self.account_snapshots.insert(address, snapshot);\n        }\n        let _ = (location, read_version);\n        Ok(account)"),
], ['|R1|'])
mutant_on('sa/benign/R1.diff', 'R1+new-location-test-inverted', ['C02'], [
    (S, ".any(|location| !previous_result.write_set.contains(location))", ".any(|location| previous_result.write_set.contains(location))"),
], ['|N4|'])
mutant_on('sa/benign/R2.diff', 'R2+election-inverted', ['C14'], [
    ('src/scheduler/control.rs', "        if elected.is_err() {", "        if elected.is_ok() {"),
], ['|O2|'])
mutant_on('sa/benign/R4.diff', 'R4+absent-previous-info-counts-as-empty', ['C10'], [
    ('src/parallel_state.rs', "previous_info.as_ref().is_some_and(AccountInfo::has_no_code_and_nonce)", "previous_info.as_ref().is_none_or(AccountInfo::has_no_code_and_nonce)"),
], ['|SIB|'])
mutant_on('sa/benign/R5.diff', 'R5+nonce-too-low-commits', ['C03'], [
    ('src/scheduler/ordered_commit.rs', "            Ordering::Equal => Ok(true),\n", "            Ordering::Equal | Ordering::Less => Ok(true),\n"),
    ('src/scheduler/ordered_commit.rs', "            Ordering::Greater | Ordering::Less => {", "            Ordering::Greater => {"),
], ['|S2|'])
mutant_on('sa/benign/R6.diff', 'R6+designator-test-dropped', ['C13'], [
    ('src/delegated_safety/reserve.rs', "                if has_delegation_designator(&source) {", "                if has_delegation_designator(&source) || true {"),
], ['|H4|'])
mutant_on('sa/benign/R6.diff', 'R6+guard-arms-swapped', ['C12'], [
    ('src/delegated_safety/instructions.rs', "        Some(_) => Err(InstructionResult::NotActivated),\n        None => contract::create::<IS_CREATE2, WIRE, H>(context),", "        None => Err(InstructionResult::NotActivated),\n        Some(_) => contract::create::<IS_CREATE2, WIRE, H>(context),"),
], ['|Q1|'])

# renamed private methods (rewind_validation_to -> rewind_validation_cursor_to, lock_finality_candidate ->
# try_lock_next_final): the rename is recognised and canonicalised (sa/py/aliases.py), so nothing fires, and a
# defect inside / around the renamed functions is still reported
benign('B-rename-RN1', ALLP, [], patch='sa/benign/RN1.diff')
mutant_on('sa/benign/RN1.diff', 'RN1+rewind-uses-second-tick', ['C15'], [
    (CX, "self.lower_timestamps[index].fetch_max(timestamp, Ordering::AcqRel);", "let _ = timestamp;\n        self.lower_timestamps[index].fetch_max(self.logical_clock.load(Ordering::Acquire), Ordering::AcqRel);"),
], ['|U2|'])
mutant_on('sa/benign/RN1.diff', 'RN1+validate-conflict-without-rewind', ['C02'], [
    (S, "            self.scheduler_ctx.rewind_validation_cursor_to(txid + 1);\n            TransactionStatus::Conflict", "            TransactionStatus::Conflict"),
], ['|N'])
# a renamed private field (SchedulerContext.lower_timestamps -> validated_floor_ts)
benign('B-rename-RN2-field', ALLP, [], patch='sa/benign/RN2.diff')
mutant_on('sa/benign/RN2.diff', 'RN2+rewind-uses-second-tick', ['C15'], [
    (CX, "self.validated_floor_ts[index].fetch_max(timestamp, Ordering::AcqRel);", "let _ = timestamp;\n        self.validated_floor_ts[index].fetch_max(self.logical_clock.load(Ordering::Acquire), Ordering::AcqRel);"),
], ['|U2|'])
# renamed private types (HistoryScan -> ScanOutcome, TransactionStatus -> TxPhase)
benign('B-rename-RN3-types', ALLP, [], patch='sa/benign/RN3.diff')
mutant_on('sa/benign/RN3.diff', 'RN3+next-accepts-finality', ['C02'], [
    (S, "                    TxPhase::Executed | TxPhase::Unconfirmed => {", "                    TxPhase::Executed | TxPhase::Unconfirmed | TxPhase::Finality => {"),
], ['|N8|'])

PS = 'src/parallel_state.rs'
mutant('T6-occupied-arm-drops-slots', ['C10', 'C08'], [
    (PS, """                Entry::Occupied(entry) => {
                    for (slot, value) in storage.into_iter() {
                        entry.get().insert(slot, value);
                    }
                }""", """                Entry::Occupied(entry) => {
                    let _ = (entry, storage);
                }"""),
], ['|T6|'])
mutant('T6-fresh-map-never-installed', ['C10'], [
    (PS, "                    entry.insert(new_storage);\n", "                    drop(entry);\n"),
], ['|T6|'])
mutant('T6-slot-written-as-value', ['C10'], [
    (PS, "            for (slot, value) in storage {\n                slots.insert(slot, value);", "            for (slot, value) in storage {\n                slots.insert(value, slot);"),
], [])
mutant('T7-transition-dropped-for-first-account', ['C10'], [
    (PS, "            if let Some(transition) = self.apply_account_state(address, account) {\n                transitions.push((address, transition));\n            }",
         "            if let Some(transition) = self.apply_account_state(address, account) &&\n                !transitions.is_empty()\n            {\n                transitions.push((address, transition));\n            }"),
], ['|T7|'])
benign('T6-entry-first', ['C10', 'C08'], [
    (PS, """        if let Some(slots) = self.storage.get(&address) {
            for (slot, value) in storage {
                slots.insert(slot, value);
            }
        } else {
            match""", """        {
            match"""),
])
benign('T7-extra-trace', ['C10'], [
    (PS, "                transitions.push((address, transition));\n", "                tracing::trace!(target: \"grevm\", ?address, \"transition\");\n                transitions.push((address, transition));\n"),
])

# ---- loop-control exactness (LC): survivors of the mechanical mutation sweep turned into rules
mutant('LC1-finality-starts-at-1', ['C02', 'C05'], [(S, "        let mut finality_idx = 0;\n", "        let mut finality_idx = 1;\n")], ['|LC1|'])
mutant('LC1-lower-ts-starts-at-1', ['C05'], [(S, "        let mut lower_ts = 0;\n", "        let mut lower_ts = 1;\n")], ['|LC1|'])
mutant('LC1-finality-loop-le-block-size', ['C05'], [(S, "while !self.is_aborted() && finality_idx < self.block_size {", "while !self.is_aborted() && finality_idx <= self.block_size {")], ['|LC1|'])
mutant('LC1-finality-loop-abort-polarity', ['C05'], [(S, "while !self.is_aborted() && finality_idx < self.block_size {", "while self.is_aborted() && finality_idx < self.block_size {")], [])
mutant('LC1-finality-loop-or', ['C05'], [(S, "while !self.is_aborted() && finality_idx < self.block_size {", "while !self.is_aborted() || finality_idx < self.block_size {")], [])
mutant('LC1-finality-cursor-not-advanced', ['C05', 'C02'], [(S, "                finality_idx = next_finality_idx;\n", "")], ['|LC1|'])
mutant('LC2-commit-starts-at-1', ['C02'], [(S, "        let mut commit_idx = 0;\n", "        let mut commit_idx = 1;\n")], ['|LC2|'])
mutant('LC2-commit-loop-le-block-size', ['C05'], [(S, "while !self.is_aborted() && commit_idx < self.block_size {", "while !self.is_aborted() && commit_idx <= self.block_size {")], ['|LC2|'])
mutant('LC2-commit-cursor-not-advanced', ['C02', 'C05'], [(S, "                        commit_idx = next_commit_idx;\n", "")], ['|LC2|'])
mutant('LC3-finality-sleeps-on-candidate', ['C05'], [(S, "self.lock_finality_candidate(finality_idx, lower_ts).is_none()\n", "self.lock_finality_candidate(finality_idx, lower_ts).is_some()\n")], ['|LC3|'])
mutant('LC3-commit-sleeps-on-work', ['C05'], [(S, "!self.is_aborted() && commit_idx >= self.scheduler_ctx.finality_idx()", "!self.is_aborted() && commit_idx <= self.scheduler_ctx.finality_idx()")], ['|LC3|'])
benign('LC3-commit-spins-when-level', ['C05', 'C02'], [(S, "!self.is_aborted() && commit_idx >= self.scheduler_ctx.finality_idx()", "!self.is_aborted() && commit_idx > self.scheduler_ctx.finality_idx()")])
mutant('LC4-follow-up-overwritten', ['C05'], [(S, "if task.is_none() && !self.is_aborted() {", "if task.is_none() || !self.is_aborted() {")], ['|LC4|'])
mutant('LC4-next-only-when-some', ['C05'], [(S, "if task.is_none() && !self.is_aborted() {", "if task.is_some() && !self.is_aborted() {")], [])
mutant('LC5-execute-stale-test-inverted', ['C05', 'C02'], [(S, """        if tx_state.incarnation != incarnation {
            self.abort(AbortReason::ParallelError {
                txid,
                message: "inconsistent incarnation during execution",""", """        if tx_state.incarnation == incarnation {
            self.abort(AbortReason::ParallelError {
                txid,
                message: "inconsistent incarnation during execution",""")], ['|LC5|'])
mutant('LC9-finality-probe-uses-try_lock', ['C17', 'C05'], [
    (S, "        let tx_state = self.tx_states[finality_idx].lock();\n        if tx_state.status != TransactionStatus::Unconfirmed {", "        let tx_state = self.tx_states[finality_idx].try_lock()?;\n        if tx_state.status != TransactionStatus::Unconfirmed {"),
], ['|LC9|'])
mutant('L4-claim-loop-ignores-finished', ['C05'], [
    (S, "        while !self.scheduler_ctx.finished() && !self.is_aborted() {\n            if !self.scheduler_ctx.should_schedule", "        while !self.is_aborted() {\n            if !self.scheduler_ctx.should_schedule"),
], ['|L4|'])
mutant('N2-marks-estimates-on-successful-validation', ['C05', 'C02'], [
    (S, "        if conflict {\n            self.metrics.record_version_conflict();", "        if true {\n            self.metrics.record_version_conflict();"),
], ['|N2|'])
mutant('S2-commit-nonce-overflow-case-dropped', ['C03'], [
    ('src/scheduler/ordered_commit.rs', "                    if tx_env.nonce == u64::MAX && expect == u64::MAX {", "                    if false {"),
], ['|S2|'])
mutant('D2-deleted-account-never-publishes-basic-none', ['C08', 'C01'], [
    ('src/incarnation_db.rs', "                    if !self.beneficiary.matches(*address) {", "                    if false {"),
], ['|D2|'])
mutant('R6-every-storage-writer-registered-as-blocker', ['C05'], [
    ('src/incarnation_db.rs', "            slot_version = ReadVersion::MvMemory(TxVersion::new(txid, entry.incarnation));", "            self.blocking_txs.insert(txid);\n            slot_version = ReadVersion::MvMemory(TxVersion::new(txid, entry.incarnation));"),
], ['|R6|'])
mutant('LC3-predicate-probes-with-swapped-arguments', ['C17', 'C05'], [
    (S, "                        self.lock_finality_candidate(finality_idx, lower_ts).is_none()", "                        self.lock_finality_candidate(lower_ts, finality_idx).is_none()"),
], ['|LC3|'])
mutant('U1-cursor-abstraction-swaps-current-and-new', ['C15'], [
    ('src/scheduler/cursor.rs', "        AtomicUsize::compare_exchange_weak(self, current, new, success, failure)", "        AtomicUsize::compare_exchange_weak(self, new, current, success, failure)"),
], ['|U1|'])
mutant('P2-facade-sstore-swaps-key-and-value', ['C11'], [
    ('src/precompile.rs', "        match self.internals.sstore(address, key, value) {", "        match self.internals.sstore(address, value, key) {"),
], ['|P2|'])
mutant('P2-facade-set-balance-writes-zero', ['C11'], [
    ('src/precompile.rs', "            Ok(load) => return Ok(load.map(|mut account| account.set_balance(balance))),", "            Ok(load) => return Ok(load.map(|mut account| account.set_balance(U256::ZERO.min(balance)))),"),
], ['|P2|'])
mutant('N8-next-does-not-validate-executed-claims', ['C05', 'C02'], [
    (S, "                    TransactionStatus::Executed | TransactionStatus::Unconfirmed => {", "                    TransactionStatus::Unconfirmed => {"),
], ['|N8|'])
mutant('D2-created-account-publishes-reset-marker-last', ['C08'], [
    ('src/incarnation_db.rs', "            if created {\n                self.publish_storage_reset(*address, estimate, &mut write_set);\n            }\n\n            let account_snapshot", "            let account_snapshot"),
    ('src/incarnation_db.rs', "                    &mut write_set,\n                );\n            }\n        }\n\n        write_set", "                    &mut write_set,\n                );\n            }\n            if created {\n                self.publish_storage_reset(*address, estimate, &mut write_set);\n            }\n        }\n\n        write_set"),
], ['|D2|'])
mutant('V1-commit-skips-successor-when-cursor-is-behind', ['C16', 'C05'], [
    ('src/tx_dependency.rs', "        if next < self.num_txs {\n            let mut state = self.dependent_state[next].lock();\n            if state.onboard {", "        if next < self.num_txs && self.index.load(Ordering::Relaxed) > next {\n            let mut state = self.dependent_state[next].lock();\n            if state.onboard {"),
], ['|V1|'])
mutant('V1-next-skips-a-claimable-slot', ['C16', 'C05'], [
    ('src/tx_dependency.rs', "        if state.onboard && state.dependency.is_none() {\n            state.onboard = false;", "        if state.onboard && state.dependency.is_none() && std::hint::black_box(true) {\n            state.onboard = false;"),
], ['|V1|'])
mutant('V1-remove-keeps-a-dependant-that-names-it', ['C16', 'C05'], [
    ('src/tx_dependency.rs', "            if dependent.dependency == Some(txid) {", "            if dependent.dependency == Some(txid) && std::hint::black_box(true) {"),
], ['|V1|'])
mutant('X1-previous-write-set-not-scanned', ['C01', 'C08'], [
    (S, "                if let Some(last_result) = last_result.as_ref() {\n                    for location in write_set.iter() {", "                if let Some(last_result) = last_result.as_ref() && std::hint::black_box(true) {\n                    for location in write_set.iter() {"),
], ['|X1|'])
mutant('L6-guard-cancels-only-sometimes', ['C05'], [
    (S, "        if thread::panicking() {\n            self.scheduler.cancel();", "        if thread::panicking() && std::hint::black_box(true) {\n            self.scheduler.cancel();"),
], ['|L6|'])
mutant('S4-head-error-parked-instead-of-reported', ['C04', 'C05'], [
    (S, "                    if started_at_commit_head {", "                    if started_at_commit_head && std::hint::black_box(true) {"),
], ['|S4|'])
mutant('T9-commit-drops-its-transitions-sometimes', ['C10'], [
    ('src/parallel_state.rs', "        let transitions = self.shared.cache.apply_evm_state_inner(evm_state);\n        if let Some(state) = self.transition_state.as_mut() {", "        let transitions = self.shared.cache.apply_evm_state_inner(evm_state);\n        if let Some(state) = self.transition_state.as_mut() && std::hint::black_box(true) {"),
], ['|T9|'])
mutant('H4-incoming-transfer-not-always-undone', ['C13'], [
    ('src/delegated_safety/reserve.rs', "                } else if *to == address && *from != address {", "                } else if *to == address && *from != address && std::hint::black_box(true) {"),
], ['|H4|'])
mutant('H4-delegated-debit-recorded-only-sometimes', ['C13'], [
    ('src/delegated_safety/reserve.rs', "            if is_delegated {", "            if is_delegated && std::hint::black_box(true) {"),
], ['|H4|'])
mutant('BU-prepared-account-installed-only-sometimes', ['C10'], [
    ('src/bundle.rs', "            if let Some(account) = account {", "            if let Some(account) = account && std::hint::black_box(true) {"),
], ['|BU|'])
mutant('BU-revert-dropped', ['C10'], [
    ('src/bundle.rs', "                if let Some(revert) = account.revert {\n                    reverts.push((account.address, revert));\n                }", "                let _ = account.revert;"),
], ['|BU|'])
mutant('LC5-validate-stale-test-inverted', ['C05'], [(S, """        if tx_state.incarnation != incarnation {
            self.abort(AbortReason::ParallelError {
                txid,
                message: "inconsistent incarnation during validation",""", """        if tx_state.incarnation == incarnation {
            self.abort(AbortReason::ParallelError {
                txid,
                message: "inconsistent incarnation during validation",""")], ['|LC5|'])
mutant('LC6-commit-panic-swallowed', ['C05'], [(S, """                    Err(panic) => {
                        thread_panic = Some(panic);
                        None""", """                    Err(panic) => {
                        drop(panic);
                        None""")], ['|LC6|'])
mutant('LC6-worker-panic-kept-only-after-another', ['C05'], [(S, """                    if let Err(panic) = worker.join() &&
                        thread_panic.is_none()""", """                    if let Err(panic) = worker.join() &&
                        thread_panic.is_some()""")], ['|LC6|'])
mutant('LC7-anchor-fault-reported-at-1', ['C04'], [(S, ".map_err(|e| GrevmError { txid: 0, error: EVMError::Database(e) })?;", ".map_err(|e| GrevmError { txid: 1, error: EVMError::Database(e) })?;")], ['|LC7|'])
benign('LC1-ne-loop-bound', ['C05', 'C02'], [(S, "while !self.is_aborted() && commit_idx < self.block_size {", "while !self.is_aborted() && commit_idx != self.block_size {")])

mutant('W1-notify-filtered-by-flag', ['C17', 'C05'], [
    ('src/scheduler/wait.rs', "    pub(super) fn notify(&self) {\n        if let Some(thread) = self.thread.get() {", "    pub(super) fn notify(&self) {\n        if thread::panicking() {\n            return;\n        }\n        if let Some(thread) = self.thread.get() {"),
], ['|W1|'])
mutant('B4-committed-info-loses-code', ['C09', 'C07'], [
    ('src/scheduler/ordered_commit.rs', ".map_err(|error| GrevmError { txid, error: EVMError::Database(error) })?;\n            let mut account = Account::from(reward.apply_to(info));",
     ".map_err(|error| GrevmError { txid, error: EVMError::Database(error) })?\n                .map(|info| info.without_code());\n            let mut account = Account::from(reward.apply_to(info));"),
], ['|B4|'])

mutant('H4-root-shape-excluded-every-time', ['C13'], [
    ('src/delegated_safety/reserve.rs', "                root_value_pending = false;\n", ""),
], ['root-transfer-excluded-at-most-once'])

# ---- survivors of the mechanical mutation sweep (sa/py/mutsweep.py) that were real breaks and became rules
mutant('SW-incarnation_db-241-del', ['C09', 'C01'], [('src/incarnation_db.rs', '            result = Some(byte_code);\n', '')], ['|R5|'])
mutant('SW-incarnation_db-262-del', ['C01'], [('src/incarnation_db.rs', '                    result = account;\n', '')], ['|R5|'])
mutant('SW-parallel_state-91-1', ['C10', 'C08'], [('src/parallel_state.rs', '        // account should be None after selfdestruct so we can take it.\n        let previous_info = self.account.take();\n', '        // account should be None after selfdestruct so we can take it.\n        let previous_info = self.account.clone();\n')], ['|T8|'])
mutant('SW-parallel_state-139-1', ['C10'], [('src/parallel_state.rs', '        // Set account to None.\n        let previous_info = self.account.take();\n', '        // Set account to None.\n        let previous_info = self.account.clone();\n')], ['|T8|'])
mutant('SW-parallel_state-130-del', ['C10'], [('src/parallel_state.rs', '        self.account = Some(new_info);\n', '')], ['|T8|'])
mutant('SW-parallel_state-176-del', ['C10'], [('src/parallel_state.rs', '        self.account = Some(new);\n', '')], ['|T8|'])
mutant('SW-parallel_state-67-del', ['C10'], [('src/parallel_state.rs', '        self.account = Some(info);\n', '')], ['|T8|'])
mutant('SW-parallel_state-43-del', ['C10'], [('src/parallel_state.rs', '            info.balance = info.balance.saturating_add(U256::from(balance));\n', '')], ['|T8|'])
mutant('SW-parallel_state-54-del', ['C10'], [('src/parallel_state.rs', '            info.balance = U256::ZERO;\n', '')], ['|T8|'])
mutant('SW-parallel_state-337-del', ['C10', 'C09'], [('src/parallel_state.rs', '                self.contracts.entry(info.code_hash).or_insert_with(|| info.code.clone().unwrap());\n', '')], ['|T8|'])
mutant('SW-parallel_state-338-1', ['C10'], [('src/parallel_state.rs', '                self.contracts.entry(info.code_hash).or_insert_with(|| info.code.clone().unwrap());\n                (Some(transition), Some(changed_slots))\n', '                self.contracts.entry(info.code_hash).or_insert_with(|| info.code.clone().unwrap());\n                (None, Some(changed_slots))\n')], ['|T8|'])
mutant('SW-parallel_state-355-2', ['C10'], [('src/parallel_state.rs', '                    self.get_account_mut(address).change(account.info, changed_storage);\n                (Some(transition), Some(changed_slots))\n', '                    self.get_account_mut(address).change(account.info, changed_storage);\n                (Some(transition), None)\n')], ['|T8|'])
mutant('SW-parallel_state-361-del', ['C10', 'C08'], [('src/parallel_state.rs', '            self.update_storage_slot(address, changed_slots);\n', '')], ['|T8|'])
mutant('SW-parallel_state-580-1', ['C10', 'C08'], [('src/parallel_state.rs', '            U256::ZERO\n', '            U256::MAX\n')], ['|T8|'])
mutant('SW-parallel_state-898-del', ['C10', 'C06'], [('src/parallel_state.rs', '        let transitions = self.cache.apply_evm_state(evm_state);\n        self.apply_transition(transitions);\n', '        let transitions = self.cache.apply_evm_state(evm_state);\n')], ['|T8|'])
mutant('SW-parallel_state-768-del', ['C10'], [('src/parallel_state.rs', '            balances.push(balance);\n', '')], ['|T8|'])
mutant('SW-scheduler-794-del', ['C05'], [('src/scheduler.rs', '            self.tx_dependency.add(txid, dep_tx);\n', '')], ['|LC8|'])
mutant('SW-scheduler-832-1', ['C05'], [('src/scheduler.rs', '                self.tx_dependency.remove(execute_id, false);\n', '                self.tx_dependency.remove(execute_id, true);\n')], ['|LC8|'])
mutant('SW-scheduler-840-1', ['C05'], [('src/scheduler.rs', '        while !self.scheduler_ctx.finished() && !self.is_aborted() {\n', '        while !self.scheduler_ctx.finished() || !self.is_aborted() {\n')], ['|LC8|'])
mutant('SW-scheduler-473-1', ['C05'], [('src/scheduler.rs', '                    Ok(result) => Some(result),\n', '                    Ok(result) => None,\n')], ['|LC8|'])
mutant('SW-scheduler_context-16-1', ['C15'], [('src/scheduler/context.rs', '            executed: (0..num_txs).map(|_| AtomicBool::new(false)).collect(),\n', '            executed: (0..num_txs).map(|_| AtomicBool::new(true)).collect(),\n')], ['|U4|'])
mutant('SW-scheduler_context-17-1', ['C15'], [('src/scheduler/context.rs', '            frontier: AtomicUsize::new(0),\n', '            frontier: AtomicUsize::new(1),\n')], ['|U4|'])
mutant('SW-scheduler_context-27-1', ['C15', 'C05'], [('src/scheduler/context.rs', '            if end == start {\n', '            if end != start {\n')], ['|U4|'])
mutant('SW-scheduler_context-32-del', ['C15', 'C05'], [('src/scheduler/context.rs', '            start = max(current, end);\n', '')], ['|U4|'])
mutant('SW-scheduler_context-103-1', ['C15'], [('src/scheduler/context.rs', '        if index >= self.num_txs {\n', '        if index > self.num_txs {\n')], ['|U4|'])
mutant('SW-scheduler_context-109-2', ['C15', 'C02'], [('src/scheduler/context.rs', '        let timestamp = self.logical_clock.fetch_add(1, Ordering::AcqRel);\n', '        let timestamp = self.logical_clock.fetch_add(0, Ordering::AcqRel);\n')], ['|U4|'])
mutant('SW-scheduler_cursor-89-1', ['C15'], [('src/scheduler/cursor.rs', '            .is_ok()\n', '            .is_err()\n')], ['|U1|'])
mutant('SW-scheduler_executor-145-1', ['C11'], [('src/scheduler/executor.rs', '        evm.precompiles.apply_precompile(address, move |_| Some(precompile));\n', '        evm.precompiles.apply_precompile(address, move |_| None);\n')], ['|P4|'])
mutant('SW-scheduler_fallback-73-1', ['C03', 'C06'], [('src/scheduler/fallback.rs', '        if start == self.block_size {\n', '        if start != self.block_size {\n')], ['|S7|'])
mutant('SW-scheduler_fallback-63-2', ['C03'], [('src/scheduler/fallback.rs', '        if start > self.block_size || result_count != start {\n', '        if start > self.block_size || result_count == start {\n')], ['|S7|'])
mutant('SW-scheduler_ordered_commit-34-1', ['C06', 'C03'], [('src/scheduler/ordered_commit.rs', '    pub(crate) const ZERO: Self = Self(0);\n', '    pub(crate) const ZERO: Self = Self(1);\n')], ['|S7|'])
mutant('SW-tx_dependency-69-1', ['C16'], [('src/tx_dependency.rs', '        if affects.is_empty() {\n', '        if affects.len() == 1 {\n')], ['|V1|'])
mutant('SW-tx_dependency-93-1', ['C16'], [('src/tx_dependency.rs', '        if next < self.num_txs {\n', '        if next <= self.num_txs {\n')], ['|V1|'])
mutant('SW-tx_dependency-151-1', ['C16'], [('src/tx_dependency.rs', '            let mut state = self.dependent_state[txid].lock();\n            if !state.onboard {\n', '            let mut state = self.dependent_state[txid].lock();\n            if state.onboard {\n')], ['|V1|'])
mutant('SW-tx_dependency-152-del', ['C16'], [('src/tx_dependency.rs', '            let mut state = self.dependent_state[txid].lock();\n            if !state.onboard {\n                state.onboard = true;\n', '            let mut state = self.dependent_state[txid].lock();\n            if !state.onboard {\n')], ['|V1|'])
mutant('SW-delegated_safety_reserve-100-1', ['C13'], [('src/delegated_safety/reserve.rs', '        let mut suffix = U256::ZERO;\n', '        let mut suffix = U256::MAX;\n')], ['|H6|'])
mutant('SW-delegated_safety_reserve-105-del', ['C13'], [('src/delegated_safety/reserve.rs', '            schedule.cost_from[index] = suffix;\n', '')], ['|H6|'])
mutant('SW-delegated_safety_reserve-126-1', ['C13'], [('src/delegated_safety/reserve.rs', '            _ => U256::ZERO,\n', '            _ => U256::MAX,\n')], ['|H6|'])
mutant('SW-delegated_safety_reserve-63-1', ['C13'], [('src/delegated_safety/reserve.rs', '        let Some(txids) = self.sender_index().get(&address) else {\n            return U256::ZERO;\n', '        let Some(txids) = self.sender_index().get(&address) else {\n            return U256::MAX;\n')], ['|H6|'])
mutant('SW-delegated_safety_handler-290-del', ['C13'], [('src/delegated_safety/handler.rs', '            result_gas = reserve_result_gas;\n', '')], ['|H6|'])
mutant('SW-delegated_safety_handler-404-1', ['C13'], [('src/delegated_safety/handler.rs', '    if !account.data.bump_nonce() {\n', '    if account.data.bump_nonce() {\n')], ['|H6|'])
mutant('SW-delegated_safety_instructions-19-2', ['C12'], [('src/delegated_safety/instructions.rs', '    instructions.insert_instruction(CREATE, Instruction::new(guarded_create::<false, _, _>), 0);\n', '    instructions.insert_instruction(CREATE, Instruction::new(guarded_create::<false, _, _>), 1);\n')], ['|Q2|'])
mutant('SW-delegated_safety_config-31-1', ['C13'], [('src/delegated_safety/config.rs', '        Self { forbid_delegated_create: true, reserve_delegated_balance: false }\n', '        Self { forbid_delegated_create: false, reserve_delegated_balance: false }\n')], ['|H6|'])
mutant('SW-config-34-del', ['C13'], [('src/config.rs', '        self.delegated_safety = delegated_safety;\n', '')], ['|H6|'])
mutant('SW-beneficiary-46-1', ['C13'], [('src/beneficiary.rs', '        self.address == address\n', '        self.address != address\n')], ['|H6|'])

mutant('Q3-policy-switched-off-after-normalisation', ['C12'], [
    (S, "        config.delegated_safety = config.delegated_safety.for_spec(cfg.spec);\n", "        config.delegated_safety = config.delegated_safety.for_spec(cfg.spec);\n        if cfg.disable_nonce_check {\n            config.delegated_safety.forbid_delegated_create = false;\n        }\n"),
], ['|Q3|'])

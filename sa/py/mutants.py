"""self-test catalogue: (file, old, new) edits against the current tree.  kind=mutant must be
reported by at least one rule of every listed property (and by a rule named in `expect`);
kind=benign must leave every listed property silent."""
S = 'src/scheduler.rs'
CASES = []


def mutant(name, props, edits, expect=()):
    CASES.append(dict(name=name, kind='mutant', props=props, edits=edits, expect=list(expect)))


def benign(name, props, edits):
    CASES.append(dict(name=name, kind='benign', props=props, edits=edits))


mutant('N1-timestamp-after-scan', ['C02'], [
    (S, "        let ts = self.scheduler_ctx.logical_timestamp();\n", ""),
    (S, "        if conflict {\n            self.metrics.record_version_conflict();", "        let ts = self.scheduler_ctx.logical_timestamp();\n        if conflict {\n            self.metrics.record_version_conflict();"),
], ['|N1|'])
mutant('N2-rewind-before-marks', ['C02'], [
    (S, "        let mut conflict = false;\n        let mut dependency: Option<TxId> = None;\n        for (location, version) in result.read_set.iter() {",
        "        let mut conflict = false;\n        let mut dependency: Option<TxId> = None;\n        for (location, version) in result.read_set.iter() {"),
    (S, "        if conflict {\n            self.metrics.record_version_conflict();", "        if conflict {\n            self.scheduler_ctx.rewind_validation_to(txid + 1);\n            self.metrics.record_version_conflict();"),
    (S, "        tx_state.status = if conflict {\n            self.scheduler_ctx.rewind_validation_to(txid + 1);\n", "        tx_state.status = if conflict {\n"),
], ['|N2|'])
mutant('N6-drop-carry', ['C02'], [
    (S, "                lower_ts = effective_lower_ts;\n", "                let _ = effective_lower_ts;\n"),
], ['|N6|'])
mutant('N10-le-in-commit-guard', ['C02'], [
    (S, "while commit_idx < self.scheduler_ctx.finality_idx() {", "while commit_idx <= self.scheduler_ctx.finality_idx() {"),
], ['|N10|'])
mutant('V3-dependency-commit-before-publish', ['C02'], [
    (S, "                        self.scheduler_ctx.publish_commit(next_commit_idx);\n                        // Publish committed state before releasing work that may require it.\n                        self.tx_dependency.commit(commit_idx);\n",
        "                        self.tx_dependency.commit(commit_idx);\n                        self.scheduler_ctx.publish_commit(next_commit_idx);\n"),
], ['|V3|'])
mutant('N8-next-accepts-finality', ['C02'], [
    (S, "                    TransactionStatus::Executed | TransactionStatus::Unconfirmed => {", "                    TransactionStatus::Executed | TransactionStatus::Unconfirmed | TransactionStatus::Finality => {"),
], ['|N8|'])
mutant('N9-no-incarnation-bump', ['C02'], [
    (S, "                tx.incarnation += 1;\n", ""),
], ['|N9|'])
mutant('N4-validation-task-on-new-location', ['C02'], [
    (S, "                } else {\n                    write_new_locations = true;\n                }", "                }"),
], ['|N4|'])
mutant('X1-drop-stale-write-loop', ['C02'], [
    (S, """                    for location in &last_result.write_set {
                        if !write_set.contains(location) &&
                            let Some(mut written_transactions) = self.mv_memory.get_mut(location)
                        {
                            written_transactions.remove(&txid);
                        }
                    }
""", ""),
], ['|X1|'])
mutant('N5-no-rewind-on-conflict-exit', ['C02'], [
    (S, "        if conflict {\n            self.scheduler_ctx.rewind_validation_to(txid + 1);\n        } else {", "        if conflict {\n        } else {"),
], ['|N5|'])
mutant('N7-rewind-after-guard-drop', ['C02'], [
    (S, "            self.scheduler_ctx.rewind_validation_to(txid);\n            drop(tx_state);\n            return self.execution_task(next);", "            drop(tx_state);\n            self.scheduler_ctx.rewind_validation_to(txid);\n            return self.execution_task(next);"),
], ['|N7|'])
benign('B-extra-metric-and-rename', ['C02'], [
    (S, "        let ts = self.scheduler_ctx.logical_timestamp();", "        let validation_tick = self.scheduler_ctx.logical_timestamp();\n        self.metrics.record_validation_attempt();"),
    (S, "            self.scheduler_ctx.unconfirmed(txid, ts);", "            self.scheduler_ctx.unconfirmed(txid, validation_tick);"),
])
benign('B-ge-for-gt-timestamps', ['C02'], [
    (S, "(self.scheduler_ctx.unconfirmed_timestamp(finality_idx) > effective_lower_ts)", "(self.scheduler_ctx.unconfirmed_timestamp(finality_idx) >= effective_lower_ts)"),
])
benign('B-if-else-for-then-some', ['C02'], [
    (S, """        (self.scheduler_ctx.unconfirmed_timestamp(finality_idx) > effective_lower_ts)
            .then_some((tx_state, effective_lower_ts))""", """        if self.scheduler_ctx.unconfirmed_timestamp(finality_idx) > effective_lower_ts {
            Some((tx_state, effective_lower_ts))
        } else {
            None
        }"""),
])

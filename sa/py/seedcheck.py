#!/usr/bin/env python3
"""apply a seeded patch to /repo, run all quick checks, undo; print which obligations fire.
usage: seedcheck.py <patch.diff> [prop ...]"""
import sys, os, subprocess, json
patch = sys.argv[1]
props_ = sys.argv[2:]
assert subprocess.run(['git', '-C', '/repo', 'status', '--porcelain', '--untracked-files=no'], capture_output=True, text=True).stdout.strip() == '', '/repo not clean'
r = subprocess.run(['git', '-C', '/repo', 'apply', patch], capture_output=True, text=True)
if r.returncode != 0:
    print('APPLY FAILED', r.stderr)
    sys.exit(2)
try:
    cmd = ['/verif/check', '--all'] if not props_ else None
    outs = []
    if cmd:
        o = subprocess.run(cmd, capture_output=True, text=True, cwd='/verif')
        outs.append(o.stdout + o.stderr)
    else:
        for p in props_:
            o = subprocess.run(['/verif/check', p], capture_output=True, text=True, cwd='/verif')
            outs.append(o.stdout + o.stderr)
    txt = '\n'.join(outs)
    fired = [l.strip() for l in txt.splitlines() if l.strip().startswith('FAILED') or l.startswith('VIOLATION') or 'ANALYSIS-FAILED' in l]
    print('\n'.join(fired) if fired else 'NO CHECK FIRED')
finally:
    subprocess.run(['git', '-C', '/repo', 'checkout', '--', '.'], check=True)
    # restore evidence/violations files to the unchanged tree state
    subprocess.run(['/verif/check', '--all'], capture_output=True, cwd='/verif')

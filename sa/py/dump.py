#!/usr/bin/env python3
"""debug helper: print the path table of a function.  usage: dump.py <fn suffix> [--kinds=atom,call,...] [--type=T --method=m]"""
import sys
sys.path.insert(0, '/verif/sa/py')
from mirlib import *
fp = '/verif/.cache/facts-default.json'
kinds = None
for a in sys.argv[2:]:
    if a.startswith('--kinds='):
        kinds = a[8:].split(',')
    if a.startswith('--facts='):
        fp = a[8:]
facts = Facts(fp)
name = sys.argv[1]
if '#' in name:
    ty, m = name.split('#')
    f = facts.fn(facts.method(ty, m))
else:
    f = facts.fn(name)
ps = f.paths()
print(f.name, len(ps), 'paths', collections.Counter(p.end for p in ps))
seen = set()
for p in ps:
    if p.end == 'unreachable':
        continue
    txt = pretty_path(p, kinds)
    if txt in seen:
        continue
    seen.add(txt)
    print('PATH end=%s' % p.end)
    print(txt)
print(len(seen), 'distinct')

"""Rules over tx_dependency.rs (C16, shared with C05/C03): claimability, cursor rewinds, tables A.2."""
from ru import *

DS = 'TxDependency.dependent_state'
AF = 'TxDependency.affect_txs'


def dep(ctx, m):
    return ctx.method('tx_dependency::TxDependency', m)


def ds_ix(on):
    """X when `on` is the slot of transaction X in dependent_state: `dependent_state[X]` or the `Some` payload of
    `dependent_state.get(X)` (the checked spelling); else None"""
    if on is None:
        return None
    if on[0] == 'call' and on[1].endswith('::index') and mentions_field(on[2][0], 'dependent_state'):
        return on[2][1]
    t = on
    while t[0] in ('field', 'down'):
        t = t[1]
    if t[0] == 'call' and norm_callee(t[1]).endswith(('::get', '::get_mut')) and len(t[2]) == 2 and mentions_field(t[2][0], 'dependent_state') and on[0] in ('field', 'down'):
        return t[2][1]
    return None


def ds_checked(on):
    """the slot was obtained through the bounds-checked `get`"""
    return on is not None and on[0] in ('field', 'down') and ds_ix(on) is not None


def ds_guard_indices(e):
    out = []
    for g in e.held:
        on = g[1]
        if g[0] == 'mutex' and ds_ix(on) is not None:
            out.append(ds_ix(on))
    return out


def ds_place(t):
    """t = lock(index(dependent_state, X)).field -> (X, field) else None"""
    if t[0] == 'field' and (t[2].endswith('DependentState.onboard') or t[2].endswith('DependentState.dependency')):
        b = t[1]
        if b[0] == 'call' and '::lock' in b[1] and b[2] and ds_ix(b[2][0]) is not None:
            return ds_ix(b[2][0]), t[2].split('.')[-1]
    return None


def track_ds(p):
    """walk a path and yield, for every DS guard hold interval, a summary:
    dict(x=index term, acquire=i, release=j or None, changed=bool, onboard=T/F/None, dep='None'/'Some'/None,
         fetch_min=[event idx...])"""
    holds = {}
    done = []
    for i, e in enumerate(p.events):
        if e.kind == 'acquire' and ds_ix(e.d['on']) is not None:
            x = ds_ix(e.d['on'])
            holds[e.d['guard']] = dict(x=x, acquire=i, release=None, changed=False, onboard=None, dep=None, fetch_min=[], dep_val=None, checked=ds_checked(e.d['on']))
        elif e.kind == 'release' and e.d['guard'] in holds:
            h = holds.pop(e.d['guard'])
            h['release'] = i
            done.append(h)
        elif e.kind == 'assign':
            dp = ds_place(e.d['place'])
            if dp:
                for h in holds.values():
                    if h['x'] == dp[0]:
                        h['changed'] = True
                        v = e.d['value']
                        if dp[1] == 'onboard':
                            h['onboard'] = True if v == ('const', 'true') else False if v == ('const', 'false') else None
                        else:
                            h['dep'] = 'None' if (v[0] == 'agg' and v[2] == 'None') else 'Some' if (v[0] == 'agg' and v[2] == 'Some') else None
                            h['dep_val'] = v
        elif e.kind == 'atom':
            t = e.d['term']
            o = e.d['outcome']
            # onboard flag read
            dp = ds_place(t) if t[0] == 'field' else None
            neg = False
            tt = t
            while tt[0] == 'un' and tt[1] == 'Not':
                tt = tt[2]
                neg = not neg
                dp = ds_place(tt) if tt[0] == 'field' else None
            if dp and dp[1] == 'onboard' and o in ('true', 'false'):
                val = (o == 'true') != neg
                for h in holds.values():
                    if h['x'] == dp[0]:
                        h['onboard'] = val
            # dependency.is_none() / is_some()
            if tt[0] == 'call' and tt[2] and (tt[1].endswith('::is_none') or tt[1].endswith('::is_some')):
                dp = ds_place(tt[2][0])
                if dp and dp[1] == 'dependency' and o in ('true', 'false'):
                    val = (o == 'true') != neg
                    none = val if tt[1].endswith('::is_none') else not val
                    for h in holds.values():
                        if h['x'] == dp[0]:
                            h['dep'] = 'None' if none else 'Some'
            # dependency == Some(t)
            n = norm_cmp(e)
            if n:
                for a, b in ((n[1], n[2]), (n[2], n[1])):
                    dpp = ds_place(a) if a[0] == 'field' else None
                    if dpp and dpp[1] == 'dependency':
                        for h in holds.values():
                            if strip(h['x']) == dpp[0] or h['x'] == dpp[0]:
                                if n[0] == 'Eq' and b[0] == 'agg':
                                    h['dep'] = b[2]
                                    h['dep_val'] = b
            if t[0] == 'discr':
                dp = ds_place(t[1]) if t[1][0] == 'field' else None
                if dp and dp[1] == 'dependency':
                    for h in holds.values():
                        if h['x'] == dp[0]:
                            h['dep'] = o if o in ('None', 'Some') else None
        elif e.kind == 'call' and callee_matches(e.d['callee'], '::fetch_min') and mentions_field(e.d['args'][0], 'TxDependency.index'):
            for h in list(holds.values()) + done:
                if strip(h['x']) == strip(e.d['args'][1]):
                    h['fetch_min'].append(i)
    for h in holds.values():
        done.append(h)
    return done


def V2_claimable_implies_rewind(ctx):
    """every hold of DS[x] that leaves x claimable after changing it rewinds the cursor to x not
    before the lock was taken (or hands x over with onboard=false)"""
    facts = ctx.facts
    # all production functions touching dependent_state
    fns = set()
    for b in facts.production():
        for bl in b['blocks']:
            if bl['cleanup']:
                continue
            for st in bl['stmts']:
                if any(x.endswith('TxDependency.dependent_state') for x in st['rv'].get('p', {}).get('proj', []) if isinstance(x, str)):
                    fns.add(b['fn'])
    got = set().union(*[facts.owners(f) for f in fns] or [set()])
    expected = {'next', 'remove', 'commit', 'key_tx', 'add'}
    ctx.ob('V2', 'tx_dependency::TxDependency', 'who-touches-dependent-state', got == expected,
           f'functions accessing dependent_state: {sorted(got)}; expected {sorted(expected)}',
           what='claimability is decided under DS[x]; a new accessor must be triaged against the cursor-rewind rule')
    n_sites = 0
    rewinders = set()
    for name in sorted(fns):
        if name.endswith('::new'):
            continue
        f = ctx.fn(facts.by[name])
        bad, early = [], []
        for p in feasible(f.paths()):
            if any(e.kind == 'call' and callee_matches(e.d['callee'], '::fetch_min') and mentions_field(e.d['args'][0], 'TxDependency.index') for e in p.events):
                rewinders |= facts.owners(name)
            for h in track_ds(p):
                n_sites += len(h['fetch_min'])
                claimable = h['onboard'] is True and h['dep'] == 'None'
                unknown = h['changed'] and (h['onboard'] is None or h['dep'] is None) and not (h['onboard'] is False or h['dep'] == 'Some')
                if h['changed'] and (claimable or unknown):
                    ok = any(i > h['acquire'] for i in h['fetch_min'])
                    if not ok:
                        bad.append((p, h))
            # a fetch_min(x) before DS[x] is acquired on a path that later changes x
            for i, e in enumerate(p.events):
                if e.kind == 'call' and callee_matches(e.d['callee'], '::fetch_min') and mentions_field(e.d['args'][0], 'TxDependency.index'):
                    x = strip(e.d['args'][1])
                    if not any(strip(g) == x for g in ds_guard_indices(e)):
                        # allowed only if no later change of x on this path
                        for h in track_ds(p):
                            if strip(h['x']) == x and h['changed'] and h['acquire'] > i and not any(j > h['acquire'] for j in h['fetch_min']):
                                early.append((p, e))
        ctx.ob('V2', f, 'claimable-implies-cursor-rewind', not bad,
               '; '.join(f'DS[{show(h["x"])}] left onboard={h["onboard"]} dependency={h["dep"]} after a change without index.fetch_min({show(h["x"])}) at or after the lock' for _, h in bad[:3]),
               site=f.loc(f.b['lo']),
               what='a claimer that passed x before the change never comes back unless the cursor is rewound to x after (not before) the state became claimable: x is orphaned and the block never finishes')
        ctx.ob('V2', f, 'no-rewind-before-lock', not early,
               '; '.join(site(f, e) for _, e in early[:3]), site=f.loc(f.b['lo']),
               what='a cursor rewind issued before DS[x] is taken can be consumed by a claimer that still sees x blocked')
    ctx.count('V2.fetch_min-events', n_sites)
    # anchor: the 5 fetch_min sites
    need = {'add', 'remove', 'commit', 'key_tx'}
    ctx.ob('V2', 'tx_dependency::TxDependency', 'anchor:fetch_min-sites', need <= rewinders,
           f'functions on whose paths the execution cursor is rewound: {sorted(rewinders)} (the 5 sites confirmed by reading are in {sorted(need)}; a helper they share is analysed through)')


def V1_tables(ctx):
    """A.2 presence/decision rows"""
    # next(): claim
    f = dep(ctx, 'next')
    bad = []
    n_some = 0
    for p in feasible(f.paths()):
        ret = [e for e in p.events if e.kind == 'ret'][0].d['value']
        hs = track_ds(p)
        is_some = ret[0] == 'agg' and ret[2] == 'Some'
        if is_some:
            n_some += 1
            x = ret[3][0]
            ok = x[0] == 'call' and x[1].endswith('::fetch_add') and mentions_field(x[2][0], 'TxDependency.index') and x[2][1] == ('const', '1_usize')
            hh = [h for h in hs if h['x'] == x]
            ok = ok and len(hh) == 1 and hh[0]['onboard'] is False and hh[0]['dep'] == 'None' and hh[0]['changed']
            # decided claimable before the write: atoms onboard==true and is_none==true
            at = [e for e in p.events if e.kind == 'atom']
            ok = ok and any(ds_place(e.d['term']) and e.d['outcome'] == 'true' for e in at if e.d['term'][0] == 'field')
            ok = ok and holds_rel(p, len(p.events), lambda op, l, r: op == 'Lt' and l == strip(x) and mentions_field(r, 'num_txs'))
            if not ok:
                bad.append(p)
        else:
            if any(h['changed'] for h in hs):
                bad.append(p)
            # ... and a slot found claimable IS claimed: the cursor has moved past it, nobody will offer it again
            for h in hs:
                if h['onboard'] is True and h['dep'] == 'None' and not h['changed']:
                    bad.append(p)
    ctx.ob('V1', f, 'claim-table', n_some >= 1 and not bad, f'{len(bad)} deviating path(s): ' + (describe(bad[0]) if bad else ''), site=f.loc(f.b['lo']),
           what='Some(i) ⇔ i = index.fetch_add(1) < n ∧ onboard(i) ∧ dependency(i)=None, and the claim clears onboard under DS[i] (exactly one claimer); other paths change nothing')
    # remove(): stale-edge re-check; hand-off
    f = dep(ctx, 'remove')
    bad, n_clear, n_hand = [], 0, 0
    for p in feasible(f.paths()):
        ret = [e for e in p.events if e.kind == 'ret'][0].d['value']
        for e in p.events:
            if e.kind == 'assign':
                dp = ds_place(e.d['place'])
                if dp and dp[1] == 'dependency':
                    n_clear += 1
                    i = idx_of(p, e)
                    # must be under dependency == Some(txid)
                    ok = False
                    for a in p.events[:i]:
                        if a.kind == 'atom':
                            n = norm_cmp(a)
                            if n and n[0] == 'Eq':
                                for l, r in ((n[1], n[2]), (n[2], n[1])):
                                    if l[0] == 'field' and ds_place(l) and strip(ds_place(l)[0]) == strip(dp[0]) and r[0] == 'agg' and r[2] == 'Some' and r[3] == (('arg', 2),):
                                        ok = True
                    if not ok or not (e.d['value'][0] == 'agg' and e.d['value'][2] == 'None'):
                        bad.append(('clear-without-recheck', e))
        if ret[0] == 'agg' and ret[2] == 'Some':
            n_hand += 1
            x = ret[3][0]
            hh = [h for h in track_ds(p) if h['x'] == x]
            if not (hh and hh[-1]['onboard'] is False and hh[-1]['dep'] == 'None'):
                bad.append(('handoff-without-claim', p.events[-1]))
            # only when pop_next
            if not [a for a in p.events if a.kind == 'atom' and strip(a.d['term']) == ('arg', 3) and a.d['outcome'] == 'true']:
                bad.append(('handoff-without-pop_next', p.events[-1]))
    for p in feasible(f.paths()):
        iterated = any(a.kind == 'atom' and a.d['term'][0] == 'discr' and a.d['term'][1][0] == 'call' and a.d['term'][1][1].endswith('::next') and mentions_field(a.d['term'][1], 'affect_txs') for a in p.events) \
            or any(e.kind == 'call' and e.d['callee'].endswith('::next') and mentions_field(e.d['args'][0], 'affect_txs') for e in p.events)
        if not iterated:
            emp = [a for a in p.events if bool_fact(a) and bool_fact(a)[0][0] == 'call' and bool_fact(a)[0][1].endswith('::is_empty') and bool_fact(a)[1] is True]
            if not emp:
                bad.append(('returns-without-visiting-the-dependants-although-the-set-was-not-found-empty', p.events[-1]))
    # ... and a dependant that still names this txid IS released (cleared; rewound or handed over when onboard)
    for p in feasible(f.paths()):
        for h in track_ds(p):
            named = False
            for a in p.events[h['acquire']:h['release'] or len(p.events)]:
                if a.kind == 'atom':
                    n = norm_cmp(a)
                    if n and n[0] == 'Eq':
                        for l, r in ((n[1], n[2]), (n[2], n[1])):
                            if l[0] == 'field' and ds_place(l) and ds_place(l)[1] == 'dependency' and r[0] == 'agg' and r[2] == 'Some' and r[3] == (('arg', 2),):
                                named = True
            if named and not (h['changed'] and h['dep'] == 'None'):
                bad.append(('a-dependant-that-still-names-this-transaction-is-not-released', p.events[h['acquire']]))
    ctx.count('V1.remove-clears', n_clear)
    ctx.ob('V1', f, 'remove-table', n_clear >= 1 and n_hand >= 1 and not bad,
           f'clears={n_clear} handoffs={n_hand}; ' + '; '.join(f'{w} at {site(f, e)}' for w, e in bad[:3]), site=f.loc(f.b['lo']),
           what='a reverse edge may be stale: dependency is cleared only when it still names this txid; a handed-over successor is claimed (onboard=false) under its lock and only when the caller asked for it')
    # commit(): successor released
    f = dep(ctx, 'commit')
    ok_paths = 0
    bad = []
    for p in feasible(f.paths()):
        for h in track_ds(p):
            if not is_add1(h['x'], ('arg', 2)):
                bad.append(p)
            # the successor exists: txid+1 < num_txs (strict) before its state is indexed
            if not h.get('checked') and not holds_rel(p, h['acquire'] + 1, lambda op, l, r: op == 'Lt' and is_add1(l, ('arg', 2)) and mentions_field(r, 'num_txs')):
                bad.append(p)
            on_true = [e for e in p.events if e.kind == 'atom' and e.d['term'][0] == 'field' and ds_place(e.d['term']) and ds_place(e.d['term'])[1] == 'onboard' and e.d['outcome'] == 'true']
            if on_true:
                if h['dep'] == 'None' and h['changed'] and h['fetch_min']:
                    ok_paths += 1
                else:
                    bad.append(p)
    # ... and unconditionally so: whenever a successor exists its slot is inspected (the cursor position is no reason to skip —
    # a rewind may have pulled the cursor back over a parked successor, and nobody else ever clears a commit-boundary barrier)
    for p in feasible(f.paths()):
        if p.end != 'return' or track_ds(p):
            continue
        if holds_rel(p, len(p.events), lambda op, l, r: op == 'Lt' and is_add1(l, ('arg', 2)) and mentions_field(r, 'num_txs')):
            bad.append(p)
    ctx.ob('V1', f, 'commit-releases-successor', ok_paths >= 1 and not bad, f'ok paths={ok_paths} bad={len(bad)}', site=f.loc(f.b['lo']),
           what='a transaction parked behind its own commit boundary (dependency = itself) is released only here: onboard(t+1) ⇒ dependency:=None and cursor rewound to t+1')
    # key_tx(): barrier only while t > live cursor read inside DS[t]
    f = dep(ctx, 'key_tx')
    bad = []
    n_bar = n_free = 0
    for p in feasible(f.paths()):
        hs = [h for h in track_ds(p) if h['x'] == ('arg', 2)]
        if len(hs) != 1:
            bad.append(('no DS[txid] hold', p))
            continue
        h = hs[0]
        gets = [i for i, e in enumerate(p.events) if e.kind == 'call' and callee_matches(e.d['callee'], 'PublishedCursorReader::get')]
        if not gets or not all(h['acquire'] < i and (h['release'] is None or i < h['release']) for i in gets):
            bad.append(('cursor read outside DS[txid]', p))
        rel = None
        for e in p.events:
            if e.kind == 'atom':
                n = norm_cmp(e)
                if n and (has_call(n[1], 'PublishedCursorReader::get') or has_call(n[2], 'PublishedCursorReader::get')):
                    op, l, r = n
                    if has_call(l, 'PublishedCursorReader::get'):
                        op, l, r = CMP_FLIP[op], r, l
                    rel = (op, l)
        if rel is None or rel[1] != ('arg', 2):
            bad.append(('no comparison txid vs cursor', p))
            continue
        if rel[0] == 'Gt':
            n_bar += 1
            if not (h['dep'] == 'Some' and h['dep_val'] and h['dep_val'][3] == (('arg', 2),) and h['onboard'] is True):
                bad.append(('barrier row', p))
        elif rel[0] == 'Le':
            n_free += 1
            if h['onboard'] is not True:
                bad.append(('free row: onboard', p))
            if h['dep_val'] is not None and h['dep'] == 'Some' and h['changed'] and any(
                    e.kind == 'assign' and ds_place(e.d['place']) and ds_place(e.d['place'])[1] == 'dependency' for e in p.events):
                bad.append(('free row installs a barrier', p))
        else:
            bad.append((f'unexpected relation {rel[0]}', p))
    ctx.ob('V1', f, 'key_tx-table', n_bar >= 1 and n_free >= 1 and not bad,
           f'barrier rows={n_bar} free rows={n_free}; ' + '; '.join(w for w, _ in bad[:4]), site=f.loc(f.b['lo']),
           what='t > committed cursor (read live, inside DS[t]) ⇒ dependency:=Some(t), onboard; otherwise onboard and (if unblocked) cursor rewound: a stale cursor value or a read outside the lock loses the race with commit(t-1) and parks t forever')
    # add()
    f = dep(ctx, 'add')
    bad = []
    n_some = n_none = 0
    for p in feasible(f.paths()):
        d = [e for e in p.events if e.kind == 'atom' and e.d['term'][0] == 'discr' and strip(e.d['term'][1]) == ('arg', 3)]
        hs = track_ds(p)
        if d and d[0].d['outcome'] == 'Some':
            n_some += 1
            ht = [h for h in hs if h['x'] == ('arg', 2)]
            hd = [h for h in hs if h['x'] != ('arg', 2)]
            ok = len(ht) == 1 and ht[0]['dep'] == 'Some' and ht[0]['onboard'] is True and len(hd) == 1 and hd[0]['onboard'] is True
            ins = [e for e in p.events if e.kind == 'call' and e.d['callee'].endswith('::insert') and mentions_field(e.d['args'][0], 'affect_txs')]
            ok = ok and len(ins) == 1 and ins[0].d['args'][1] == ('arg', 2)
            if ok:
                depid = hd[0]['x']
                ok = ht[0]['dep_val'][3] == (depid,) and mentions(ins[0].d['args'][0], depid)
                # reverse edge inserted while DS[txid] is held (so remove() cannot miss it)
                i = idx_of(p, ins[0])
                ok = ok and ht[0]['acquire'] < i and (ht[0]['release'] is None or i < ht[0]['release'])
            if not ok:
                bad.append(p)
        elif d:
            n_none += 1
            ht = [h for h in hs if h['x'] == ('arg', 2)]
            if len(ht) != 1:
                bad.append(p)
                continue
            # add(t, None) leaves t claimable: it was onboard already, or it is made onboard, unblocked, and the cursor is rewound
            was_on = [a for a in p.events if a.kind == 'atom' and bool_fact(a) and ds_place(bool_fact(a)[0]) and ds_place(bool_fact(a)[0])[1] == 'onboard']
            pre_on = bool(was_on) and bool_fact(was_on[0])[1] is True
            h = ht[0]
            if not pre_on and not (h['onboard'] is True and h['fetch_min'] and h['dep'] in ('None', None)):
                bad.append(p)
            if pre_on and h['onboard'] is False:
                bad.append(p)
    ctx.ob('V1', f, 'add-table', n_some >= 2 and n_none >= 2 and not bad, f'{len(bad)} deviating path(s): ' + (describe(bad[0]) if bad else ''), site=f.loc(f.b['lo']),
           what='add(t,Some(d)): dependency(t):=Some(d), t and d onboard, reverse edge d→t inserted under AF[d] while DS[t] is held; add(t,None): t made claimable (V2)')


def V4_lock_order(ctx):
    """no AF acquired while a DS guard is live; DS nested only low→high by construction"""
    facts = ctx.facts
    bad = []
    n = 0
    for m in ('next', 'remove', 'commit', 'key_tx', 'add'):
        f = dep(ctx, m)
        for p in feasible(f.paths()):
            for e in p.events:
                if e.kind == 'acquire' and e.d['on'] is not None and mentions_field(e.d['on'], 'affect_txs'):
                    n += 1
                    if any(g[1] is not None and mentions_field(g[1], 'dependent_state') for g in e.held if g != e.d['guard']):
                        bad.append((f, e))
    ctx.ob('V4', 'tx_dependency::TxDependency', 'no-AF-under-DS', n >= 2 and not bad,
           '; '.join(site(f, e) for f, e in bad[:3]),
           what='remove() takes AF[d] then DS[x]; taking AF while holding DS closes a cycle AF→DS→AF (deadlock between add and remove)')

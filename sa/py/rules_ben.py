"""Rules over beneficiary.rs / beneficiary/{history,reward}.rs and their use in the scheduler (C07)."""
from ru import *


def norm_ctx(t):
    """rewrite context accessors so revm's and grevm's reward expressions become comparable"""
    s = show(strip(t))
    s = re.sub(r'ContextTr::all_mut\(\$1\)\.(tuple\.)?0', 'BLOCK', s)
    s = re.sub(r'ContextTr::all_mut\(\$1\)\.(tuple\.)?1', 'TX', s)
    s = re.sub(r'ContextTr::all_mut\(\$1\)\.(tuple\.)?2', 'CFG', s)
    s = re.sub(r'ContextTr::all_mut\(\$1\)\.(tuple\.)?3', 'JOURNAL', s)
    s = re.sub(r'(ContextTr|_)::block\(\$1\)', 'BLOCK', s)
    s = re.sub(r'(ContextTr|_)::tx\(\$1\)', 'TX', s)
    s = re.sub(r'(ContextTr|_)::cfg\(\$1\)', 'CFG', s)
    return s


def reward_table(fn, kind):
    out = {}
    for p in feasible(fn.paths()):
        dis = [a for a in p.events if a.kind == 'atom' and a.d['term'][0] == 'call' and a.d['term'][1].endswith('Cfg::is_fee_charge_disabled')]
        lon = [a for a in p.events if a.kind == 'atom' and a.d['term'][0] == 'call' and a.d['term'][1].endswith('SpecId::is_enabled_in') and 'LONDON' in show(a.d['term'])]
        key = (dis[0].d['outcome'] if dis else None, lon[0].d['outcome'] if lon else None)
        if kind == 'grevm':
            ret = [e for e in p.events if e.kind == 'ret'][0].d['value']
            if ret[0] == 'agg' and ret[2] == 'None':
                out[key] = 'none'
            elif ret[0] == 'agg' and ret[2] == 'Some':
                out[key] = norm_ctx(ret[3][0][3][0])
        else:
            inc = [e for e in p.events if e.kind == 'call' and e.d['callee'].endswith('::incr_balance')]
            ret = [e for e in p.events if e.kind == 'ret'][0].d['value']
            if inc:
                out[key] = norm_ctx(inc[0].d['args'][1])
            elif ret[0] == 'agg' and ret[2] == 'Ok' and not lon:
                out[key] = 'none'
    return out


def B2_reward_formula(ctx):
    mine = ctx.fn('beneficiary::reward::BeneficiaryReward::from_gas')
    theirs = ctx.fn('ext::revm::revm_handler::post_execution::reward_beneficiary')
    a = reward_table(mine, 'grevm')
    b = reward_table(theirs, 'revm')
    ctx.ob('B2', mine, 'reward-formula-agrees-with-revm', a == b and len(a) == 3, f'grevm {a} ; revm {b}', site=mine.loc(mine.b['lo']),
           what='the deferred reward must be bit-identical to what revm\'s reward_beneficiary would credit: fee-disabled ⇒ none; (effective price − basefee from London, saturating) × (used − reservoir, saturating)')
    # revm credits the block beneficiary through the journal
    ok = False
    for p in feasible(theirs.paths()):
        for e in p.events:
            if e.kind == 'call' and e.d['callee'].endswith('JournalTr::load_account_mut') and 'beneficiary' in show(e.d['args'][1]):
                ok = True
    ctx.ob('B2', theirs, 'revm-hook-credits-block-beneficiary', ok, '', what='sibling anchor: revm\'s hook loads block.beneficiary() and increments its balance')


def B1_apply_table(ctx):
    f = ctx.fn('beneficiary::reward::BeneficiaryMode::apply')
    bad = []
    rows = set()
    for p in feasible(f.paths()):
        # the mode, however it is tested (== / matches! / match)
        eq_, ne_ = status_facts(p, len(p.events), lambda t: strip(t) == ('arg', 1))
        is_imm = True if eq_ == {'Immediate'} else False if (eq_ or 'Immediate' in ne_) else None
        hook = [e for e in p.events if e.kind == 'call' and e.d['callee'].endswith('post_execution::reward_beneficiary')]
        sets = [e for e in p.events if e.kind == 'call' and e.d['callee'].endswith('Cell::<T>::set') or (e.kind == 'call' and norm_callee(e.d['callee']).endswith('Cell::set'))]
        if is_imm is None:
            bad.append((p, 'mode not decided'))
            continue
        if is_imm:
            rows.add('immediate')
            if len(hook) != 1 or sets:
                bad.append((p, 'Immediate mode must run revm\'s hook and defer nothing'))
            continue
        fg = [a for a in p.events if a.kind == 'atom' and a.d['term'][0] == 'discr' and has_call(a.d['term'][1], 'BeneficiaryReward::from_gas')]
        if not fg:
            bad.append((p, 'from_gas not consulted'))
            continue
        if fg[0].d['outcome'] == 'None':
            rows.add('fee-disabled')
            if hook or sets:
                bad.append((p, 'fee disabled ⇒ nothing to credit or defer'))
            continue
        z = [a for a in p.events if a.kind == 'atom' and a.d['term'][0] == 'call' and a.d['term'][1].endswith('BeneficiaryReward::is_zero')]
        ck = [a for a in p.events if a.kind == 'atom' and a.d['term'][0] == 'call' and a.d['term'][1].endswith('::contains_key') and 'evm_state' in show(a.d['term']) and 'beneficiary' in show(a.d['term'])]
        zero = z[0].d['outcome'] == 'true' if z else None
        inj = ck[0].d['outcome'] == 'true' if ck else None
        if zero is None and inj is None:
            bad.append((p, 'neither zero-reward nor beneficiary-in-journal decided'))
            continue
        must_hook = (zero is True) or (inj is True)
        if must_hook:
            rows.add('hook')
            if len(hook) != 1 or sets:
                bad.append((p, f'zero={zero} in-journal={inj}: revm\'s hook must run, nothing deferred'))
        else:
            if zero is False and inj is False:
                rows.add('defer')
                ok = len(sets) == 1 and not hook and sets[0].d['args'][0] == ('arg', 4) and has_call(sets[0].d['args'][1], 'BeneficiaryReward::defer') \
                    and mentions(sets[0].d['args'][1], fg[0].d['term'][1])
                if not ok:
                    bad.append((p, 'non-zero reward with the beneficiary absent from the journal must be deferred (exactly once) and not credited through the hook'))
            else:
                bad.append((p, f'undecided combination zero={zero} in-journal={inj}'))
    ctx.ob('B1', f, 'defer-or-hook-table', rows == {'immediate', 'fee-disabled', 'hook', 'defer'} and not bad, '; '.join(sorted(set(w for _, w in bad))[:3]) + f' rows={sorted(rows)}', site=f.loc(f.b['lo']),
           what='defer ⇔ Deferred mode ∧ reward present ∧ non-zero ∧ beneficiary not in the journal; otherwise revm\'s own hook (a zero reward still loads/touches the account; a journal-resident beneficiary must see the credit in-transaction). Deferring when the beneficiary is in the journal credits it twice or loses the write')
    d = ctx.fn('beneficiary::reward::BeneficiaryReward::defer')
    ok = any(e.kind == 'ret' and e.d['value'][0] == 'agg' and e.d['value'][1].endswith('DeferredBeneficiaryReward') and is_field(strip(e.d['value'][3][0]), 'BeneficiaryReward.0')
             for p in feasible(d.paths()) for e in p.events)
    ctx.ob('B1', d, 'deferred-amount-is-the-reward', ok, '', site=d.loc(d.b['lo']))


def B5_anchor(ctx):
    f = ctx.method('scheduler::Scheduler<DB>', 'parallel_execute_inner')
    bad = []
    n = 0
    for p in feasible(f.paths()):
        sc = [i for i, e in enumerate(p.events) if e.kind == 'call' and e.d['callee'].startswith('std::thread::scope')]
        if not sc:
            continue
        n += 1
        rd = [i for i, e in enumerate(p.events) if e.kind == 'call' and e.d['callee'].endswith('::basic_ref') and is_field(strip(e.d['args'][1]), 'BlockEnv.beneficiary')]
        bn = [i for i, e in enumerate(p.events) if is_call(e, 'Beneficiary::new')]
        if not rd or not bn or not (rd[0] < bn[0] < sc[0]):
            bad.append(p)
            continue
        e = p.events[bn[0]]
        if not (is_field(strip(e.d['args'][0]), 'BlockEnv.beneficiary') and mentions(e.d['args'][1], p.events[rd[0]].d['result']) and is_field(strip(e.d['args'][2]), 'Scheduler.block_size')):
            bad.append(p)
        # read through the shared view (cache-filling), error mapped to txid 0
        if not has_call(p.events[rd[0]].d['args'][0], 'split_for_parallel'):
            bad.append(p)
    ctx.ob('B5', f, 'anchor-read-before-workers-start', n >= 1 and not bad, f'{len(bad)} deviating path(s)', site=f.loc(f.b['lo']),
           what='the beneficiary anchor is the block-start account; it must be read (and cached) before any worker or commit can change the cache, and handed to Beneficiary::new with the block size')


def B7_history_publication(ctx):
    f = ctx.method('scheduler::Scheduler<DB>', 'execute_task')
    bad = []
    n_exec = n_est = 0
    for p in feasible(f.paths()):
        att = [i for i, e in enumerate(p.events) if is_call(e, '::execute_incarnation')]
        if not att:
            continue
        res = p.events[att[0]].d['result']
        ok_arm = [a for a in p.events if a.kind == 'atom' and a.d['term'][0] == 'discr' and mentions(a.d['term'][1], res) and mentions_field(a.d['term'][1], 'IncarnationExecution.result')]
        if not ok_arm or ok_arm[0].d['outcome'] != 'Ok':
            continue
        rx = calls(p, 'Beneficiary::record_execution')
        re_ = calls(p, 'Beneficiary::record_estimate')
        blocked = [a for a in p.events if a.kind == 'atom' and a.d['term'][0] == 'call' and a.d['term'][1].endswith('IncarnationAccesses::is_blocked')]
        if not blocked:
            bad.append((p, 'conflict not decided'))
            continue
        conflict = blocked[0].d['outcome'] == 'true'
        recs = rx + re_
        if len(recs) != 1:
            bad.append((p, f'{len(recs)} history publications on a success path'))
            continue
        r = recs[0]
        if conflict:
            n_est += 1
            if not re_:
                bad.append((p, 'blocked execution recorded as exact'))
        else:
            n_exec += 1
            if not rx or not (mentions(rx[0].d['args'][2], res)):
                bad.append((p, 'unblocked execution not recorded with its speculative result'))
        if r.d['args'][1] != ('arg', 4):
            bad.append((p, 'history publication not for this task\'s version'))
        if idx_of(p, r) < att[0]:
            bad.append((p, 'history publication before the attempt'))
        dec = [a for a in p.events if a.kind == 'atom' and a.d['term'] == r.d['result']]
        if dec and dec[0].d['outcome'] == 'false':
            if not calls(p, 'Scheduler>::abort') or assigns(p, 'TxState.status'):
                bad.append((p, 'rejected history publication must abort without publishing a status'))
        # stored result happens after the history record (publication boundary)
    ctx.ob('B7', f, 'history-publication-table', n_exec >= 1 and n_est >= 1 and not bad, '; '.join(sorted(set(w for _, w in bad))[:3]), site=f.loc(f.b['lo']),
           what='after publishing its MV writes a successful attempt records either its exact beneficiary effect (unblocked) or an estimate (blocked); a rejected record means a stale incarnation is running: abort')
    # validate(): invalidate on conflict (N2) is in rules_sched


def B8_history_tables(ctx):
    rec = ctx.fn('beneficiary::history::HistoryEntry::record')
    bad = []
    n_w = 0
    for p in feasible(rec.paths()):
        ret = [e for e in p.events if e.kind == 'ret'][0].d['value']
        w = [e for e in p.events if e.kind == 'assign' and has_call(e.d['place'], '~RwLock')]
        stale = holds_rel(p, len(p.events), lambda op, l, r: op == 'Le' and l == ('arg', 2) and is_field(r, 'EntryState.incarnation'))
        newer = holds_rel(p, len(p.events), lambda op, l, r: op == 'Gt' and l == ('arg', 2) and is_field(r, 'EntryState.incarnation'))
        if w:
            n_w += 1
            v = w[0].d['value']
            ok = newer and path_truth(p, ret) is True and v[0] == 'agg' and v[1].endswith('EntryState') and v[3] == (('arg', 2), ('arg', 3))
            if not ok:
                bad.append(p)
        else:
            if not (stale and path_truth(p, ret) is False):
                bad.append(p)
    ctx.ob('B8', rec, 'record-only-newer-incarnation', n_w == 1 and not bad, f'{len(bad)} deviating path(s)', site=rec.loc(rec.b['lo']),
           what='a record is accepted only for a strictly newer incarnation (a stale execution must not resurrect data invalidated by validation), and writes (incarnation, value)')
    inv = ctx.fn('beneficiary::history::HistoryEntry::invalidate')
    bad = []
    n_w = 0
    for p in feasible(inv.paths()):
        ret = [e for e in p.events if e.kind == 'ret'][0].d['value']
        w = [e for e in p.events if e.kind == 'assign' and has_call(e.d['place'], '~RwLock')]
        same = holds_rel(p, len(p.events), lambda op, l, r: op == 'Eq' and is_field(l, 'EntryState.incarnation') and r == ('arg', 2))
        if w:
            n_w += 1
            if not (same and variant_of(w[0].d['value']) == 'Estimate' and is_field(w[0].d['place'], 'EntryState.value')):
                bad.append(p)
        if ret == ('const', 'true') and not same:
            bad.append(p)
        if ret == ('const', 'false') and same:
            bad.append(p)
        ex = [a for a in p.events if a.kind == 'atom' and a.d['term'][0] == 'discr' and is_field(a.d['term'][1], 'EntryState.value') and a.d['outcome'] == 'Exact']
        if ex and not w:
            bad.append(p)
    ctx.ob('B8', inv, 'invalidate-only-the-inspected-incarnation', n_w >= 1 and not bad, f'{len(bad)} deviating path(s)', site=inv.loc(inv.b['lo']),
           what='a delayed validation failure of incarnation n must not invalidate what incarnation n+1 published; an Exact entry of the same incarnation becomes an Estimate')
    sc = ctx.fn('beneficiary::history::BeneficiaryHistory::scan_before')
    bad = []
    kinds = set()
    for p in feasible(sc.paths(max_visits=2)):
        ret = [e for e in p.events if e.kind == 'ret'][0].d['value']
        rev = [e for e in p.events if e.kind == 'call' and e.d['callee'].endswith('::rev')]
        ok_iter = rev and rev[0].d['args'][0][0] == 'agg' and rev[0].d['args'][0][1].endswith('ops::Range') and rev[0].d['args'][0][3] == (('const', '0_usize'), ('arg', 2))
        if not ok_iter:
            bad.append((p, 'writers are not scanned as (0..txid).rev()'))
            continue
        val = [a for a in p.events if a.kind == 'atom' and a.d['term'][0] == 'discr' and is_field(a.d['term'][1], 'EntryState.value')]
        eff = [a for a in p.events if a.kind == 'atom' and a.d['term'][0] == 'discr' and len(a.d['term']) > 2 and a.d['term'][2].endswith('BeneficiaryEffect')]
        pushes = [e for e in p.events if e.kind == 'call' and norm_callee(e.d['callee']).endswith('Vec::push')]
        if not val:
            kinds.add('empty')
            if not (ret[0] == 'agg' and ret[2] == 'Ok' and mentions_field(ret, 'BeneficiaryHistory.block_anchor')):
                bad.append((p, 'no writers ⇒ the anchor'))
            continue
        if val[0].d['outcome'] == 'Estimate':
            kinds.add('estimate')
            w = [s for s in subterms(val[0].d['term'][1]) if s[0] == 'call' and s[1].endswith('::index')]
            if not (ret[0] == 'agg' and ret[2] == 'Err' and w and ret[3][0] == w[0][2][1]):
                bad.append((p, 'an estimate must block with Err(that writer)'))
            if pushes:
                bad.append((p, 'estimate recorded as an origin'))
            continue
        # exact: origin recorded
        org = [e for e in pushes if e.d['args'][1][0] == 'call' and e.d['args'][1][1].endswith('TxVersion::new') or (e.d['args'][1][0] == 'agg' and e.d['args'][1][1].endswith('TxVersion'))]
        if not org:
            bad.append((p, 'exact entry not recorded as an origin'))
        else:
            a = org[0].d['args'][1]
            args = a[2] if a[0] == 'call' else a[3]
            if not (is_field(strip(args[1]), 'EntryState.incarnation')):
                bad.append((p, 'origin does not carry the entry\'s incarnation'))
        if eff:
            k = eff[0].d['outcome']
            kinds.add(k)
            if k == 'Reward' and not [e for e in pushes if mentions_field(e.d['args'][1], 'BeneficiaryEffect::Reward.0') or 'Reward' in show(e.d['args'][1])]:
                bad.append((p, 'reward not collected'))
            if k == 'Snapshot':
                if not (ret[0] == 'agg' and ret[2] == 'Ok' and 'Snapshot' in show(ret)):
                    bad.append((p, 'a snapshot must terminate the scan with itself as base'))
            if k == 'Unchanged' and len(pushes) != 1:
                bad.append((p, 'Unchanged contributes only an origin'))
    ctx.ob('B8', sc, 'scan-table', {'estimate', 'Reward', 'Snapshot', 'Unchanged'} <= kinds and not bad, '; '.join(sorted(set(w for _, w in bad))[:3]) + f' kinds={sorted(kinds)}', site=sc.loc(sc.b['lo']),
           what='writers are scanned newest-first below txid; an estimate blocks; every exact entry is an origin (with its incarnation); rewards accumulate; a snapshot (or the anchor) is the base')
    rs = ctx.fn('beneficiary::history::HistoryScan::resolve')
    # the engine turns `iter.fold(init, f)` into the loop it abbreviates, so both spellings give: next(rev(rewards)) -> apply_to(item, acc)
    ok = cl_ok = False
    badr = []
    for p in feasible(rs.paths()):
        ret = [e for e in p.events if e.kind == 'ret'][0].d['value']
        its = [a for a in p.events if a.kind == 'atom' and a.d['term'][0] == 'discr' and a.d['term'][1][0] == 'call' and a.d['term'][1][1].endswith('::next')
               and mentions_field(a.d['term'][1], 'HistoryScan.rewards_newest_first')]
        if not its:
            badr.append('the collected rewards are not iterated')
            continue
        if not all(has_call(a.d['term'][1], '::rev') for a in its):
            badr.append('rewards are not folded oldest-first (collected newest-first, so the iteration must be reversed)')
        else:
            ok = True
        ap = calls(p, 'DeferredBeneficiaryReward::apply_to')
        if its[0].d['outcome'] == 'Some':
            item = ('down', its[0].d['term'][1], 'Some')
            if not ap or not mentions(ap[0].d['args'][0], item) or not is_field(strip(ap[0].d['args'][1]), 'HistoryScan.base'):
                badr.append('the first reward is not applied to the base account')
            elif not mentions(ret, ap[-1].d['result']):
                badr.append('the folded account is not what resolve returns')
            else:
                cl_ok = True
        else:
            if ap or not mentions_field(ret, 'HistoryScan.base'):
                badr.append('without rewards resolve must return the base account')
    ctx.ob('B8', rs, 'rewards-folded-oldest-first-with-checked-add', ok and cl_ok and not badr, f'iteration over rev()={ok} apply_to on base={cl_ok}; ' + '; '.join(sorted(set(badr))[:2]), site=rs.loc(rs.b['lo']),
           what='checked addition must happen in transaction order (combining rewards first differs when one addition overflows)')
    fe = ctx.fn('beneficiary::history::BeneficiaryEffect::from_execution')
    mp = set()
    for p in feasible(fe.paths()):
        ret = [e for e in p.events if e.kind == 'ret'][0].d['value']
        d1 = [a for a in p.events if a.kind == 'atom' and a.d['term'][0] == 'discr' and strip(a.d['term'][1]) == ('arg', 1)]
        fa = [a for a in p.events if a.kind == 'atom' and a.d['term'][0] == 'discr' and len(a.d['term']) > 2 and a.d['term'][2].endswith('FinalizedAccount')]
        # presence of the beneficiary state write (however `account` is tested: map / match / if let)
        acc = [of[1] for of in (option_fact(a) for a in p.events) if of and of[1] in ('None', 'Some') and strip(of[0]) == ('arg', 2)]
        if d1 and d1[0].d['outcome'] == 'Some':
            acc = []
        key = (d1[0].d['outcome'] if d1 else None, acc[-1] if acc else None, fa[0].d['outcome'] if fa else None)
        val = variant_of(ret) + (':' + (variant_of(ret[3][0]) or '') if variant_of(ret) == 'Snapshot' else '')
        mp.add((key, val))
    exp = {(('Some', None, None), 'Reward'), (('None', 'None', None), 'Unchanged'), (('None', 'Some', 'Unchanged'), 'Unchanged'), (('None', 'Some', 'Deleted'), 'Snapshot:None'),
           (('None', 'Some', 'Created'), 'Snapshot:Some'), (('None', 'Some', 'Updated'), 'Snapshot:Some')}
    ctx.ob('B8', fe, 'effect-derivation-table', mp == exp, f'extra {sorted(map(str, mp - exp))[:3]} missing {sorted(map(str, exp - mp))[:3]}', site=fe.loc(fe.b['lo']),
           what='deferred reward ⇒ Reward; no/unchanged beneficiary account ⇒ Unchanged; deleted ⇒ Snapshot(None); created/updated ⇒ Snapshot(Some(info))')
    # who writes history entries
    w = set()
    for b in ctx.facts.production():
        if 'beneficiary::history' not in b['fn']:
            continue
        for bl in b['blocks']:
            t = bl['term']
            if not bl['cleanup'] and t['k'] == 'call' and norm_callee(t['callee']).endswith('RwLock::write'):
                w |= ctx.facts.owners(b['fn'])
    ctx.ob('B8', 'beneficiary::history', 'who-writes-history-entries', w == {'record', 'invalidate'}, f'{sorted(w)}')

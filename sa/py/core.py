"""Runner plumbing: fact export (E0 invocation), obligations, known findings, evidence, exit codes."""
import os, sys, json, time, subprocess, fcntl, shutil, glob, hashlib, traceback

VERIF = os.path.dirname(os.path.dirname(os.path.dirname(os.path.abspath(__file__))))
REPO = os.environ.get('VERIF_REPO', '/repo')
CACHE = os.environ.get('VERIF_CACHE', os.path.join(VERIF, '.cache'))
DRIVER_SRC = os.path.join(VERIF, 'sa', 'driver')
DRIVER_BIN = os.path.join(CACHE, 'driver-target', 'release', 'grevm-facts-driver')
EXT_LIST = os.path.join(VERIF, 'sa', 'specs', 'ext_bodies.txt')

sys.path.insert(0, os.path.dirname(os.path.abspath(__file__)))
import mirlib  # noqa: E402


class AnalysisFailed(Exception):
    pass


def _env():
    env = dict(os.environ)
    env['CARGO_NET_OFFLINE'] = 'true'
    sysroot = subprocess.run(['rustc', '+nightly', '--print', 'sysroot'], capture_output=True, text=True).stdout.strip()
    env['LD_LIBRARY_PATH'] = sysroot + '/lib' + (':' + env['LD_LIBRARY_PATH'] if env.get('LD_LIBRARY_PATH') else '')
    return env


def build_driver(force=False):
    os.makedirs(CACHE, exist_ok=True)
    src_m = max(os.path.getmtime(p) for p in glob.glob(os.path.join(DRIVER_SRC, 'src', '*.rs')) + [os.path.join(DRIVER_SRC, 'Cargo.toml')])
    if not force and os.path.exists(DRIVER_BIN) and os.path.getmtime(DRIVER_BIN) >= src_m:
        return
    r = subprocess.run(['cargo', '+nightly', 'build', '--release', '--offline'], cwd=DRIVER_SRC,
                       env=dict(_env(), CARGO_TARGET_DIR=os.path.join(CACHE, 'driver-target')),
                       capture_output=True, text=True)
    if r.returncode != 0:
        raise AnalysisFailed('driver build failed:\n' + r.stderr[-3000:])


def export_facts(repo=None, features=None, tag='default', target=None, quiet=True):
    """run the exporter on `repo` (current working tree) and return the fact-file path.  The file is
    reused only when it was produced from exactly the same source hash (a sibling invocation a
    moment ago); otherwise the grevm fingerprints are removed so cargo re-runs the driver."""
    repo = repo or REPO
    os.makedirs(CACHE, exist_ok=True)
    lockname = 'lock' if not target else 'lock-' + os.path.basename(target.rstrip('/'))
    lock = open(os.path.join(CACHE, lockname), 'w')
    fcntl.flock(lock, fcntl.LOCK_EX)
    try:
        if not target:
            build_driver()
        h = mirlib.src_hash(repo)
        with open(EXT_LIST, 'rb') as f:
            h2 = hashlib.sha256(h.encode() + f.read() + open(os.path.join(DRIVER_SRC, 'src', 'main.rs'), 'rb').read() + (features or '').encode()).hexdigest()
        out = os.path.join(CACHE, f'facts-{tag}.json')
        if os.path.exists(out):
            try:
                with open(out) as f:
                    head = f.read()
                if f'"src_hash":"{h2}"' in head[-400:]:
                    return out
            except OSError:
                pass
        target = target or os.path.join(CACHE, 'target')
        for fp in glob.glob(os.path.join(target, 'debug', '.fingerprint', 'grevm-*')):
            shutil.rmtree(fp, ignore_errors=True)
        if os.path.exists(out):
            os.remove(out)
        env = _env()
        env.update({
            'DRV_OUT': out, 'DRV_EXT': EXT_LIST, 'DRV_SRC_HASH': h2,
            'RUSTFLAGS': '-Zmir-opt-level=0 -Zalways-encode-mir -Awarnings',
            'RUSTC_WORKSPACE_WRAPPER': DRIVER_BIN,
            'CARGO_TARGET_DIR': target,
        })
        cmd = ['cargo', '+nightly', 'check', '--offline', '--lib']
        if features:
            cmd += ['--features', features]
        r = subprocess.run(cmd, cwd=repo, env=env, capture_output=True, text=True)
        if r.returncode != 0:
            errs = [l for l in r.stderr.splitlines() if l.startswith('error')]
            raise AnalysisFailed('cargo check failed: ' + (errs[0] if errs else r.stderr[-1500:]))
        if not os.path.exists(out):
            raise AnalysisFailed('fact file was not written by the driver (stale cargo cache?)')
        with open(out) as f:
            tail = f.read()[-400:]
        if f'"src_hash":"{h2}"' not in tail:
            raise AnalysisFailed('fact file carries a different source hash')
        return out
    finally:
        fcntl.flock(lock, fcntl.LOCK_UN)
        lock.close()


# ------------------------------------------------------------------------------------------------


class Ob:
    def __init__(self, prop, rule, fn, instance, ok, detail='', site='', what=''):
        self.prop = prop
        self.rule = rule
        self.fn = fn
        self.instance = instance
        self.ok = ok
        self.detail = detail
        self.site = site
        self.what = what

    @property
    def key(self):
        return f'{self.prop}|{self.rule}|{self.fn}|{self.instance}'

    def to_json(self):
        return {'key': self.key, 'rule': self.rule, 'fn': self.fn, 'instance': self.instance, 'ok': self.ok,
                'site': self.site, 'detail': self.detail, 'what': self.what}


class Ctx:
    """one check run for one property"""

    def __init__(self, prop, facts, tier='quick', seed=0, facts_path=''):
        self.prop = prop
        self.facts = facts
        self.tier = tier
        self.seed = seed
        self.obs = []
        self.functions = set()
        self.sites = {}
        self.notes = []
        self.facts_path = facts_path
        self._rule_stack = []
        al = getattr(facts, 'aliases', None) or {}
        for kind, m in al.items():
            for newn, oldn in sorted(m.items()):
                self.notes.append(f'{kind[:-1]} `{newn}` is analysed under its pinned name `{oldn}` (recognised as a rename/move; sa/py/aliases.py)')

    def fn(self, *a, **k):
        f = self.facts.fn(*a, **k)
        self.functions.add(f.name)
        return f

    def method(self, ty, m):
        b = self.facts.method(ty, m)
        f = self.facts.fn(b)
        self.functions.add(f.name)
        return f

    def ob(self, rule, fn, instance, ok, detail='', site='', what=''):
        fname = fn.name if hasattr(fn, 'name') else str(fn)
        if rule in getattr(self, 'skip_rules', ()):
            return ok
        self.obs.append(Ob(self.prop, rule, short_fn(fname), instance, bool(ok), detail, site, what))
        return ok

    def count(self, rule, n):
        self.sites[rule] = self.sites.get(rule, 0) + n

    def note(self, s):
        self.notes.append(s)

    def guarded(self, rule, fnname, body):
        """run a rule body; an AnchorLost inside it becomes a failed obligation (fail closed)"""
        try:
            body()
        except mirlib.AnchorLost as e:
            self.ob(rule, fnname, 'anchor', False, f'anchor lost: {e}', what='a rule matching zero sites would pass vacuously; failing closed')
        except mirlib.PathBudget as e:
            self.ob(rule, fnname, 'path-budget', False, f'path budget exceeded in {e}')
        except Exception as e:  # an unexpected code shape the rule cannot read: fail closed, naming the rule, instead of crashing the check
            tb = traceback.extract_tb(e.__traceback__)[-1]
            self.ob(rule, fnname, 'anchor', False, f'anchor lost: the rule could not read the code it is anchored on ({type(e).__name__}: {e} at {os.path.basename(tb.filename)}:{tb.lineno})',
                    what='a rule that cannot read its anchor passes vacuously if ignored; failing closed')


def short_fn(name):
    import re
    n = re.sub(r'<[^<>]*>', '', name)
    n = re.sub(r'<[^<>]*>', '', n)
    n = n.replace('::::', '::').replace(':: ', '::')
    parts = [p for p in n.split('::') if p and p != 'impl']
    return '::'.join(parts[-2:])


def load_known():
    known, fixed = {}, []
    p = os.path.join(VERIF, 'known_findings.txt')
    if os.path.exists(p):
        for line in open(p):
            line = line.strip()
            if not line or line.startswith('#'):
                continue
            if line.startswith('known:'):
                rest = line[6:].strip()
                parts = rest.split(None, 2)
                prop = parts[0].split('=', 1)[1]
                key = parts[1]
                known[key] = (prop, parts[2] if len(parts) > 2 else '')
            elif line.startswith('fixed:'):
                fixed.append(line)
    return known, fixed


def finish(ctx, level, explanation, trusted_base, assumptions, t0, extra=None):
    """apply known findings, write evidence, print, and return the exit code"""
    known, fixed = load_known()
    viol = []
    kf = []
    for o in ctx.obs:
        if o.ok:
            continue
        if o.key in known and known[o.key][0] == ctx.prop:
            kf.append(o)
        else:
            viol.append(o)
    # de-duplicate by key
    seen = set()
    uniq = []
    for o in ctx.obs:
        if o.key in seen and o.ok:
            continue
        seen.add(o.key)
        uniq.append(o)
    obligations = len(uniq)
    discharged = sum(1 for o in uniq if o.ok)
    samples = [o.to_json() for o in uniq if o.ok][:8]
    for o in viol[:10]:
        samples.append(o.to_json())
    cov = {
        'explanation': explanation,
        'obligations': obligations,
        'discharged': discharged,
        'checker_cmd': f'./check {ctx.prop}' + (' --thorough' if ctx.tier == 'thorough' else ''),
        'trusted_base': trusted_base,
        'functions_analysed': sorted(ctx.functions),
        'n_functions_analysed': len(ctx.functions),
        'sites_matched_per_rule': ctx.sites,
        'rules': sorted(set(o.rule for o in uniq)),
        'interprocedural': 'path rules are intra-procedural (closures analysed as own bodies); reachability / may-call / lock-class rules use the whole crate call graph',
        'path_bound': 'every CFG block visited at most 2 times per path (3 where a rule says so); all such paths of the anchored functions are enumerated',
        'fact_file': os.path.basename(ctx.facts_path),
        'fact_src_hash': ctx.facts.meta.get('src_hash', ''),
        'bodies_in_fact_file': len(ctx.facts.bodies),
        'known_findings_suppressed': [o.key for o in kf],
        'notes': ctx.notes,
        'samples': samples,
        'all_obligations': [o.key + (' :: OK' if o.ok else ' :: FAILED') for o in uniq],
        'exhaustive': True,
    }
    if extra:
        cov.update(extra)
    ev = {
        'property_id': ctx.prop,
        'tier': ctx.tier,
        'seed': ctx.seed,
        'level': level,
        'coverage': cov,
        'assumptions': assumptions,
        'wall_s': round(time.time() - t0, 3),
        'violations': len(viol),
    }
    os.makedirs(os.path.join(VERIF, 'evidence'), exist_ok=True)
    evp = os.path.join(VERIF, 'evidence', f'{ctx.prop}.json')
    validate_evidence(ev)
    tmp = evp + f'.tmp{os.getpid()}'
    with open(tmp, 'w') as f:
        json.dump(ev, f, indent=1)
    os.replace(tmp, evp)
    vp = os.path.join(VERIF, 'evidence', f'{ctx.prop}.violations.json')
    for o in kf:
        print(f'KNOWN-FINDING: property={ctx.prop} {o.key} {known[o.key][1]}')
    print(f'[{ctx.prop}] tier={ctx.tier} obligations={obligations} discharged={discharged} '
          f'functions={len(ctx.functions)} wall={ev["wall_s"]}s')
    if viol:
        with open(vp, 'w') as f:
            json.dump({'property': ctx.prop, 'violations': [o.to_json() for o in viol]}, f, indent=1)
        for o in viol:
            print(f'  FAILED {o.key}\n     at {o.site}\n     {o.detail}' + (f'\n     why it matters: {o.what}' if o.what else ''))
        print(f'VIOLATION property={ctx.prop} replay={vp}')
        return 1
    if os.path.exists(vp):
        os.remove(vp)
    return 0


def validate_evidence(ev):
    schema_p = '/root/.vp/EVIDENCE.schema.json'
    try:
        import jsonschema  # tooling venv only
        if os.path.exists(schema_p):
            jsonschema.validate(ev, json.load(open(schema_p)))
            return
    except ImportError:
        pass
    # built-in structural check
    for k in ('property_id', 'tier', 'seed', 'level', 'coverage', 'wall_s'):
        assert k in ev, f'evidence lacks {k}'
    c = ev['coverage']
    if ev['level'] == 'proof':
        assert c['obligations'] >= 1 and c['discharged'] >= 1 and c['checker_cmd'].strip() and isinstance(c['trusted_base'], list)
    else:
        assert isinstance(c.get('explanation'), str) and c['explanation'].strip()

#!/bin/bash
# verify_seed.sh <id> <cargo-test-args for the demo...>
# In the agent's scratch worktree: (1) demo with patch must FAIL, (2) demo without patch must PASS,
# (3) the existing suite with the patch (demo removed) must PASS.  Writes /tmp/seed/out-<id>/verify.json
id=$1; shift
wt=/tmp/seed/wt-$id; out=/tmp/seed/out-$id
cd $wt || exit 2
git checkout -q -- . ; git clean -fdq -e target
git apply $out/patch.diff && git apply $out/demo.diff || { echo "{\"id\":\"$id\",\"error\":\"apply failed\"}" > $out/verify.json; exit 2; }
cargo test --offline "$@" > $out/v1_demo_with_patch.log 2>&1; r1=$?
git apply -R $out/patch.diff
cargo test --offline "$@" > $out/v2_demo_without_patch.log 2>&1; r2=$?
git apply -R $out/demo.diff; git clean -fdq -e target; git apply $out/patch.diff
cargo test --offline --workspace --no-fail-fast > $out/v3_suite_with_patch.log 2>&1; r3=$?
pass3=$(grep -h "^test result" $out/v3_suite_with_patch.log | head -1)
git checkout -q -- . ; git clean -fdq -e target
echo "{\"id\":\"$id\",\"demo_cmd\":\"cargo test --offline $*\",\"demo_with_patch_exit\":$r1,\"demo_without_patch_exit\":$r2,\"suite_with_patch_exit\":$r3,\"suite_summary\":\"$pass3\"}" > $out/verify.json
cat $out/verify.json

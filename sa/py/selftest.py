#!/usr/bin/env python3
"""Both-ways self-test: apply small edits to a scratch copy of the CURRENT /repo, re-export facts, run
the rules, and require that mutants are reported (naming the expected rule) and benign variants are
not.  Nothing here runs grevm code: the scratch copy is only type-checked by the exporter."""
import sys, os, json, shutil, subprocess, tempfile, time
sys.path.insert(0, os.path.dirname(os.path.abspath(__file__)))
import core, mirlib, props


def make_scratch(edits, base=None, patch=None):
    """copy the working tree (src, Cargo.*), apply an optional patch file (a behaviour-preserving
    refactor kept under sa/benign) and then (file, old, new) edits; returns dir or None if something
    does not apply"""
    base = base or core.REPO
    d = tempfile.mkdtemp(prefix='grevm-selftest-', dir=os.environ.get('TMPDIR', '/tmp'))
    for item in ('src', 'Cargo.toml', 'Cargo.lock', 'benches', 'tests', 'rust-toolchain.toml'):
        s = os.path.join(base, item)
        if os.path.isdir(s):
            shutil.copytree(s, os.path.join(d, item))
        elif os.path.exists(s):
            shutil.copy2(s, os.path.join(d, item))
    if patch:
        r = subprocess.run(['git', 'apply', os.path.join(core.VERIF, patch)], cwd=d, capture_output=True, text=True)
        if r.returncode != 0:
            shutil.rmtree(d, ignore_errors=True)
            return None, f'patch {patch} does not apply to the current tree: {r.stderr.strip()[:120]}'
    for file, old, new in edits:
        p = os.path.join(d, file)
        txt = open(p).read()
        if txt.count(old) != 1:
            shutil.rmtree(d, ignore_errors=True)
            return None, f'edit anchor occurs {txt.count(old)} times in {file}: {old[:60]!r}'
        open(p, 'w').write(txt.replace(old, new))
    return d, ''


def worker_target(i):
    """a private copy of the dependency cache so several scratch exports can run side by side"""
    base = os.path.join(core.CACHE, 'target')
    t = os.path.join(core.CACHE, f'target-st{i}')
    if not os.path.isdir(t) and os.path.isdir(base):
        tmp = t + f'.tmp{os.getpid()}'
        shutil.copytree(base, tmp, symlinks=True)
        try:
            os.rename(tmp, t)
        except OSError:
            shutil.rmtree(tmp, ignore_errors=True)
    return t


def run_case(case, tag='st', target=None):
    d, why = make_scratch(case['edits'], patch=case.get('patch'))
    if d is None:
        return dict(name=case['name'], status='skipped', why=why)
    try:
        try:
            fp = core.export_facts(repo=d, tag=tag, target=target)
        except core.AnalysisFailed as e:
            return dict(name=case['name'], status='does-not-compile', why=str(e)[:300])
        facts = mirlib.Facts(fp)
        failed = {}
        for pid in case['props']:
            ctx = core.Ctx(pid, facts, 'quick', 0, fp)
            ctx.skip_rules = set(props.PROPS[pid].get('skip_rules', ()))
            for rule in props.PROPS[pid]['rules']:
                ctx.guarded(rule.__name__, rule.__module__, lambda: rule(ctx))
            failed[pid] = [o.key for o in ctx.obs if not o.ok]
        return dict(name=case['name'], status='ran', failed=failed)
    finally:
        shutil.rmtree(d, ignore_errors=True)
        try:
            os.remove(os.path.join(core.CACHE, f'facts-{tag}.json'))
        except OSError:
            pass


def judge(case, res):
    if res['status'] != 'ran':
        return res['status'], res.get('why', '')
    if case['kind'] == 'mutant':
        missing = []
        for pid in case['props']:
            keys = res['failed'][pid]
            exp = case.get('expect', [])
            if not keys:
                missing.append(f'{pid}: no report')
            elif exp and not any(any(x in k for x in exp) for k in keys):
                missing.append(f'{pid}: reported {keys} but none names {exp}')
        return ('detected', '') if not missing else ('MISSED', '; '.join(missing))
    else:
        noisy = {pid: k for pid, k in res['failed'].items() if k}
        return ('silent', '') if not noisy else ('FALSE-ALARM', json.dumps(noisy))


def main():
    import mutants
    names = sys.argv[1:]
    jobs = 1
    if '-j' in names:
        i = names.index('-j')
        jobs = int(names[i + 1])
        del names[i:i + 2]
    cases = [c for c in mutants.CASES if not names or c['name'] in names or any(n in c['props'] for n in names)]
    bad = 0
    only_prop = None
    if '--prop' in names:
        i = names.index('--prop')
        only_prop = names[i + 1]
        del names[i:i + 2]
    slot = None
    if '--slot' in names:
        i = names.index('--slot')
        slot = int(names[i + 1])
        del names[i:i + 2]
        cases = [c for c in mutants.CASES if c['name'] in names]
    if only_prop:
        cases = [dict(c, props=[only_prop]) for c in cases if only_prop in c['props']]
    if jobs > 1:
        # one child process per slot (the rules are CPU-bound Python: threads would serialise on the GIL)
        core.build_driver()
        chunks = [cases[i::jobs] for i in range(jobs)]
        procs = []
        for i, ch in enumerate(chunks):
            if not ch:
                continue
            worker_target(i)
            procs.append(subprocess.Popen([sys.executable, os.path.abspath(__file__), '--slot', str(i)] + (['--prop', only_prop] if only_prop else []) + [c['name'] for c in ch], stdout=subprocess.PIPE, text=True))
        for p in procs:
            out, _ = p.communicate()
            for line in out.splitlines():
                if line.endswith(' bad') and ' cases, ' in line:
                    bad += int(line.split(' cases, ')[1].split()[0])
                else:
                    print(line, flush=True)
        print(f'{len(cases)} cases, {bad} bad')
        sys.exit(1 if bad else 0)
    if slot is not None:
        for c in cases:
            t = time.time()
            res = run_case(c, tag=f'stj-{slot}', target=worker_target(slot))
            verdict, why = judge(c, res)
            print(f'{verdict:12s} {c["kind"]:7s} {c["name"]:45s} {time.time()-t:5.1f}s {why[:400]}', flush=True)
            if verdict in ('MISSED', 'FALSE-ALARM'):
                bad += 1
                if res.get('failed'):
                    print('      reported:', json.dumps(res['failed'])[:1500])
        print(f'{len(cases)} cases, {bad} bad')
        sys.exit(1 if bad else 0)
    for c in cases:
        t = time.time()
        res = run_case(c)
        verdict, why = judge(c, res)
        print(f'{verdict:12s} {c["kind"]:7s} {c["name"]:45s} {time.time()-t:5.1f}s {why[:400]}')
        if verdict in ('MISSED', 'FALSE-ALARM'):
            bad += 1
            if res.get('failed'):
                print('      reported:', json.dumps(res['failed'])[:1500])
    print(f'{len(cases)} cases, {bad} bad')
    sys.exit(1 if bad else 0)


if __name__ == '__main__':
    main()

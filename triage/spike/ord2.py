import json,collections,sys
sys.path.insert(0,'/tmp/probe/py')
exec(open('/tmp/probe/py/ord.py').read().split("def chk")[0])
def chk(name,ok,detail=''): print(('OK  ' if ok else 'FAIL'),name,detail)
def guard_locals(g,tysub):
    return [l['i'] for l in g.b['locals'] if tysub in l['ty'] and l['ty'].startswith('parking_lot::lock_api::MutexGuard')]
def live_blocks(g,local):
    # blocks where guard `local` may be live: from def (call dest) until drop(local) or move out
    defs=[bb for bb,x in g.bl.items() if x['term']['k']=='call' and x['term']['dest']['local']==local and not x['term']['dest']['proj']]
    kills=set()
    for bb,x in g.bl.items():
        t=x['term']
        if t['k']=='drop' and t['p']['local']==local and not t['p']['proj']: kills.add(bb)
        if t['k']=='call' and any(a['k']=='move' and a['p']['local']==local and not a['p']['proj'] for a in t['args']): kills.add(bb)
        for st in x['stmts']:
            rv=st['rv']
            if rv['k']=='use' and rv['o']['k']=='move' and rv['o']['p']['local']==local and not rv['o']['p']['proj']: kills.add(bb)
    live=set()
    st=[g.bl[d]['term']['t'] for d in defs]
    while st:
        n=st.pop()
        if n in live or n not in g.bl: continue
        live.add(n)
        if n in kills: continue
        st+=g.succ[n]
    return defs,kills,live
for fn in ['scheduler::Scheduler::<DB>::execute_task','scheduler::Scheduler::<DB>::validate']:
    g=G(by[fn])
    gl=[l for l in guard_locals(g,'TxState') if g.b['locals'][l]['name']]
    print(fn,'TS guard locals',[(l,g.b['locals'][l]['name']) for l in gl])
    for l in gl:
        defs,kills,live=live_blocks(g,l)
        rw=g.calls('rewind_validation_to')
        chk(f'N7 rewinds under guard _{l}', all(r in live and r not in kills for r in rw), f'rw={rw} kills={sorted(kills)}')
# L3: returns after attempt without status write must be dominated by abort
e=G(by['scheduler::Scheduler::<DB>::execute_task'])
att=e.calls('execute_incarnation')[0]
ab=e.calls('>::abort')
exd=e.calls('SchedulerContext::executed')
# find return-ish blocks: predecessors of the unique return block that are reachable from att
ret=[bb for bb,x in e.bl.items() if x['term']['k']=='return']
print('returns',ret,'aborts',ab,'executed',exd)
# paths from att to ret avoiding executed and avoiding abort => violation
def reach_avoid(g,start,avoid):
    seen=set();st=[start]
    while st:
        n=st.pop()
        if n in seen or n in avoid: continue
        seen.add(n); st+=g.succ[n]
    return seen
r=reach_avoid(e,e.bl[att]['term']['t'],set(ab)|set(exd))
chk('L3/L7 execute_task: after attempt every path to return passes abort() or executed()', not any(x in r for x in ret))
c=G(by['scheduler::Scheduler::<DB>::run_commit_loop'])
ab=c.calls('>::abort'); ret=[bb for bb,x in c.bl.items() if x['term']['k']=='return']
print('commit loop returns',ret,'aborts',ab)
w=G(by['scheduler::wait::WaitSlot::wait_while'])
pk=w.calls('park_timeout'); pr=[bb for bb,x in w.bl.items() if x['term']['k']=='call' and 'call_mut' in x['term']['callee']]
print('wait_while park',pk,'pred calls',pr,[w.bl[b]['term']['callee'] for b in pr])

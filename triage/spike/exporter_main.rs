#![feature(rustc_private)]
extern crate rustc_abi;
extern crate rustc_driver;
extern crate rustc_hir;
extern crate rustc_interface;
extern crate rustc_middle;
extern crate rustc_span;

use rustc_driver::{Callbacks, Compilation};
use rustc_hir::def::DefKind;
use rustc_hir::def_id::DefId;
use rustc_interface::interface::Compiler;
use rustc_middle::mir::*;
use rustc_middle::ty::print::with_no_trimmed_paths;
use rustc_middle::ty::{self, Instance, TyCtxt, TypingEnv};
use std::fmt::Write;

fn js(s: &str) -> String {
    let mut o = String::with_capacity(s.len() + 2);
    o.push('"');
    for c in s.chars() {
        match c {
            '"' => o.push_str("\\\""),
            '\\' => o.push_str("\\\\"),
            '\n' => o.push_str("\\n"),
            '\t' => o.push_str("\\t"),
            c if (c as u32) < 0x20 => { let _ = write!(o, "\\u{:04x}", c as u32); }
            c => o.push(c),
        }
    }
    o.push('"');
    o
}

struct Ex<'tcx> { tcx: TyCtxt<'tcx> }

impl<'tcx> Ex<'tcx> {
    fn place(&self, body: &Body<'tcx>, p: &Place<'tcx>) -> String {
        let tcx = self.tcx;
        let mut out = format!("{{\"local\":{},\"proj\":[", p.local.as_usize());
        let mut pty = rustc_middle::mir::PlaceTy::from_ty(body.local_decls[p.local].ty);
        let mut first = true;
        for elem in p.projection.iter() {
            if !first { out.push(','); }
            first = false;
            match elem {
                ProjectionElem::Deref => out.push_str("\"*\""),
                ProjectionElem::Field(f, _) => {
                    let name = match pty.ty.kind() {
                        ty::Adt(def, _) => {
                            let v = pty.variant_index.unwrap_or(rustc_abi::FIRST_VARIANT);
                            let vd = def.variant(v);
                            let adt = with_no_trimmed_paths!(tcx.def_path_str(def.did()));
                            if def.is_enum() { format!("{}::{}.{}", adt, vd.name, vd.fields[f].name) } else { format!("{}.{}", adt, vd.fields[f].name) }
                        }
                        ty::Closure(did, _) => {
                            let caps: Vec<_> = tcx.closure_captures(did.expect_local()).iter().map(|c| c.to_string(tcx)).collect();
                            format!("upvar:{}", caps.get(f.as_usize()).cloned().unwrap_or_else(|| format!("{}", f.as_usize())))
                        }
                        _ => format!("{}", f.as_usize()),
                    };
                    out.push_str(&js(&name));
                }
                ProjectionElem::Downcast(name, _) => out.push_str(&js(&format!("as:{}", name.map(|n| n.to_string()).unwrap_or_default()))),
                ProjectionElem::Index(l) => out.push_str(&js(&format!("[_{}]", l.as_usize()))),
                other => out.push_str(&js(&format!("{:?}", other))),
            }
            pty = pty.projection_ty(tcx, elem);
        }
        out.push_str("]}");
        out
    }
    fn operand(&self, body: &Body<'tcx>, o: &Operand<'tcx>) -> String {
        match o {
            Operand::Copy(p) => format!("{{\"k\":\"copy\",\"p\":{}}}", self.place(body, p)),
            Operand::Move(p) => format!("{{\"k\":\"move\",\"p\":{}}}", self.place(body, p)),
            Operand::Constant(c) => {
                let s = with_no_trimmed_paths!(format!("{}", c.const_));
                let t = with_no_trimmed_paths!(format!("{}", c.const_.ty()));
                format!("{{\"k\":\"const\",\"v\":{},\"ty\":{}}}", js(&s), js(&t))
            }
            #[allow(unreachable_patterns)]
            _ => format!("{{\"k\":\"other\",\"v\":{}}}", js(&format!("{:?}", o))),
        }
    }
    fn rvalue(&self, body: &Body<'tcx>, r: &Rvalue<'tcx>) -> String {
        let tcx = self.tcx;
        match r {
            Rvalue::Use(o, _) => format!("{{\"k\":\"use\",\"o\":{}}}", self.operand(body, o)),
            Rvalue::Ref(_, bk, p) => format!("{{\"k\":\"ref\",\"mut\":{},\"p\":{}}}", matches!(bk, BorrowKind::Mut{..}), self.place(body, p)),
            Rvalue::RawPtr(_, p) => format!("{{\"k\":\"rawptr\",\"p\":{}}}", self.place(body, p)),
            Rvalue::BinaryOp(op, ops) => format!("{{\"k\":\"bin\",\"op\":{},\"l\":{},\"r\":{}}}", js(&format!("{:?}", op)), self.operand(body, &ops.0), self.operand(body, &ops.1)),
            Rvalue::UnaryOp(op, o) => format!("{{\"k\":\"un\",\"op\":{},\"o\":{}}}", js(&format!("{:?}", op)), self.operand(body, o)),
            Rvalue::Cast(kind, o, t) => format!("{{\"k\":\"cast\",\"ck\":{},\"o\":{},\"ty\":{}}}", js(&format!("{:?}", kind)), self.operand(body, o), js(&with_no_trimmed_paths!(t.to_string()))),
            Rvalue::Discriminant(p) => {
                let pt = p.ty(body, tcx).ty;
                format!("{{\"k\":\"discr\",\"p\":{},\"ty\":{}}}", self.place(body, p), js(&with_no_trimmed_paths!(pt.to_string())))
            }
            Rvalue::Aggregate(kind, ops) => {
                let (kname, fields): (String, Vec<String>) = match &**kind {
                    AggregateKind::Adt(did, v, _, _, _) => {
                        let def = tcx.adt_def(*did);
                        let vd = def.variant(*v);
                        let adt = with_no_trimmed_paths!(tcx.def_path_str(*did));
                        let n = if def.is_enum() { format!("{}::{}", adt, vd.name) } else { adt };
                        (n, vd.fields.iter().map(|f| f.name.to_string()).collect())
                    }
                    AggregateKind::Tuple => ("tuple".into(), vec![]),
                    AggregateKind::Closure(did, _) => (format!("closure:{}", with_no_trimmed_paths!(tcx.def_path_str(*did))), vec![]),
                    other => (format!("{:?}", other), vec![]),
                };
                let os: Vec<String> = ops.iter().map(|o| self.operand(body, o)).collect();
                let fs: Vec<String> = fields.iter().map(|f| js(f)).collect();
                format!("{{\"k\":\"agg\",\"adt\":{},\"fields\":[{}],\"ops\":[{}]}}", js(&kname), fs.join(","), os.join(","))
            }
            other => format!("{{\"k\":\"other\",\"v\":{}}}", js(&format!("{:?}", other))),
        }
    }
    fn body(&self, did: DefId, name: &str, body: &Body<'tcx>, out: &mut String) {
        let tcx = self.tcx;
        let sm = tcx.sess.source_map();
        let span = sm.span_to_diagnostic_string(body.span);
        let _ = write!(out, "{{\"fn\":{},\"span\":{},\"argc\":{},\"locals\":[", js(name), js(&span), body.arg_count);
        let mut names = vec![String::new(); body.local_decls.len()];
        for vdi in &body.var_debug_info {
            if let VarDebugInfoContents::Place(p) = &vdi.value {
                if p.projection.is_empty() { names[p.local.as_usize()] = vdi.name.to_string(); }
            }
        }
        for (i, (l, d)) in body.local_decls.iter_enumerated().enumerate() {
            if i > 0 { out.push(','); }
            let _ = write!(out, "{{\"i\":{},\"ty\":{},\"name\":{}}}", l.as_usize(), js(&with_no_trimmed_paths!(d.ty.to_string())), js(&names[l.as_usize()]));
        }
        out.push_str("],\"blocks\":[");
        let tenv = TypingEnv::post_analysis(tcx, did);
        for (bi, (bb, data)) in body.basic_blocks.iter_enumerated().enumerate() {
            if bi > 0 { out.push(','); }
            let _ = write!(out, "{{\"bb\":{},\"cleanup\":{},\"stmts\":[", bb.as_usize(), data.is_cleanup);
            let mut first = true;
            for st in &data.statements {
                if let StatementKind::Assign(b) = &st.kind {
                    if !first { out.push(','); }
                    first = false;
                    let line = sm.lookup_char_pos(st.source_info.span.lo()).line;
                    let _ = write!(out, "{{\"lhs\":{},\"rv\":{},\"line\":{}}}", self.place(body, &b.0), self.rvalue(body, &b.1), line);
                }
            }
            out.push_str("],\"term\":");
            let term = data.terminator();
            let line = sm.lookup_char_pos(term.source_info.span.lo()).line;
            match &term.kind {
                TerminatorKind::Goto { target } => { let _ = write!(out, "{{\"k\":\"goto\",\"t\":{}", target.as_usize()); }
                TerminatorKind::SwitchInt { discr, targets } => {
                    let dty = with_no_trimmed_paths!(discr.ty(body, tcx).to_string());
                    let ts: Vec<String> = targets.iter().map(|(v, t)| format!("[{},{}]", v, t.as_usize())).collect();
                    let _ = write!(out, "{{\"k\":\"switch\",\"d\":{},\"dty\":{},\"targets\":[{}],\"otherwise\":{}", self.operand(body, discr), js(&dty), ts.join(","), targets.otherwise().as_usize());
                }
                TerminatorKind::Return => out.push_str("{\"k\":\"return\""),
                TerminatorKind::Unreachable => out.push_str("{\"k\":\"unreachable\""),
                TerminatorKind::Drop { place, target, .. } => { let _ = write!(out, "{{\"k\":\"drop\",\"p\":{},\"t\":{}", self.place(body, place), target.as_usize()); }
                TerminatorKind::Assert { cond, expected, target, msg, .. } => { let _ = write!(out, "{{\"k\":\"assert\",\"c\":{},\"exp\":{},\"t\":{},\"msg\":{}", self.operand(body, cond), expected, target.as_usize(), js(&format!("{:?}", msg).chars().take(40).collect::<String>())); }
                TerminatorKind::Call { func, args, destination, target, .. } => {
                    let fty = func.ty(body, tcx);
                    let (callee, generic) = if let ty::FnDef(cdid, cargs) = *fty.kind() {
                        let resolved = Instance::try_resolve(tcx, tenv, cdid, cargs).ok().flatten();
                        let n = match resolved { Some(i) => with_no_trimmed_paths!(tcx.def_path_str(i.def_id())), None => with_no_trimmed_paths!(tcx.def_path_str(cdid)) };
                        (n, with_no_trimmed_paths!(format!("{:?}", cargs)))
                    } else { (format!("indirect:{}", with_no_trimmed_paths!(fty.to_string())), String::new()) };
                    let os: Vec<String> = args.iter().map(|a| self.operand(body, &a.node)).collect();
                    let _ = write!(out, "{{\"k\":\"call\",\"callee\":{},\"generic\":{},\"args\":[{}],\"dest\":{},\"t\":{}", js(&callee), js(&generic), os.join(","), self.place(body, destination), target.map(|t| t.as_usize() as i64).unwrap_or(-1));
                }
                other => { let _ = write!(out, "{{\"k\":\"other\",\"v\":{}", js(&format!("{:?}", other).chars().take(60).collect::<String>())); }
            }
            let _ = write!(out, ",\"line\":{}}}}}", line);
        }
        out.push_str("]}");
    }
}

struct Cb;
impl Callbacks for Cb {
    fn after_analysis<'tcx>(&mut self, _c: &Compiler, tcx: TyCtxt<'tcx>) -> Compilation {
        let krate = tcx.crate_name(rustc_span::def_id::LOCAL_CRATE);
        if krate.as_str() != "grevm" { return Compilation::Continue; }
        let ex = Ex { tcx };
        let mut out = String::from("[");
        let mut first = true;
        for def in tcx.hir_body_owners() {
            let did = def.to_def_id();
            let kind = tcx.def_kind(did);
            if !matches!(kind, DefKind::Fn | DefKind::AssocFn | DefKind::Closure) { continue; }
            let name = with_no_trimmed_paths!(tcx.def_path_str(did));
            let body = tcx.optimized_mir(did);
            if !first { out.push_str(",\n"); }
            first = false;
            ex.body(did, &name, body, &mut out);
            for (pi, pb) in tcx.promoted_mir(did).iter_enumerated() {
                out.push_str(",\n");
                ex.body(did, &format!("{}::promoted[{}]", name, pi.as_usize()), pb, &mut out);
            }
        }
        // external bodies (dependency MIR via -Zalways-encode-mir)
        let wanted = ["revm_database::states::CacheAccount::selfdestruct","revm_database::states::CacheAccount::newly_created","revm_database::states::CacheAccount::touch_empty_eip161","revm_database::states::CacheAccount::change","revm_database::CacheState::apply_account_state","revm_database::BundleState::apply_transitions_and_create_reverts","revm_handler::Handler::pre_execution","revm_handler::Handler::post_execution","revm_handler::post_execution::reward_beneficiary"];
        for cnum in tcx.crates(()) {
            let cname = tcx.crate_name(*cnum);
            if !matches!(cname.as_str(), "revm_database"|"revm_handler") { continue; }
            let mut stack = vec![cnum.as_def_id()];
            let mut seen = std::collections::HashSet::new();
            let mut done = std::collections::HashSet::new();
            while let Some(m) = stack.pop() {
                if !seen.insert(m) { continue; }
                for child in tcx.module_children(m) {
                    let Some(did) = child.res.opt_def_id() else { continue };
                    if did.krate != *cnum { continue; }
                    let mut cands: Vec<DefId> = vec![];
                    match tcx.def_kind(did) {
                        DefKind::Mod => stack.push(did),
                        DefKind::Struct | DefKind::Enum => { for imp in tcx.inherent_impls(did).iter() { cands.extend(tcx.associated_item_def_ids(*imp).iter().copied()); } }
                        DefKind::Trait => cands.extend(tcx.associated_item_def_ids(did).iter().copied()),
                        DefKind::Fn => cands.push(did),
                        _ => {}
                    }
                    for it in cands {
                        if !matches!(tcx.def_kind(it), DefKind::Fn | DefKind::AssocFn) { continue; }
                        let name = with_no_trimmed_paths!(tcx.def_path_str(it));
                        if wanted.contains(&name.as_str()) && tcx.is_mir_available(it) && done.insert(it) {
                            out.push_str(",\n");
                            ex.body(it, &format!("ext::{}", name), tcx.optimized_mir(it), &mut out);
                        }
                    }
                }
            }
        }
        out.push(']');
        let path = std::env::var("DRV_OUT").unwrap();
        std::fs::write(format!("{}.tmp", path), out).unwrap();
        std::fs::rename(format!("{}.tmp", path), path).unwrap();
        Compilation::Continue
    }
}
fn main() {
    let mut args: Vec<String> = std::env::args().collect();
    args.remove(1);
    rustc_driver::run_compiler(&args, &mut Cb);
}

import json,collections
d=json.load(open('/tmp/probe/facts.json'))
by={b['fn']:b for b in d}
class G:
    def __init__(s,b):
        s.b=b; s.bl={x['bb']:x for x in b['blocks'] if not x['cleanup']}
        s.succ={bb:[t for t in s._succ(x) if t in s.bl] for bb,x in s.bl.items()}
        s.pred=collections.defaultdict(list)
        for a,ts in s.succ.items():
            for t in ts: s.pred[t].append(a)
        s.dom=s._dom()
    def _succ(s,x):
        t=x['term'];k=t['k']
        if k=='goto': return [t['t']]
        if k=='switch': return [tt for _,tt in t['targets']]+[t['otherwise']]
        if k in('call','drop','assert'): return [t['t']] if t['t']>=0 else []
        return []
    def _dom(s):
        nodes=list(s.bl); dom={n:set(nodes) for n in nodes}; dom[0]={0}
        ch=True
        while ch:
            ch=False
            for n in nodes:
                if n==0: continue
                ps=[dom[p] for p in s.pred[n]]
                new=set.intersection(*ps)|{n} if ps else {n}
                if new!=dom[n]: dom[n]=new; ch=True
        return dom
    def calls(s,sub):
        return [bb for bb,x in s.bl.items() if x['term']['k']=='call' and sub in x['term']['callee']]
    def reach(s,a):
        seen=set();st=list(s.succ[a])
        while st:
            n=st.pop()
            if n in seen: continue
            seen.add(n); st+=s.succ[n]
        return seen
    def dominates(s,a,b): return a in s.dom[b] and a!=b or a==b
def chk(name,ok,detail=''): print(('OK  ' if ok else 'FAIL'),name,detail)

v=G(by['scheduler::Scheduler::<DB>::validate'])
ts=v.calls('logical_timestamp'); reads=v.calls('DashMap::<K, V, S>::get')+v.calls('Beneficiary::validate')
chk('N1 ts dominates reads', all(any(v.dominates(t,r) for t in ts) for r in reads), f'ts={ts} reads={reads}')
rw=v.calls('rewind_validation_to'); pubs=v.calls('mark_mv_estimate')+v.calls('Beneficiary::invalidate')
chk('N2 validate: no mark/invalidate reachable after rewind', not any(p in v.reach(r) for r in rw for p in pubs), f'rw={rw} pubs={pubs}')
chk('N2 validate: marks dominate rewind', all(any(v.dominates(p,r) for r in rw) for p in pubs))
nt=v.calls('WaitSlot::notify'); un=v.calls('SchedulerContext::unconfirmed')
chk('W2 validate: unconfirmed not after notify', not any(u in v.reach(n) for n in nt for u in un))
e=G(by['scheduler::Scheduler::<DB>::execute_task'])
rw=e.calls('rewind_validation_to')
pubs=e.calls('execute_incarnation')+e.calls('mark_mv_estimate')+e.calls('record_estimate')+e.calls('record_execution')+e.calls('BTreeMap::<K, V, A>::remove')+e.calls('DashMap::<K, V, S>::get_mut')
chk('N2/N3 execute_task: no publication after rewind', not any(p in e.reach(r) for r in rw for p in pubs), f'rw={rw} pubs={len(pubs)}')
ex=e.calls('SchedulerContext::executed')
chk('execute_task: executed() precedes every rewind', all(any(e.dominates(x,r) for x in ex) for r in rw))
c=G(by['scheduler::Scheduler::<DB>::run_commit_loop'])
pc=c.calls('publish_commit'); dc=c.calls('TxDependency::commit'); cm=c.calls('OrderedCommitter::<\'a, DB>::commit')
chk('V3 publish_commit dominates dependency commit', all(any(c.dominates(p,x) for p in pc) for x in dc), f'{pc} {dc} {cm}')
chk('N10 commit() dominates publish_commit', all(any(c.dominates(m,p) for m in cm) for p in pc))
# fetch_min sites
for fn in ['remove','commit','key_tx','add']:
    g=G(by['tx_dependency::TxDependency::'+fn])
    fm=g.calls('fetch_min'); lk=g.calls('Mutex::<R, T>::lock')
    # field writes after fetch_min?
    bad=[]
    for f in fm:
        for bb in g.reach(f):
            for st in g.bl[bb]['stmts']:
                pr=st['lhs']['proj']
                if any('DependentState.' in p for p in pr): bad.append((f,bb,pr))
    chk(f'V2 {fn}: lock dominates fetch_min & no DependentState write after', all(any(g.dominates(l,f) for l in lk) for f in fm) and not bad, f'fm={fm} bad={bad}')

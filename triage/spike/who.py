import json,collections
d=json.load(open('/tmp/probe/facts.json'))
def prod(fn): return 'tests' not in fn and not fn.startswith('ext::') and 'test_utils' not in fn
field_writes=collections.defaultdict(set); calls=collections.defaultdict(set)
for b in d:
    fn=b['fn']
    if not prod(fn) or 'promoted' in fn: continue
    for x in b['blocks']:
        if x['cleanup']: continue
        for st in x['stmts']:
            for p in st['lhs']['proj']:
                if p!='*' and ('.' in p): last=p
            pr=[p for p in st['lhs']['proj'] if p!='*']
            if pr: field_writes[pr[-1]].add(fn)
        t=x['term']
        if t['k']=='call': calls[t['callee']].add(fn)
for f in ['model::TxState.status','model::TxState.incarnation','model::TxState.dependency','model::MemoryEntry.estimate','tx_dependency::DependentState.onboard','tx_dependency::DependentState.dependency']:
    print(f,'<-',sorted(field_writes.get(f,[])))
print()
for c in sorted(calls):
    if any(k in c for k in ['park','unpark','WaitSlot::notify','rewind_validation_to','SchedulerContext::unconfirmed','SchedulerContext::executed','publish_finality','publish_commit','std::env::var','mark_mv_estimate','::abort','::cancel','run_once','replay_uncommitted_suffix','parallel_execute_inner','post_execute','install_commit','HistoryEntry::record','HistoryEntry::invalidate','EvmInternals','logical_timestamp','TxDependency::','available_parallelism','Instant::now']):
        print(c,'<-',sorted(x.split('::<DB>::')[-1] if '::<DB>::' in x else x for x in calls[c]))

import json,sys,collections
d=json.load(open('/tmp/probe/facts.json'))
by={b['fn']:b for b in d}

class F:
    def __init__(s,b):
        s.b=b; s.blocks={x['bb']:x for x in b['blocks'] if not x['cleanup']}
        s.names={l['i']:l['name'] for l in b['locals']}
        s.tys={l['i']:l['ty'] for l in b['locals']}
        s.defs=collections.defaultdict(list)  # local -> [(bb, idx or 'term', rv)]
        for bb,x in s.blocks.items():
            for i,st in enumerate(x['stmts']):
                if not st['lhs']['proj']:
                    s.defs[st['lhs']['local']].append((bb,i,st['rv']))
            t=x['term']
            if t['k']=='call' and not t['dest']['proj']:
                s.defs[t['dest']['local']].append((bb,'term',{'k':'call','callee':t['callee'],'args':t['args']}))
    def succ(s,bb):
        t=s.blocks[bb]['term']; k=t['k']
        if k=='goto': return [('',t['t'])]
        if k=='switch': return [(str(v),tt) for v,tt in t['targets']]+[('else',t['otherwise'])]
        if k in('call','drop','assert'):
            return [('',t['t'])] if t['t']>=0 else []
        return []
    def place_str(s,p):
        base=s.names.get(p['local']) or f"_{p['local']}"
        return base+''.join('.'+x.split('.')[-1] if x!='*' else '' for x in p['proj'])
    def prov(s,op,depth=0):
        if depth>8: return '…'
        if op['k']=='const': return op['v']
        p=op['p']
        if p['proj'] or s.names.get(p['local']) or p['local']<=s.b['argc']:
            if not p['proj'] and not s.names.get(p['local']):
                pass
            else:
                base = s.names.get(p['local'])
                if base or p['local']<=s.b['argc']:
                    return s.place_str(p)
        ds=s.defs.get(p['local'],[])
        suffix=''.join('.'+x.split('.')[-1] if x!='*' else '' for x in p['proj'])
        if len(ds)==1:
            return s.rv(ds[0][2],depth+1)+suffix
        if not ds: return f"_{p['local']}"+suffix
        return 'phi('+'|'.join(sorted(set(s.rv(x[2],depth+1) for x in ds)))+')'+suffix
    def rv(s,rv,depth):
        k=rv['k']
        if k=='use': return s.prov(rv['o'],depth)
        if k=='ref': 
            return s.prov({'k':'copy','p':rv['p']},depth)
        if k=='bin': return f"{rv['op']}({s.prov(rv['l'],depth)},{s.prov(rv['r'],depth)})"
        if k=='un': return f"{rv['op']}({s.prov(rv['o'],depth)})"
        if k=='cast': return s.prov(rv['o'],depth)
        if k=='discr': return f"discr<{rv['ty'].split('<')[0].split('::')[-1]}>({s.prov({'k':'copy','p':rv['p']},depth)})"
        if k=='agg': return rv['adt'].split('::')[-1]+'{'+','.join(s.prov(o,depth) for o in rv['ops'])+'}'
        if k=='call': 
            c=rv['callee'].split('::')[-1]
            return c+'('+','.join(s.prov(a,depth) for a in rv['args'])+')'
        return k

def paths(f,start,stop_pred,maxlen=400):
    out=[]
    def go(bb,path,seen):
        if stop_pred(bb) and path:
            out.append(path+[(bb,'STOP')]); return
        if bb in seen or bb not in f.blocks: return
        for lab,nx in f.succ(bb):
            go(nx,path+[(bb,lab)],seen|{bb})
        if not f.succ(bb): out.append(path+[(bb,'END')])
    go(start,[],frozenset())
    return out

name=sys.argv[1]
f=F(by[name])
if len(sys.argv)>2 and sys.argv[2]=='loop':
    # find Iterator::next call
    hdr=[bb for bb,x in f.blocks.items() if x['term']['k']=='call' and x['term']['callee'].endswith('::next')][0]
    start=f.blocks[hdr]['term']['t']
    ps=paths(f,start,lambda bb: bb==hdr)
else:
    ps=paths(f,0,lambda bb: False)
print(len(ps),'paths')
res=collections.Counter()
for p in ps:
    atoms=[];effs=[]
    for bb,lab in p:
        if bb not in f.blocks: continue
        x=f.blocks[bb]
        for st in x['stmts']:
            lhs=st['lhs']
            nm=f.names.get(lhs['local'])
            if (nm or lhs['proj']) and st['rv']['k'] in('use','agg'):
                v=f.rv(st['rv'],0)
                if True:
                    effs.append(f"{f.place_str(lhs)}={v}")
        t=x['term']
        if t['k']=='switch' and lab not in('','STOP','END'):
            atoms.append(f"{f.prov(t['d'])}=={lab}")
        if t['k']=='call' and any(w in t['callee'] for w in ('abort','rewind','notify','mark_mv','invalidate','unconfirmed','fetch_min','tx_dependency','TxDependency','publish','executed')):
            effs.append('CALL '+t['callee'].split('::')[-1])
    res[(tuple(atoms),tuple(effs))]+=1
for (a,e),c in res.items():
    print('PATH',' & '.join(a)); print('   =>',e)
